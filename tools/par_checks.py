#!/usr/bin/env python3
"""Run all 20 quick checks against many patches at once, each patch applied to its own scratch copy of /repo's
sources (outside /repo and /verif, removed afterwards) and analysed with `check --root <copy>`.

usage: par_checks.py seeded|benign [-j N] [<id>/<k> ...]

Same verdicts as seeded/run_checks.py and benign/run_checks.py (which apply one patch at a time to /repo itself);
this one is the fast regression run used after a change of the rules or of the analysis library.  Results go to
meta.json ("checks") of each patch and one line per patch is printed."""
import glob
import json
import os
import re
import shutil
import subprocess
import sys
import tempfile
from concurrent.futures import ThreadPoolExecutor

VERIF = os.path.dirname(os.path.dirname(os.path.abspath(__file__)))
PROPS = os.environ.get("OVNI_PAR_PROPS", "").split() or ["C%02d" % i for i in range(1, 21)]


def sh(cmd, cwd=None):
    p = subprocess.run(cmd, shell=True, cwd=cwd, stdout=subprocess.PIPE, stderr=subprocess.STDOUT, text=True)
    return p.returncode, p.stdout


def tree_copy(base):
    d = tempfile.mkdtemp(prefix="ovpar.", dir=base)
    for sub in ("src", "include", "cfg", "doc"):
        if os.path.isdir(os.path.join("/repo", sub)):
            shutil.copytree(os.path.join("/repo", sub), os.path.join(d, sub))
    shutil.copy("/repo/CMakeLists.txt", os.path.join(d, "CMakeLists.txt"))
    return d


def one(kind, s, base):
    d = os.path.join(VERIF, kind, s)
    meta = json.load(open(d + "/meta.json"))
    if kind == "seeded" and not meta.get("confirmed", {}).get("ok"):
        return s, None, meta
    tree = tree_copy(base)
    try:
        rc, out = sh("git apply --whitespace=nowarn %s/patch.diff" % d, cwd=tree)
        if rc != 0:
            return s, "patch does not apply: " + out[-200:], meta
        res = []
        for p in PROPS:
            rc, out = sh("./check %s --tier quick --no-witness --root %s" % (p, tree), cwd=VERIF)
            res.append((p, rc, out))
        return s, res, meta
    finally:
        shutil.rmtree(tree, ignore_errors=True)


def main():
    args = sys.argv[1:]
    kind = args.pop(0)
    jobs = 5
    if args and args[0] == "-j":
        jobs = int(args[1])
        args = args[2:]
    here = os.path.join(VERIF, kind)
    seeds = args or sorted(os.path.relpath(os.path.dirname(p), here) for p in glob.glob(here + "/C*/*/patch.diff"))
    base = tempfile.mkdtemp(prefix="ovni-par.")
    lines = []
    try:
        with ThreadPoolExecutor(jobs) as ex:
            for s, res, meta in ex.map(lambda s: one(kind, s, base), seeds):
                d = os.path.join(here, s)
                if res is None:
                    continue
                if isinstance(res, str):
                    print("%s: %s" % (s, res), flush=True)
                    continue
                if kind == "benign":
                    bad = []
                    for p, rc, out in res:
                        if rc != 0:
                            first = [l for l in out.splitlines() if l.startswith("R") or "BROKEN" in l][:2]
                            bad.append("%s(exit %d): %s" % (p, rc, " / ".join(x[:230] for x in first)))
                    line = "%s | %s | %s | %s" % (s, "SILENT" if not bad else "ALARM",
                                                 meta.get("kind", "?") + ": " + meta.get("summary", "")[:100], " ;; ".join(bad) or "-")
                    meta["checks"] = {"silent": not bad, "alarms": bad}
                else:
                    own = s.split("/")[0]
                    caught_own, others, broken = [], {}, []
                    for p, rc, out in res:
                        viol = re.findall(r"VIOLATION property=(\S+) replay=(\S+)", out)
                        if rc == 1 and viol:
                            names = [os.path.basename(v[1]) for v in viol]
                            if p == own:
                                caught_own = names
                            else:
                                others[p] = {"exit": rc, "violations": names[:6]}
                        elif rc != 0:
                            broken.append("%s(exit %d)" % (p, rc))
                    verdict = "CAUGHT" if caught_own else ("MISSED" if not broken or own + "(exit 2)" not in broken else "BROKEN")
                    line = "%s | %s | %s | own: %s | others: %s%s" % (
                        s, verdict, meta.get("summary", "")[:110],
                        ", ".join(x.replace(".json", "") for x in caught_own[:4]) or "-",
                        ", ".join("%s(exit %d)" % (k, v["exit"]) for k, v in sorted(others.items())) or "-",
                        (" | broken: " + ", ".join(broken)) if broken else "")
                    meta["checks"] = {"own": {"exit": 1 if caught_own else 0, "violations": caught_own[:8]}, "others": others,
                                      "broken": broken,
                                      "ran": "patch applied to a scratch copy of /repo's sources; ./check <id> --tier quick "
                                             "--no-witness --root <copy> for all 20 properties (tools/par_checks.py)"}
                print(line, flush=True)
                lines.append(line)
                json.dump(meta, open(d + "/meta.json", "w"), indent=1)
    finally:
        shutil.rmtree(base, ignore_errors=True)
    open(here + "/RESULTS.md", "a").write("\n".join(lines) + "\n")


if __name__ == "__main__":
    main()

#!/bin/sh
# usage: rebase_patch.sh <scratch worktree of /repo> <old commit> <new commit> <dir with patch.diff> ...
# Re-makes patches written against <old commit> on <new commit> (old + patch, then cherry-pick old..new on top);
# a patch whose lines the new commits touch is reported as CONFLICT and left alone.
wt=$1; old=$2; new=$3; shift 3
cd "$wt" || exit 2
for d in "$@"; do
	git checkout -q -- . && git clean -fdq -e _build
	git checkout -q --detach "$old" && git apply "$d/patch.diff" || { echo "$d: does not apply to $old either"; continue; }
	git -c user.name=x -c user.email=x@x commit -qam tmp
	if git -c user.name=x -c user.email=x@x cherry-pick "$old..$new" >/dev/null 2>&1; then
		git diff "$new" HEAD > "$d/patch.diff"; echo "$d: rebased"
	else
		echo "$d: CONFLICT"; git cherry-pick --abort
	fi
done
git checkout -q -- .; git checkout -q --detach "$new"

#!/usr/bin/env python3
"""Quick regression over the seeded changes: each patch is applied to a scratch copy of /repo's sources and only
the check of the property it breaks is run (`check <id> --tier quick --no-witness --root <copy>`).  Prints one line
per seed (CAUGHT / MISSED / BROKEN / NOAPPLY) and a summary; writes nothing into /verif.

usage: own_checks.py [-j N] [<id>/<k> ...]"""
import glob
import os
import re
import shutil
import sys
import tempfile
from concurrent.futures import ThreadPoolExecutor

sys.path.insert(0, os.path.dirname(os.path.abspath(__file__)))
from par_checks import VERIF, sh, tree_copy  # noqa: E402


def one(s, base):
    d = os.path.join(VERIF, "seeded", s)
    tree = tree_copy(base)
    try:
        rc, out = sh("git apply --whitespace=nowarn %s/patch.diff" % d, cwd=tree)
        if rc != 0:
            return s, "NOAPPLY", ""
        own = s.split("/")[0]
        rc, out = sh("./check %s --tier quick --no-witness --root %s" % (own, tree), cwd=VERIF)
        viol = re.findall(r"VIOLATION property=(\S+) replay=(\S+)", out)
        if rc == 1 and viol:
            return s, "CAUGHT", os.path.basename(viol[0][1])
        return s, ("MISSED" if rc == 0 else "BROKEN"), out.strip().splitlines()[-1][:200] if out.strip() else ""
    finally:
        shutil.rmtree(tree, ignore_errors=True)


def main():
    args = sys.argv[1:]
    jobs = 6
    if args and args[0] == "-j":
        jobs = int(args[1])
        args = args[2:]
    here = os.path.join(VERIF, "seeded")
    seeds = args or sorted(os.path.relpath(os.path.dirname(p), here) for p in glob.glob(here + "/C*/*/patch.diff"))
    base = tempfile.mkdtemp(prefix="ovni-own.")
    tally = {}
    try:
        with ThreadPoolExecutor(jobs) as ex:
            for s, verdict, note in ex.map(lambda s: one(s, base), seeds):
                tally[verdict] = tally.get(verdict, 0) + 1
                if verdict != "CAUGHT":
                    print("%s %s %s" % (s, verdict, note), flush=True)
    finally:
        shutil.rmtree(base, ignore_errors=True)
    print("summary: %s of %d" % (tally, len(seeds)))


if __name__ == "__main__":
    main()

// ovx — fact extractor for the ovni static checks (DESIGN.md §2.2).
//
// One run per translation unit.  Emits, as one JSON object:
//   enums, records (with layout), globals (with constant-evaluated initialisers),
//   function declarations (attributes), and for every function *definition* the
//   complete statement/expression node table plus the clang::CFG built with
//   setAllAlwaysAdd() (blocks = ordered node ids, terminator, labelled successors).
//
// Usage: ovx -o out.json file.c -- <compile flags>
//
// Nothing here interprets ovni; all repository knowledge lives in the Python rules.

#include "clang/AST/ASTConsumer.h"
#include "clang/AST/ASTContext.h"
#include "clang/AST/Attr.h"
#include "clang/AST/Decl.h"
#include "clang/AST/Expr.h"
#include "clang/AST/RecordLayout.h"
#include "clang/AST/RecursiveASTVisitor.h"
#include "clang/AST/Stmt.h"
#include "clang/Analysis/CFG.h"
#include "clang/Basic/SourceManager.h"
#include "clang/Frontend/CompilerInstance.h"
#include "clang/Frontend/FrontendAction.h"
#include "clang/Lex/Lexer.h"
#include "clang/Lex/Preprocessor.h"
#include "clang/Tooling/CommonOptionsParser.h"
#include "clang/Tooling/Tooling.h"
#include "llvm/Support/CommandLine.h"
#include "llvm/Support/JSON.h"
#include "llvm/Support/raw_ostream.h"

#include <map>
#include <set>
#include <string>
#include <vector>

using namespace clang;
using namespace clang::tooling;
namespace json = llvm::json;

static llvm::cl::OptionCategory Cat("ovx options");
static llvm::cl::opt<std::string> OutPath("o", llvm::cl::desc("output file"),
		llvm::cl::Required, llvm::cl::cat(Cat));

namespace {

static std::string fixUtf8(llvm::StringRef s)
{
	// JSON strings must be valid UTF-8; escape any byte >= 0x80 or control
	// byte as \xNN text so that nothing is lost.
	std::string out;
	for (unsigned char c : s) {
		if (c >= 0x80 || (c < 0x20 && c != '\n' && c != '\t')) {
			char buf[8];
			snprintf(buf, sizeof(buf), "\\x%02x", c);
			out += buf;
		} else {
			out.push_back((char) c);
		}
	}
	return out;
}

class Extractor {
public:
	ASTContext &Ctx;
	SourceManager &SM;
	const LangOptions &LO;
	json::Object Root;
	json::Object Enums, Records;
	json::Array Globals, Functions, Decls;
	std::set<const RecordDecl *> SeenRecords;
	std::set<const EnumDecl *> SeenEnums;

	Extractor(ASTContext &C) : Ctx(C), SM(C.getSourceManager()), LO(C.getLangOpts()) {}

	// ---- locations -------------------------------------------------
	std::string fileOf(SourceLocation L)
	{
		L = SM.getExpansionLoc(L);
		if (L.isInvalid())
			return "";
		PresumedLoc P = SM.getPresumedLoc(L);
		if (P.isInvalid())
			return "";
		return P.getFilename();
	}
	unsigned lineOf(SourceLocation L)
	{
		L = SM.getExpansionLoc(L);
		if (L.isInvalid())
			return 0;
		return SM.getExpansionLineNumber(L);
	}
	unsigned colOf(SourceLocation L)
	{
		L = SM.getExpansionLoc(L);
		if (L.isInvalid())
			return 0;
		return SM.getExpansionColumnNumber(L);
	}
	bool inSystemHeader(SourceLocation L)
	{
		L = SM.getExpansionLoc(L);
		return L.isValid() && SM.isInSystemHeader(L);
	}
	// name of the outermost macro whose expansion produced this location
	std::string outerMacro(SourceLocation L)
	{
		if (!L.isMacroID())
			return "";
		SourceLocation Cur = L;
		std::string name;
		while (Cur.isMacroID()) {
			// The expansion that Cur sits in:
			if (SM.isMacroArgExpansion(Cur)) {
				Cur = SM.getImmediateExpansionRange(Cur).getBegin();
				continue;
			}
			name = Lexer::getImmediateMacroName(Cur, SM, LO).str();
			Cur = SM.getImmediateExpansionRange(Cur).getBegin();
		}
		return name;
	}
	// all macro names on the expansion stack (innermost first)
	json::Array macroStack(SourceLocation L)
	{
		json::Array a;
		SourceLocation Cur = L;
		while (Cur.isMacroID()) {
			if (SM.isMacroArgExpansion(Cur)) {
				Cur = SM.getImmediateExpansionRange(Cur).getBegin();
				continue;
			}
			a.push_back(Lexer::getImmediateMacroName(Cur, SM, LO).str());
			Cur = SM.getImmediateExpansionRange(Cur).getBegin();
		}
		return a;
	}

	// ---- types -----------------------------------------------------
	std::string typeStr(QualType T) { return T.getAsString(); }
	std::string canonStr(QualType T) { return T.getCanonicalType().getAsString(); }

	std::string recordName(const RecordDecl *RD)
	{
		if (!RD)
			return "";
		if (RD->getIdentifier())
			return RD->getName().str();
		if (const TypedefNameDecl *TD = RD->getTypedefNameForAnonDecl())
			return TD->getName().str();
		// anonymous: name by location
		std::string s = "anon@" + fileOf(RD->getLocation()) + ":"
				+ std::to_string(lineOf(RD->getLocation()));
		return s;
	}

	void noteType(QualType T)
	{
		T = T.getCanonicalType();
		for (int guard = 0; guard < 16; guard++) {
			if (const auto *PT = T->getAs<PointerType>()) {
				T = PT->getPointeeType().getCanonicalType();
				continue;
			}
			if (const auto *AT = Ctx.getAsArrayType(T)) {
				T = AT->getElementType().getCanonicalType();
				continue;
			}
			if (const auto *AtT = T->getAs<AtomicType>()) {
				T = AtT->getValueType().getCanonicalType();
				continue;
			}
			break;
		}
		if (const auto *RT = T->getAs<RecordType>())
			noteRecord(RT->getDecl());
		else if (const auto *ET = T->getAs<EnumType>())
			noteEnum(ET->getDecl());
	}

	void noteRecord(const RecordDecl *RD)
	{
		RD = RD->getDefinition();
		if (!RD || RD->isInvalidDecl())
			return;
		if (!SeenRecords.insert(RD).second)
			return;
		if (inSystemHeader(RD->getLocation()))
			return;
		const ASTRecordLayout &RL = Ctx.getASTRecordLayout(RD);
		json::Object o;
		o["file"] = fileOf(RD->getLocation());
		o["line"] = (int64_t) lineOf(RD->getLocation());
		o["union"] = RD->isUnion();
		o["size"] = (int64_t) RL.getSize().getQuantity();
		json::Array fields;
		unsigned idx = 0;
		for (const FieldDecl *FD : RD->fields()) {
			json::Object f;
			f["name"] = FD->getName().str();
			f["type"] = typeStr(FD->getType());
			f["ctype"] = canonStr(FD->getType());
			f["offbits"] = (int64_t) RL.getFieldOffset(idx);
			f["atomic"] = FD->getType()->isAtomicType();
			if (FD->isBitField())
				f["bits"] = (int64_t) FD->getBitWidthValue(Ctx);
			if (!FD->getType()->isIncompleteType() && !FD->getType()->isDependentType())
				f["size"] = (int64_t) Ctx.getTypeSizeInChars(FD->getType()).getQuantity();
			if (const auto *CAT = Ctx.getAsConstantArrayType(FD->getType()))
				f["count"] = (int64_t) CAT->getSize().getZExtValue();
			fields.push_back(std::move(f));
			idx++;
		}
		o["fields"] = std::move(fields);
		Records[recordName(RD)] = std::move(o);
		for (const FieldDecl *FD : RD->fields())
			noteType(FD->getType());
	}

	void noteEnum(const EnumDecl *ED)
	{
		ED = ED->getDefinition();
		if (!ED)
			return;
		if (!SeenEnums.insert(ED).second)
			return;
		if (inSystemHeader(ED->getLocation()))
			return;
		std::string name;
		if (ED->getIdentifier())
			name = ED->getName().str();
		else if (const TypedefNameDecl *TD = ED->getTypedefNameForAnonDecl())
			name = TD->getName().str();
		else
			name = "anon@" + fileOf(ED->getLocation()) + ":"
					+ std::to_string(lineOf(ED->getLocation()));
		json::Object o;
		o["file"] = fileOf(ED->getLocation());
		o["line"] = (int64_t) lineOf(ED->getLocation());
		json::Array es;
		for (const EnumConstantDecl *EC : ED->enumerators()) {
			json::Array pair;
			pair.push_back(EC->getName().str());
			pair.push_back((int64_t) EC->getInitVal().getExtValue());
			es.push_back(std::move(pair));
		}
		o["enumerators"] = std::move(es);
		Enums[name] = std::move(o);
	}

	// ---- constant initialisers ----------------------------------------
	json::Value initValue(const Expr *E, int depth = 0)
	{
		if (!E)
			return nullptr;
		if (isa<ImplicitValueInitExpr>(E))
			return nullptr;
		const Expr *S = E->IgnoreParenImpCasts();
		if (const auto *CLE = dyn_cast<CompoundLiteralExpr>(S))
			return initValue(CLE->getInitializer(), depth + 1);
		if (const auto *ILE = dyn_cast<InitListExpr>(S)) {
			if (ILE->isSemanticForm() == false && ILE->getSemanticForm())
				ILE = ILE->getSemanticForm();
			QualType T = ILE->getType();
			if (const auto *RT = T->getAs<RecordType>()) {
				const RecordDecl *RD = RT->getDecl();
				json::Object o;
				o["k"] = "rec";
				o["rec"] = recordName(RD);
				o["l"] = (int64_t) lineOf(ILE->getBeginLoc());
				if (ILE->getBeginLoc().isMacroID()) {
					json::Array ms = macroStack(ILE->getBeginLoc());
					if (!ms.empty())
						o["m"] = std::move(ms);
					o["mcol"] = (int64_t) colOf(ILE->getBeginLoc());
				}
				json::Object fields;
				if (RD->isUnion()) {
					if (const FieldDecl *FD = ILE->getInitializedFieldInUnion()) {
						if (ILE->getNumInits() > 0) {
							json::Value v = initValue(ILE->getInit(0), depth + 1);
							if (v != json::Value(nullptr))
								fields[FD->getName().str()] = std::move(v);
						}
					}
				} else {
					unsigned i = 0;
					for (const FieldDecl *FD : RD->fields()) {
						if (FD->isUnnamedBitfield())
							continue;
						if (i >= ILE->getNumInits())
							break;
						json::Value v = initValue(ILE->getInit(i), depth + 1);
						if (v != json::Value(nullptr))
							fields[FD->getName().str()] = std::move(v);
						i++;
					}
				}
				o["fields"] = std::move(fields);
				return std::move(o);
			}
			if (const auto *AT = Ctx.getAsConstantArrayType(T)) {
				json::Object o;
				o["k"] = "arr";
				o["n"] = (int64_t) AT->getSize().getZExtValue();
				json::Object elems;
				for (unsigned i = 0; i < ILE->getNumInits(); i++) {
					json::Value v = initValue(ILE->getInit(i), depth + 1);
					if (v != json::Value(nullptr))
						elems[std::to_string(i)] = std::move(v);
				}
				if (ILE->hasArrayFiller()) {
					json::Value v = initValue(ILE->getArrayFiller(), depth + 1);
					if (v != json::Value(nullptr))
						o["filler"] = std::move(v);
				}
				o["elems"] = std::move(elems);
				return std::move(o);
			}
			// scalar in braces
			if (ILE->getNumInits() == 1)
				return initValue(ILE->getInit(0), depth + 1);
			return nullptr;
		}
		if (const auto *SL = dyn_cast<StringLiteral>(S)) {
			json::Object o;
			o["k"] = "str";
			o["s"] = fixUtf8(SL->getBytes());
			return std::move(o);
		}
		// address of global / function
		{
			const Expr *A = S;
			bool addr = false;
			if (const auto *UO = dyn_cast<UnaryOperator>(A)) {
				if (UO->getOpcode() == UO_AddrOf) {
					A = UO->getSubExpr()->IgnoreParenImpCasts();
					addr = true;
				}
			}
			// strip casts like (const struct x *) &y
			while (const auto *CE = dyn_cast<CastExpr>(A))
				A = CE->getSubExpr()->IgnoreParenImpCasts();
			if (const auto *UO = dyn_cast<UnaryOperator>(A)) {
				if (UO->getOpcode() == UO_AddrOf) {
					A = UO->getSubExpr()->IgnoreParenImpCasts();
					addr = true;
				}
			}
			if (const auto *DRE = dyn_cast<DeclRefExpr>(A)) {
				if (const auto *FD = dyn_cast<FunctionDecl>(DRE->getDecl())) {
					json::Object o;
					o["k"] = "fn";
					o["name"] = FD->getName().str();
					return std::move(o);
				}
				if (const auto *VD = dyn_cast<VarDecl>(DRE->getDecl())) {
					if (addr || VD->getType()->isArrayType()) {
						json::Object o;
						o["k"] = "addr";
						o["name"] = VD->getName().str();
						return std::move(o);
					}
				}
			}
		}
		Expr::EvalResult R;
		if (!S->isValueDependent() && S->getType()->isIntegralOrEnumerationType()
				&& S->EvaluateAsInt(R, Ctx, Expr::SE_NoSideEffects)) {
			json::Object o;
			o["k"] = "int";
			o["v"] = (int64_t) R.Val.getInt().getExtValue();
			// if the source spelled an enumerator, remember it
			if (const auto *DRE = dyn_cast<DeclRefExpr>(S))
				if (isa<EnumConstantDecl>(DRE->getDecl()))
					o["enum"] = DRE->getDecl()->getName().str();
			return std::move(o);
		}
		if (S->getType()->isPointerType()) {
			Expr::EvalResult PR;
			if (S->isNullPointerConstant(Ctx, Expr::NPC_ValueDependentIsNotNull)) {
				json::Object o;
				o["k"] = "null";
				return std::move(o);
			}
		}
		if (S->getType()->isRealFloatingType()) {
			Expr::EvalResult FR;
			if (S->EvaluateAsRValue(FR, Ctx) && FR.Val.isFloat()) {
				json::Object o;
				o["k"] = "float";
				o["v"] = FR.Val.getFloat().convertToDouble();
				return std::move(o);
			}
		}
		json::Object o;
		o["k"] = "expr";
		o["class"] = S->getStmtClassName();
		o["line"] = (int64_t) lineOf(S->getBeginLoc());
		return std::move(o);
	}

	// ---- statements ----------------------------------------------------
	struct FnCtx {
		std::map<const Stmt *, int> Ids;
		json::Array Nodes;
	};

	const char *declKind(const ValueDecl *D)
	{
		if (isa<EnumConstantDecl>(D))
			return "enum";
		if (isa<FunctionDecl>(D))
			return "fn";
		if (isa<ParmVarDecl>(D))
			return "param";
		if (const auto *VD = dyn_cast<VarDecl>(D)) {
			if (VD->isLocalVarDecl())
				return VD->isStaticLocal() ? "slocal" : "local";
			return "global";
		}
		return "other";
	}

	int dumpStmt(FnCtx &F, const Stmt *S)
	{
		if (!S)
			return -1;
		auto it = F.Ids.find(S);
		if (it != F.Ids.end())
			return it->second;

		// children first (post-order ids make evaluation order roughly increasing)
		std::vector<int> kids;
		for (const Stmt *C : S->children())
			kids.push_back(dumpStmt(F, C));

		json::Object o;
		int id = (int) F.Nodes.size();
		F.Ids[S] = id;
		o["k"] = S->getStmtClassName();
		SourceLocation BL = S->getBeginLoc();
		o["l"] = (int64_t) lineOf(BL);
		o["col"] = (int64_t) colOf(BL);
		if (BL.isMacroID()) {
			json::Array ms = macroStack(BL);
			if (!ms.empty())
				o["m"] = std::move(ms);
		}
		json::Array c;
		for (int k : kids)
			c.push_back(k);
		o["c"] = std::move(c);

		if (const auto *E = dyn_cast<Expr>(S)) {
			o["t"] = typeStr(E->getType());
			std::string ct = canonStr(E->getType());
			if (ct != typeStr(E->getType()))
				o["ct"] = ct;
			if (!E->isValueDependent() && E->getType()->isIntegralOrEnumerationType()
					&& !isa<InitListExpr>(E)) {
				Expr::EvalResult R;
				if (E->EvaluateAsInt(R, Ctx, Expr::SE_NoSideEffects))
					o["v"] = (int64_t) R.Val.getInt().getExtValue();
			} else if (E->getType()->isPointerType()
					&& E->isNullPointerConstant(Ctx, Expr::NPC_ValueDependentIsNotNull)) {
				o["null"] = true;
			}
			noteType(E->getType());
		}

		if (const auto *CE = dyn_cast<CallExpr>(S)) {
			if (const FunctionDecl *FD = CE->getDirectCallee()) {
				o["callee"] = FD->getName().str();
				if (unsigned b = FD->getBuiltinID())
					o["builtin"] = (int64_t) b;
			}
			o["fnexpr"] = dumpStmt(F, CE->getCallee());
			json::Array args;
			for (const Expr *A : CE->arguments())
				args.push_back(dumpStmt(F, A));
			o["args"] = std::move(args);
		} else if (const auto *DRE = dyn_cast<DeclRefExpr>(S)) {
			const ValueDecl *D = DRE->getDecl();
			o["name"] = D->getName().str();
			o["dk"] = declKind(D);
			if (const auto *VD = dyn_cast<VarDecl>(D)) {
				o["dl"] = (int64_t) lineOf(VD->getLocation());
				if (VD->getTLSKind() != VarDecl::TLS_None)
					o["tls"] = true;
				if (VD->hasGlobalStorage() && !VD->isLocalVarDecl()) {
					o["gfile"] = fileOf(VD->getLocation());
					o["static"] = VD->getStorageClass() == SC_Static;
				}
			}
		} else if (const auto *ME = dyn_cast<MemberExpr>(S)) {
			o["field"] = ME->getMemberDecl()->getName().str();
			o["arrow"] = ME->isArrow();
			if (const auto *FD = dyn_cast<FieldDecl>(ME->getMemberDecl())) {
				const RecordDecl *RD = FD->getParent();
				// members of anonymous structs/unions belong, for the
				// rules, to the enclosing named record
				while (RD->isAnonymousStructOrUnion() && isa<RecordDecl>(RD->getParent()))
					RD = cast<RecordDecl>(RD->getParent());
				o["rec"] = recordName(RD);
			}
		} else if (const auto *SL = dyn_cast<StringLiteral>(S)) {
			o["s"] = fixUtf8(SL->getBytes());
		} else if (const auto *UO = dyn_cast<UnaryOperator>(S)) {
			o["op"] = UnaryOperator::getOpcodeStr(UO->getOpcode()).str();
			if (UO->isPostfix())
				o["postfix"] = true;
		} else if (const auto *BO = dyn_cast<BinaryOperator>(S)) {
			o["op"] = BO->getOpcodeStr().str();
		} else if (const auto *CastE = dyn_cast<CastExpr>(S)) {
			o["ck"] = CastE->getCastKindName();
			o["from"] = canonStr(CastE->getSubExpr()->getType());
		} else if (const auto *UE = dyn_cast<UnaryExprOrTypeTraitExpr>(S)) {
			o["trait"] = (UE->getKind() == UETT_SizeOf) ? "sizeof" : "other";
			if (UE->isArgumentType())
				o["argtype"] = typeStr(UE->getArgumentType());
		} else if (const auto *AE = dyn_cast<AtomicExpr>(S)) {
			const char *n = "atomic";
			switch (AE->getOp()) {
#define BUILTIN(ID, TYPE, ATTRS)
#define ATOMIC_BUILTIN(ID, TYPE, ATTRS) \
	case AtomicExpr::AO##ID:        \
		n = #ID;                \
		break;
#include "clang/Basic/Builtins.def"
			}
			o["op"] = n;
			// ptr is always sub-expression 0
			o["ptr"] = dumpStmt(F, AE->getPtr());
		} else if (const auto *DS = dyn_cast<DeclStmt>(S)) {
			json::Array ds;
			for (const Decl *D : DS->decls()) {
				if (const auto *VD = dyn_cast<VarDecl>(D)) {
					json::Object d;
					d["name"] = VD->getName().str();
					d["type"] = typeStr(VD->getType());
					d["ctype"] = canonStr(VD->getType());
					d["dl"] = (int64_t) lineOf(VD->getLocation());
					d["static"] = VD->isStaticLocal();
					if (VD->hasInit())
						d["init"] = dumpStmt(F, VD->getInit());
					if (VD->isStaticLocal() && VD->hasInit())
						d["cinit"] = initValue(VD->getInit());
					if (const auto *CAT = Ctx.getAsConstantArrayType(VD->getType())) {
						d["count"] = (int64_t) CAT->getSize().getZExtValue();
						d["esize"] = (int64_t) Ctx.getTypeSizeInChars(CAT->getElementType()).getQuantity();
					}
					if (!VD->getType()->isIncompleteType() && !VD->getType()->isVariablyModifiedType())
						d["size"] = (int64_t) Ctx.getTypeSizeInChars(VD->getType()).getQuantity();
					noteType(VD->getType());
					ds.push_back(std::move(d));
				}
			}
			o["decls"] = std::move(ds);
		} else if (const auto *RS = dyn_cast<ReturnStmt>(S)) {
			o["val"] = RS->getRetValue() ? dumpStmt(F, RS->getRetValue()) : -1;
		} else if (const auto *CS = dyn_cast<CaseStmt>(S)) {
			Expr::EvalResult R;
			if (CS->getLHS() && CS->getLHS()->EvaluateAsInt(R, Ctx))
				o["lo"] = (int64_t) R.Val.getInt().getExtValue();
			if (CS->getRHS() && CS->getRHS()->EvaluateAsInt(R, Ctx))
				o["hi"] = (int64_t) R.Val.getInt().getExtValue();
		} else if (const auto *LS = dyn_cast<LabelStmt>(S)) {
			o["name"] = LS->getName();
		} else if (const auto *GS = dyn_cast<GotoStmt>(S)) {
			o["name"] = GS->getLabel()->getName().str();
		} else if (const auto *IS = dyn_cast<IfStmt>(S)) {
			o["cond"] = dumpStmt(F, IS->getCond());
			o["then"] = dumpStmt(F, IS->getThen());
			o["else"] = IS->getElse() ? dumpStmt(F, IS->getElse()) : -1;
		} else if (const auto *SS = dyn_cast<SwitchStmt>(S)) {
			o["cond"] = dumpStmt(F, SS->getCond());
		} else if (const auto *WS = dyn_cast<WhileStmt>(S)) {
			o["cond"] = dumpStmt(F, WS->getCond());
		} else if (const auto *DoS = dyn_cast<DoStmt>(S)) {
			o["cond"] = dumpStmt(F, DoS->getCond());
		} else if (const auto *FS = dyn_cast<ForStmt>(S)) {
			o["cond"] = FS->getCond() ? dumpStmt(F, FS->getCond()) : -1;
			o["init"] = FS->getInit() ? dumpStmt(F, FS->getInit()) : -1;
			o["inc"] = FS->getInc() ? dumpStmt(F, FS->getInc()) : -1;
		} else if (const auto *ILE = dyn_cast<InitListExpr>(S)) {
			(void) ILE;
		}
		// id may have shifted if nested dumpStmt calls were made above for
		// callee/args (they are children, so already dumped: no shift).
		// But DeclStmt inits / synthetic nodes could add nodes: recompute.
		if ((int) F.Nodes.size() != id) {
			id = (int) F.Nodes.size();
			F.Ids[S] = id;
		}
		F.Nodes.push_back(std::move(o));
		return id;
	}

	void dumpFunction(const FunctionDecl *FD)
	{
		json::Object fo;
		fo["name"] = FD->getName().str();
		fo["file"] = fileOf(FD->getLocation());
		fo["line"] = (int64_t) lineOf(FD->getBeginLoc());
		fo["endline"] = (int64_t) lineOf(FD->getEndLoc());
		fo["static"] = FD->getStorageClass() == SC_Static;
		fo["inline"] = FD->isInlineSpecified();
		fo["ret"] = typeStr(FD->getReturnType());
		fo["noreturn"] = FD->isNoReturn();
		json::Array params;
		for (const ParmVarDecl *P : FD->parameters()) {
			json::Object p;
			p["name"] = P->getName().str();
			p["type"] = typeStr(P->getType());
			p["ctype"] = canonStr(P->getType());
			params.push_back(std::move(p));
			noteType(P->getType());
		}
		fo["params"] = std::move(params);

		FnCtx F;
		const Stmt *Body = FD->getBody();
		int bodyId = dumpStmt(F, Body);

		CFG::BuildOptions BO;
		BO.setAllAlwaysAdd();
		BO.PruneTriviallyFalseEdges = true;
		BO.AddEHEdges = false;
		BO.AddImplicitDtors = false;
		BO.AddInitializers = false;
		std::unique_ptr<CFG> G = CFG::buildCFG(FD, const_cast<Stmt *>(Body), &Ctx, BO);
		json::Object cfg;
		if (G) {
			cfg["entry"] = (int64_t) G->getEntry().getBlockID();
			cfg["exit"] = (int64_t) G->getExit().getBlockID();
			json::Array blocks;
			for (const CFGBlock *B : *G) {
				json::Object bo;
				bo["id"] = (int64_t) B->getBlockID();
				json::Array elems;
				for (const CFGElement &El : *B) {
					if (auto CS = El.getAs<CFGStmt>()) {
						const Stmt *S = CS->getStmt();
						elems.push_back(dumpStmt(F, S));
					}
				}
				bo["elems"] = std::move(elems);
				if (const Stmt *T = B->getTerminatorStmt())
					bo["term"] = dumpStmt(F, T);
				if (const Stmt *TC = B->getTerminatorCondition())
					bo["cond"] = dumpStmt(F, TC);
				if (const Stmt *L = B->getLabel()) {
					json::Object lo;
					if (const auto *CS = dyn_cast<CaseStmt>(L)) {
						Expr::EvalResult R;
						lo["kind"] = "case";
						if (CS->getLHS() && CS->getLHS()->EvaluateAsInt(R, Ctx))
							lo["lo"] = (int64_t) R.Val.getInt().getExtValue();
						if (CS->getRHS() && CS->getRHS()->EvaluateAsInt(R, Ctx))
							lo["hi"] = (int64_t) R.Val.getInt().getExtValue();
					} else if (isa<DefaultStmt>(L)) {
						lo["kind"] = "default";
					} else if (const auto *LS = dyn_cast<LabelStmt>(L)) {
						lo["kind"] = "label";
						lo["name"] = LS->getName();
					}
					lo["l"] = (int64_t) lineOf(L->getBeginLoc());
					bo["label"] = std::move(lo);
				}
				json::Array succs;
				for (auto SI = B->succ_begin(); SI != B->succ_end(); ++SI) {
					const CFGBlock *SB = SI->getReachableBlock();
					if (SB)
						succs.push_back((int64_t) SB->getBlockID());
					else
						succs.push_back(nullptr);
				}
				bo["succs"] = std::move(succs);
				bo["noreturn"] = B->hasNoReturnElement();
				blocks.push_back(std::move(bo));
			}
			cfg["blocks"] = std::move(blocks);
		}
		fo["body"] = bodyId;
		fo["nodes"] = std::move(F.Nodes);
		fo["cfg"] = std::move(cfg);
		Functions.push_back(std::move(fo));
	}

	void dumpDecl(const FunctionDecl *FD)
	{
		json::Object d;
		d["name"] = FD->getName().str();
		d["file"] = fileOf(FD->getLocation());
		d["line"] = (int64_t) lineOf(FD->getLocation());
		d["static"] = FD->getStorageClass() == SC_Static;
		d["def"] = FD->doesThisDeclarationHaveABody();
		d["use_ret"] = FD->hasAttr<WarnUnusedResultAttr>();
		d["noreturn"] = FD->isNoReturn();
		d["ret"] = typeStr(FD->getReturnType());
		d["system"] = inSystemHeader(FD->getLocation());
		if (const auto *VA = FD->getAttr<VisibilityAttr>())
			d["visibility"] = VisibilityAttr::ConvertVisibilityTypeToStr(VA->getVisibility());
		json::Array params;
		for (const ParmVarDecl *P : FD->parameters())
			params.push_back(typeStr(P->getType()));
		d["params"] = std::move(params);
		Decls.push_back(std::move(d));
	}

	void dumpGlobal(const VarDecl *VD)
	{
		if (inSystemHeader(VD->getLocation()))
			return;
		json::Object g;
		g["name"] = VD->getName().str();
		g["type"] = typeStr(VD->getType());
		g["ctype"] = canonStr(VD->getType());
		g["file"] = fileOf(VD->getLocation());
		g["line"] = (int64_t) lineOf(VD->getLocation());
		g["static"] = VD->getStorageClass() == SC_Static;
		g["extern"] = VD->hasExternalStorage();
		g["tls"] = VD->getTLSKind() != VarDecl::TLS_None;
		g["const"] = VD->getType().isConstQualified()
				|| (Ctx.getAsArrayType(VD->getType())
						&& Ctx.getBaseElementType(VD->getType()).isConstQualified());
		g["atomic"] = VD->getType()->isAtomicType();
		g["def"] = VD->isThisDeclarationADefinition() != VarDecl::DeclarationOnly;
		if (!VD->getType()->isIncompleteType())
			g["size"] = (int64_t) Ctx.getTypeSizeInChars(VD->getType()).getQuantity();
		if (VD->hasInit())
			g["init"] = initValue(VD->getInit());
		noteType(VD->getType());
		Globals.push_back(std::move(g));
	}

	void run()
	{
		TranslationUnitDecl *TU = Ctx.getTranslationUnitDecl();
		for (const Decl *D : TU->decls()) {
			if (const auto *FD = dyn_cast<FunctionDecl>(D)) {
				if (inSystemHeader(FD->getLocation())) {
					// keep only what is needed about libc: nothing here; callee
					// names are on the call nodes.
					continue;
				}
				dumpDecl(FD);
				if (FD->doesThisDeclarationHaveABody())
					dumpFunction(FD);
			} else if (const auto *VD = dyn_cast<VarDecl>(D)) {
				dumpGlobal(VD);
			} else if (const auto *RD = dyn_cast<RecordDecl>(D)) {
				noteRecord(RD);
			} else if (const auto *ED = dyn_cast<EnumDecl>(D)) {
				noteEnum(ED);
			} else if (const auto *TD = dyn_cast<TypedefNameDecl>(D)) {
				if (!inSystemHeader(TD->getLocation()))
					noteType(TD->getUnderlyingType());
			}
		}
		Root["main_file"] = SM.getFileEntryForID(SM.getMainFileID())
				? SM.getFileEntryForID(SM.getMainFileID())->getName().str()
				: "";
		Root["enums"] = std::move(Enums);
		Root["records"] = std::move(Records);
		Root["globals"] = std::move(Globals);
		Root["decls"] = std::move(Decls);
		Root["functions"] = std::move(Functions);
	}
};

// object-like macros with their replacement text (for the few constants
// rules want by name, e.g. OVNI_MAX_EV_BUF)
class MacroCollector : public PPCallbacks {
public:
	Preprocessor &PP;
	json::Object &Out;
	MacroCollector(Preprocessor &P, json::Object &O) : PP(P), Out(O) {}
	void MacroDefined(const Token &Tok, const MacroDirective *MD) override
	{
		SourceManager &SM = PP.getSourceManager();
		SourceLocation L = MD->getLocation();
		if (L.isInvalid() || SM.isInSystemHeader(L) || SM.isWrittenInBuiltinFile(L)
				|| SM.isWrittenInCommandLineFile(L))
			return;
		const MacroInfo *MI = MD->getMacroInfo();
		if (!MI)
			return;
		std::string text;
		for (const Token &T : MI->tokens()) {
			if (!text.empty() && T.hasLeadingSpace())
				text += " ";
			text += PP.getSpelling(T);
		}
		json::Object o;
		o["text"] = fixUtf8(text);
		o["fn"] = MI->isFunctionLike();
		PresumedLoc P = SM.getPresumedLoc(L);
		if (P.isValid()) {
			o["file"] = P.getFilename();
			o["line"] = (int64_t) P.getLine();
		}
		Out[Tok.getIdentifierInfo()->getName().str()] = std::move(o);
	}
};

class Consumer : public ASTConsumer {
public:
	json::Object &Macros;
	Consumer(json::Object &M) : Macros(M) {}
	void HandleTranslationUnit(ASTContext &Ctx) override
	{
		if (Ctx.getDiagnostics().hasErrorOccurred()) {
			llvm::errs() << "ovx: compile errors, no output\n";
			return;
		}
		Extractor E(Ctx);
		E.run();
		E.Root["macros"] = std::move(Macros);
		std::error_code EC;
		llvm::raw_fd_ostream OS(OutPath, EC);
		if (EC) {
			llvm::errs() << "ovx: cannot open " << OutPath << "\n";
			return;
		}
		OS << json::Value(std::move(E.Root));
		OS << "\n";
	}
};

class Action : public ASTFrontendAction {
public:
	json::Object Macros;
	std::unique_ptr<ASTConsumer> CreateASTConsumer(CompilerInstance &CI, StringRef) override
	{
		CI.getPreprocessor().addPPCallbacks(
				std::make_unique<MacroCollector>(CI.getPreprocessor(), Macros));
		return std::make_unique<Consumer>(Macros);
	}
};

} // namespace

int main(int argc, const char **argv)
{
	auto Exp = CommonOptionsParser::create(argc, argv, Cat);
	if (!Exp) {
		llvm::errs() << llvm::toString(Exp.takeError());
		return 2;
	}
	CommonOptionsParser &OP = Exp.get();
	ClangTool Tool(OP.getCompilations(), OP.getSourcePathList());
	int r = Tool.run(newFrontendActionFactory<Action>().get());
	return r ? 2 : 0;
}

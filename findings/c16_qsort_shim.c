/* LD_PRELOAD shim: makes the temporary buffer allocation of glibc's qsort() fail, which makes
 * qsort fall back to its in-place quicksort (documented behaviour of glibc < 2.37; newer glibc
 * versions use a non-stable introsort unconditionally).  ISO C does not require qsort to be
 * stable; ovnisort's comparator returns 0 for equal clocks and so relies on it.
 * The allocation to fail is recognised by its size: FAIL_SIZE bytes (= 8 * number of events in
 * the region being sorted). */
#define _GNU_SOURCE
#include <dlfcn.h>
#include <errno.h>
#include <stdlib.h>
#include <string.h>

void *malloc(size_t n)
{
	static void *(*real)(size_t);
	if (!real)
		real = dlsym(RTLD_NEXT, "malloc");
	const char *fs = getenv("FAIL_SIZE");
	static int armed = 0;
	if (fs && n == (size_t) atol(fs)) {
		/* the first allocation of that size is ovnisort's own calloc'ed table (calloc does not
		 * come through here); every malloc of exactly that size is qsort's scratch buffer */
		errno = ENOMEM;
		return NULL;
	}
	return real(n);
}

/* Protocol-conformant program that flushes some events and finishes. */
#define _GNU_SOURCE
#include <ovni.h>
#include <unistd.h>
#include <sys/syscall.h>
int main(void)
{
	ovni_proc_init(1, "node0", getpid());
	ovni_thread_init((pid_t) syscall(SYS_gettid));
	ovni_add_cpu(0, 0);
	struct ovni_ev ev = {0};
	int32_t cpu = 0, tid = -1; uint64_t tag = 0;
	ovni_ev_set_clock(&ev, ovni_clock_now());
	ovni_ev_set_mcv(&ev, "OHx");
	ovni_payload_add(&ev, (uint8_t *) &cpu, sizeof(cpu));
	ovni_payload_add(&ev, (uint8_t *) &tid, sizeof(tid));
	ovni_payload_add(&ev, (uint8_t *) &tag, sizeof(tag));
	ovni_ev_emit(&ev);
	for (int i = 0; i < 1000; i++) {
		struct ovni_ev b = {0};
		ovni_ev_set_clock(&b, ovni_clock_now());
		ovni_ev_set_mcv(&b, "OB.");
		ovni_ev_emit(&b);
	}
	struct ovni_ev e = {0};
	ovni_ev_set_clock(&e, ovni_clock_now());
	ovni_ev_set_mcv(&e, "OHe");
	ovni_ev_emit(&e);
	ovni_flush();
	ovni_thread_free();
	ovni_proc_fini();
	return 0;
}

#!/bin/sh
# Demonstration for finding F-C09-1 (property C09, second sentence): with OVNI_TMPDIR the
# relocation at thread end copied the files of a stream in readdir() order, so stream.json
# (which carries "ovni.finished": 1) could reach the final directory before stream.obs, or
# although the copy of stream.obs failed.  A kill between the two copies, or a failing copy,
# leaves a stream marked finished whose flushed events are not in their final place.
#
# Needs: c10_shim.c and c10_prog.c built as described in those files.
#   cc -shared -fPIC c10_shim.c -o shim.so -ldl ; cc c10_prog.c -I$B/include -L$B/src/rt -lovni -o prog
#   FAIL=fwrite OVNI_TRACEDIR=/tmp/final OVNI_TMPDIR=/tmp/tmp LD_PRELOAD=./shim.so ./prog
# Observed before the fix (commit 649b415 of /repo, i.e. with the copy errors already reported):
#   /tmp/final/loom.node0/proc.P/thread.T/stream.json   449 bytes, "finished": 1
#   /tmp/final/loom.node0/proc.P/thread.T/stream.obs      0 bytes
#   /tmp/tmp/loom.node0/proc.P/thread.T/stream.obs    12048 bytes   (the flushed events)
# After the fix stream.json stays in the temporary directory until every other file is in place.

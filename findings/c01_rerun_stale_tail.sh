#!/bin/sh
# usage: c01_rerun_stale_tail.sh <built ovni tree>     (exit 1 = defect present)
# Two runs of the same program (fixed loom, pid, tid) into the same OVNI_TRACEDIR, the second one shorter:
# the stream must hold exactly what the second run emitted.  Before 8b77e9b it kept the first run's tail.
tree=$(cd "$1" && pwd) || exit 2
here=$(cd "$(dirname "$0")" && pwd)/c01_rerun
tmp=$(mktemp -d) || exit 2
trap 'rm -rf "$tmp"' EXIT
cc -O1 -o "$tmp/driver" "$here/driver.c" -I"$tree/_build/include" -L"$tree/_build/src/rt" -lovni \
	-Wl,-rpath,"$tree/_build/src/rt" || exit 2
cd "$tmp" || exit 2
export OVNI_TRACEDIR="$tmp/trace"
unset OVNI_TMPDIR
stream="$tmp/trace/loom.node.1/proc.123/thread.123/stream.obs"
./driver 2000 log1 && ./driver 5 log2 || exit 2
python3 "$here/check.py" "$stream" log2 || { echo "stale tail: stream is $(stat -c %s "$stream") bytes"; exit 1; }
exit 0

#!/usr/bin/env python3
# Independent decoder of an ovni stream: compares the user events found in the
# stream with the emit log. usage: check.py stream.obs emit.log
import struct, sys

def decode(path):
    data = open(path, 'rb').read()
    if len(data) < 8 or data[0:4] != b'ovni' or struct.unpack('<I', data[4:8])[0] != 1:
        raise SystemExit("FAIL: bad stream header in %s" % path)
    off = 8
    evs = []
    while off < len(data):
        if len(data) - off < 12:
            raise SystemExit("FAIL: %d trailing bytes at offset %d" % (len(data) - off, off))
        flags, m, c, v, clock = struct.unpack('<BBBBQ', data[off:off+12])
        off += 12
        mcv = bytes([m, c, v]).decode('latin1')
        if flags & 0x10:
            if len(data) - off < 4:
                raise SystemExit("FAIL: truncated jumbo size at %d" % off)
            size = struct.unpack('<I', data[off:off+4])[0]
            off += 4
            if len(data) - off < size:
                raise SystemExit("FAIL: truncated jumbo data at %d" % off)
            evs.append(('J', mcv, clock, data[off:off+size].hex()))
            off += size
        else:
            n = flags & 0x0f
            size = 0 if n == 0 else n + 1
            if len(data) - off < size:
                raise SystemExit("FAIL: truncated payload at %d" % off)
            evs.append(('N', mcv, clock, data[off:off+size].hex()))
            off += size
    return evs

def main():
    evs = decode(sys.argv[1])
    got = [e for e in evs if not (e[0] == 'N' and e[1] in ('OF[', 'OF]') and e[3] == '')]
    exp = []
    for line in open(sys.argv[2]):
        f = line.rstrip('\n').split(' ')
        kind = 'N'
        if f[0] == 'J':
            kind = 'J'
            f = f[1:]
        exp.append((kind, f[0], int(f[1]), f[2] if len(f) > 2 else ''))
    if got != exp:
        print("FAIL: stream has %d user events, %d were emitted" % (len(got), len(exp)))
        for i in range(max(len(got), len(exp))):
            g = got[i] if i < len(got) else None
            e = exp[i] if i < len(exp) else None
            if g != e:
                def short(x):
                    if x is None: return None
                    return (x[0], x[1], x[2], x[3][:32] + ('...' if len(x[3]) > 32 else ''))
                print("first difference at event %d: stream=%s emitted=%s" % (i, short(g), short(e)))
                break
        sys.exit(1)
    print("OK: %d user events match the emit log" % len(exp))

main()

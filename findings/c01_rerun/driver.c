/* Emits N small events with known contents, logs them, flushes and frees.
 * usage: driver N logfile */
#include <stdio.h>
#include <stdlib.h>
#include <stdint.h>
#include <string.h>
#include "ovni.h"

int
main(int argc, char *argv[])
{
	if (argc != 3)
		return 2;

	int n = atoi(argv[1]);
	FILE *log = fopen(argv[2], "w");
	if (log == NULL)
		return 2;

	/* Fixed pid and tid, so two runs share the same stream path */
	ovni_proc_init(1, "node.1", 123);
	ovni_thread_init(123);

	for (int i = 0; i < n; i++) {
		struct ovni_ev ev = {0};
		uint64_t clock = 1000 + (uint64_t) i;
		uint32_t payload[2] = { (uint32_t) n, (uint32_t) i };
		ovni_ev_set_mcv(&ev, "Zab");
		ovni_ev_set_clock(&ev, clock);
		ovni_payload_add(&ev, (uint8_t *) payload, sizeof(payload));
		ovni_ev_emit(&ev);
		/* mcv clock payloadhex */
		fprintf(log, "Zab %llu ", (unsigned long long) clock);
		for (size_t j = 0; j < sizeof(payload); j++)
			fprintf(log, "%02x", ((uint8_t *) payload)[j]);
		fprintf(log, "\n");
	}

	fclose(log);

	ovni_flush();
	ovni_thread_free();
	ovni_proc_fini();

	return 0;
}

/* LD_PRELOAD shim used to demonstrate the C10 findings against the real libovni.
 * FAIL=fwrite : fwrite() on a stream opened on a path ending in "stream.obs" under
 *               $OVNI_TRACEDIR returns 0 with errno=ENOSPC (copy to the final directory).
 * FAIL=close  : close() of the fd opened on ".../stream.obs" returns -1 with errno=EIO
 *               (deferred write error reported at close).
 */
#define _GNU_SOURCE
#include <dlfcn.h>
#include <errno.h>
#include <fcntl.h>
#include <stdarg.h>
#include <stdio.h>
#include <stdlib.h>
#include <string.h>
#include <unistd.h>

static FILE *victim;
static int victim_fd = -1;

FILE *fopen(const char *path, const char *mode)
{
	FILE *(*real)(const char *, const char *) = dlsym(RTLD_NEXT, "fopen");
	FILE *f = real(path, mode);
	const char *final = getenv("OVNI_TRACEDIR");
	if (f && getenv("FAIL") && !strcmp(getenv("FAIL"), "fwrite") && final
			&& strstr(path, final) == path && strstr(path, "stream.obs") && mode[0] == 'w')
		victim = f;
	return f;
}

size_t fwrite(const void *p, size_t s, size_t n, FILE *f)
{
	size_t (*real)(const void *, size_t, size_t, FILE *) = dlsym(RTLD_NEXT, "fwrite");
	if (f == victim) {
		errno = ENOSPC;
		return 0;
	}
	return real(p, s, n, f);
}

int open(const char *path, int flags, ...)
{
	int (*real)(const char *, int, ...) = dlsym(RTLD_NEXT, "open");
	va_list ap;
	va_start(ap, flags);
	int mode = va_arg(ap, int);
	va_end(ap);
	int fd = real(path, flags, mode);
	if (fd >= 0 && getenv("FAIL") && !strcmp(getenv("FAIL"), "close") && strstr(path, "stream.obs"))
		victim_fd = fd;
	return fd;
}

int close(int fd)
{
	int (*real)(int) = dlsym(RTLD_NEXT, "close");
	int r = real(fd);
	if (fd == victim_fd) {
		victim_fd = -1;
		errno = EIO;
		return -1;
	}
	return r;
}

#!/usr/bin/env python3
"""Builds small hand-made ovni traces for the demonstrations in this directory.

usage: mktrace.py <case> <outdir>
cases:
  jumbo-size-wraps     a jumbo event whose size field is 0xFFFFFFF0 (C19 R19.2: tools never terminate)
  jumbo-header-at-eof  file of exactly one page ending in a 12-byte event header with the jumbo flag
                       (C19 R19.1: the size field is read 4 bytes past the mapping)
  arg-event-no-payload an OAs event (declared 'i32 cpu') without payload (C19 R19.3: ovnidump dereferences NULL)
  type-label-unterminated  a VYc jumbo event whose label has no terminator and ends the file (C19 R19.3)
  type-label-page-end  the same with the label ending exactly at the end of a page-sized file
  create-event-no-payload  OHC without payload: 'ovniemu -d' reads through a NULL payload (C19 R19.3)
  stale-jumbo-flag     a valid VYc jumbo event followed by a non-jumbo VYc with 8 bytes (C12 R12.5)
  equal-clocks-region  sort region with 300 equal-clock events (C16 R16.1: stability of ovnisort)
  cpu-index-redefined  the same CPU index bound to two physical ids (C15 R15.4: must be an error message)
  cpus-decreasing      two CPUs listed with decreasing index (C15 R15.1: emulator crashes)
  remote-affinity-same-cpu  OAr naming the CPU the thread is already on (observation outside the 20 properties)
"""
import json, os, struct, sys

def ev(mcv, clock, payload=b"", jumbo=None):
    if jumbo is not None:
        flags = 0x10 | 3
        body = struct.pack("<I", jumbo[0]) + jumbo[1]
    else:
        flags = 0 if not payload else (len(payload) - 1)
        body = payload
    return struct.pack("<BBBBQ", flags, ord(mcv[0]), ord(mcv[1]), ord(mcv[2]), clock) + body

def write(outdir, events, meta_extra=None, require=None, raw_tail=b"", pad_to=None):
    d = os.path.join(outdir, "loom.node0", "proc.1", "thread.1")
    os.makedirs(d, exist_ok=True)
    meta = {"version": 3, "ovni": {"lib": {"version": "1.11.0", "commit": "x"}, "part": "thread", "tid": 1,
            "pid": 1, "loom": "node0", "app_id": 1, "require": require or {"ovni": "1.1.0"},
            "loom_cpus": [{"index": 0, "phyid": 0}], "finished": 1}}
    if meta_extra:
        meta["ovni"].update(meta_extra)
    json.dump(meta, open(os.path.join(d, "stream.json"), "w"), indent=1)
    data = b"ovni" + struct.pack("<I", 1) + b"".join(events) + raw_tail
    if pad_to:
        assert len(data) <= pad_to
    open(os.path.join(d, "stream.obs"), "wb").write(data)

case, out = sys.argv[1], sys.argv[2]
X = ev("OHx", 10, struct.pack("<iiQ", 0, -1, 0))
E = lambda t: ev("OHe", t)
if case == "jumbo-size-wraps":
    write(out, [X, ev("VYc", 20, jumbo=(0xFFFFFFF0, b"\x01\0\0\0abc\0")), E(30)], require={"ovni": "1.1.0", "nosv": "2.4.0"})
elif case == "jumbo-header-at-eof":
    evs = [X]
    t = 20
    # fill with burst events (12 bytes each) so that the file is exactly 4096 bytes long
    while 8 + sum(map(len, evs)) + 12 + 12 <= 4096 - 12:
        evs.append(ev("OB.", t)); t += 1
    pad = 4096 - 12 - (8 + sum(map(len, evs)))
    assert pad in (0,) or pad >= 14, pad
    if pad:
        evs.append(ev("OB.", t, b"\0" * (pad - 12)))
    tail = struct.pack("<BBBBQ", 0x10 | 3, ord("V"), ord("Y"), ord("c"), t + 1)
    write(out, evs, raw_tail=tail, require={"ovni": "1.1.0", "nosv": "2.4.0"})
elif case == "arg-event-no-payload":
    write(out, [X, ev("OAs", 20), E(30)])
elif case == "type-label-unterminated":
    write(out, [X, ev("VYc", 20, jumbo=(4 + 40, b"\x01\0\0\0" + b"L" * 40))], require={"ovni": "1.1.0", "nosv": "2.4.0"})
elif case == "type-label-page-end":
    # the unterminated label ends exactly at the end of a 4096-byte file: the string functions
    # continue into the next (unmapped) page
    n = 4096 - 8 - len(X) - 16 - 4
    write(out, [X, ev("VYc", 20, jumbo=(4 + n, b"\x01\0\0\0" + b"L" * n))], require={"ovni": "1.1.0", "nosv": "2.4.0"})
elif case == "create-event-no-payload":
    # OHC (declared with 16 bytes of payload) without payload; with 'ovniemu -d' the debug message
    # of pre_thread dereferences the NULL payload
    write(out, [X, ev("OHC", 20), E(30)])
elif case == "stale-jumbo-flag":
    good = ev("VYc", 20, jumbo=(4 + 5, b"\x01\0\0\0main\0"))
    bad = ev("VYc", 21, struct.pack("<II", 2, 0x41414141))
    write(out, [X, good, bad, E(30)], require={"ovni": "1.1.0", "nosv": "2.4.0"})
elif case == "cpus-decreasing":
    write(out, [X, E(30)], meta_extra={"loom_cpus": [{"index": 1, "phyid": 1}, {"index": 0, "phyid": 0}]})
elif case == "cpu-index-redefined":
    write(out, [X, E(30)], meta_extra={"loom_cpus": [{"index": 0, "phyid": 0}, {"index": 0, "phyid": 5}]})
elif case == "equal-clocks-region":
    # an unsorted region with 300 events of equal clock, distinguishable by their payload, that
    # have to be moved before a later-clocked event: after sorting they must keep their order
    evs = [X, ev("OB.", 50), ev("OB.", 100), ev("OU[", 101)]
    for i in range(300):
        evs.append(ev("OB.", 60, struct.pack("<I", i)))
    evs += [ev("OU]", 102), E(200)]
    write(out, evs)
elif case == "remote-affinity-same-cpu":
    # thread 1 runs on CPU 0 and sets (remotely) its own affinity to CPU 0
    write(out, [X, ev("OAr", 20, struct.pack("<ii", 0, 1)), E(30)])
elif case == "local-affinity-same-cpu":
    write(out, [X, ev("OAs", 20, struct.pack("<i", 0)), E(30)])
else:
    sys.exit("unknown case")

#!/usr/bin/env python3
# Usage: gen_pause.py <tracedir> <nosv|nanos6>
# One thread on one CPU: create a task type and a task, execute it, pause
# it and resume it WITHOUT any subsystem event in between, then end it.
import struct
import sys
from mktrace import ev, jumbo, header, ohx, ohe, metadata, write_stream

tracedir, model = sys.argv[1], sys.argv[2]
loom, pid, tid = "node.0", 1000, 1000
label = struct.pack("<I", 1) + b"mytype\0"
u = lambda *a: struct.pack("<%dI" % len(a), *a)

if model == "nosv":
    evs = [("OHx", 1000, None), ("VYc", 1010, label), ("VTc", 1020, u(1, 1)),
           ("VTx", 1030, u(1, 0)), ("VTp", 1040, u(1, 0)),
           ("VTr", 1050, u(1, 0)), ("VTe", 1060, u(1, 0)), ("OHe", 1070, None)]
    req = {"ovni": "1.1.0", "nosv": "2.4.0"}
else:
    evs = [("OHx", 1000, None), ("6Yc", 1010, label), ("6Tc", 1020, u(1, 1)),
           ("6Tx", 1030, u(1)), ("6Tp", 1040, u(1)),
           ("6Tr", 1050, u(1)), ("6Te", 1060, u(1)), ("OHe", 1070, None)]
    req = {"ovni": "1.1.0", "nanos6": "1.1.0"}

obs = bytearray(header())
for mcv, clk, pl in evs:
    if mcv == "OHx":
        obs += ohx(clk, 0, tid)
    elif mcv[1:] == "Yc":
        obs += jumbo(mcv, clk, pl)
    else:
        obs += ev(mcv, clk, pl or b"")
    print("  t=%-3d %s" % (clk - 1000, mcv))

meta = metadata(tid, pid, loom, ncpus=1, require=req)
meta["nosv"] = {"can_breakdown": True}
write_stream(tracedir, loom, pid, tid, meta, bytes(obs))

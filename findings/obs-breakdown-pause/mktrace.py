"""Tiny writer of ovni traces (stream.json + stream.obs) without libovni."""
import json
import os
import struct


def ev(mcv, clock, payload=b"", flags=None):
    """Builds one normal (non-jumbo) event."""
    assert len(mcv) == 3
    if flags is None:
        if len(payload) == 0:
            flags = 0
        else:
            assert 2 <= len(payload) <= 16
            flags = len(payload) - 1
    m = mcv if isinstance(mcv, bytes) else mcv.encode("latin-1")
    return struct.pack("<B3sQ", flags, m, clock) + payload


def jumbo(mcv, clock, data):
    m = mcv if isinstance(mcv, bytes) else mcv.encode("latin-1")
    return struct.pack("<B3sQI", 0x10, m, clock, len(data)) + data


def header():
    return b"ovni" + struct.pack("<I", 1)


def ohx(clock, cpu, tid):
    return ev("OHx", clock, struct.pack("<iiQ", cpu, tid, 0))


def ohe(clock):
    return ev("OHe", clock)


def metadata(tid, pid, loom="node.0", ncpus=2, part="thread", require=None,
             extra=None):
    if require is None:
        require = {"ovni": "1.1.0"}
    meta = {
        "version": 3,
        "ovni": {
            "lib": {"version": "1.11.0", "commit": "unknown"},
            "part": part,
            "tid": tid,
            "pid": pid,
            "loom": loom,
            "app_id": 1,
            "require": require,
            "loom_cpus": [{"index": i, "phyid": i} for i in range(ncpus)],
            "finished": 1,
        },
    }
    if extra:
        meta["ovni"].update(extra)
    return meta


def write_stream(tracedir, loom, pid, tid, meta, obs):
    d = os.path.join(tracedir, "loom.%s" % loom, "proc.%d" % pid,
                     "thread.%d" % tid)
    os.makedirs(d, exist_ok=True)
    with open(os.path.join(d, "stream.json"), "w") as f:
        if isinstance(meta, str):
            f.write(meta)
        else:
            json.dump(meta, f, indent=4)
    with open(os.path.join(d, "stream.obs"), "wb") as f:
        f.write(obs)
    return d

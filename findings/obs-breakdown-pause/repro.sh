#!/bin/sh
# Observation on the UNMODIFIED code: when a task is paused (VTp / 6Tp) and
# no subsystem event comes with it, the breakdown row drops to 0 (null)
# instead of showing the subsystem "Task: In body"; it recovers on resume.
# Exits 1 if the mismatch is observed. Usage: repro.sh <built tree>
tree="$1"
if [ -z "$tree" ]; then echo "usage: $0 <built tree>"; exit 2; fi
here=$(cd "$(dirname "$0")" && pwd)
tmp=$(mktemp -d)
trap 'rm -rf "$tmp"' EXIT
export PYTHONDONTWRITEBYTECODE=1
export OVNI_CONFIG_DIR="$tree/cfg"

bad=0
#          model  ss type idle brk body
for cfg in "nosv 13 11 16 17 11" "nanos6 37 36 40 41 1"; do
	set -- $cfg
	m=$1; ss=$2; ty=$3; idle=$4; brk=$5; body=$6
	d="$tmp/$m"
	echo "=== $m: events (time relative to first event)"
	python3 "$here/gen_pause.py" "$d" $m || exit 2
	"$tree/_build/src/emu/ovniemu" -b "$d" >"$d.log" 2>&1 || { echo "ovniemu failed"; grep ERROR "$d.log"; exit 2; }
	echo "--- cpu.prv row 1 (type $ss=subsystem, $ty=task type, $idle=idle) as time:type:value"
	grep -E "^2:0:1:1:1:[0-9]+:($ss|$ty|$idle):" "$d/cpu.prv" | cut -d: -f6-
	echo "--- $m-breakdown.prv (type $brk) as row:time:type:value"
	grep '^2:' "$d/$m-breakdown.prv" | cut -d: -f5-
	# After the pause (t=40): task type is null, subsystem is still "task
	# body", CPU progressing -> the property text expects the subsystem.
	row40=$(grep '^2:' "$d/$m-breakdown.prv" | awk -F: '$6<=40{v=$8} END{print v}')
	echo "--- t=40 (task paused): cpu subsystem=$body (task body) type=0 idle=100 -> expected row $body, observed $row40"
	if [ "$row40" != "$body" ]; then
		echo "    MISMATCH at t=40: row shows $row40 (null), the per-CPU value by the property text is $body"
		bad=1
	fi
	# After the resume (t=50): expected the task type again
	row50=$(grep '^2:' "$d/$m-breakdown.prv" | awk -F: '$6<=50{v=$8} END{print v}')
	tt=$(grep -E "^2:0:1:1:1:[0-9]+:$ty:" "$d/cpu.prv" | awk -F: '$6<=50{v=$8} END{print v}')
	echo "--- t=50 (task resumed): expected row $tt (task type), observed $row50"
	[ "$row50" = "$tt" ] || { echo "    MISMATCH at t=50"; bad=1; }
done
exit $bad

/* Demonstration for finding F-C02-1 (property C02): a jumbo event whose total
 * size is within two marker events of the buffer capacity makes the automatic
 * flush re-enter while its own OF[ OF] markers are appended: the stream then
 * contains nested markers  OF[ OF[ OF] OF]  with a clock that goes backwards,
 * and the emulator rejects a trace produced by a protocol-conformant program.
 *
 * Build:  cc c02_jumbo_reentrant_flush.c -I<build>/include -L<build>/src/rt -lovni -o demo
 * Run:    OVNI_TRACEDIR=/tmp/x ./demo && ovnidump /tmp/x | grep 'OF' ; ovniemu -l /tmp/x
 */
#define _GNU_SOURCE
#include <ovni.h>
#include <stdlib.h>
#include <string.h>
#include <unistd.h>
#include <sys/syscall.h>

int main(void)
{
	ovni_proc_init(1, "node0", getpid());
	ovni_thread_init((pid_t) syscall(SYS_gettid));
	ovni_thread_require("nosv", "2.4.0");
	ovni_add_cpu(0, 0);

	struct ovni_ev ev = {0};
	int32_t cpu = 0, tid = -1; uint64_t tag = 0;
	ovni_ev_set_clock(&ev, ovni_clock_now());
	ovni_ev_set_mcv(&ev, "OHx");
	ovni_payload_add(&ev, (uint8_t *) &cpu, sizeof(cpu));
	ovni_payload_add(&ev, (uint8_t *) &tid, sizeof(tid));
	ovni_payload_add(&ev, (uint8_t *) &tag, sizeof(tag));
	ovni_ev_emit(&ev);

	/* jumbo: a task type with a huge label: total = 16 + n = MAX - 5 */
	uint32_t n = (uint32_t) (OVNI_MAX_EV_BUF - 5 - 16);
	uint8_t *buf = calloc(1, n);
	uint32_t typeid = 1;
	memcpy(buf, &typeid, 4);
	memset(buf + 4, 'a', 100);
	struct ovni_ev j = {0};
	ovni_ev_set_clock(&j, ovni_clock_now());
	ovni_ev_set_mcv(&j, "VYc");
	ovni_ev_jumbo_emit(&j, buf, n);

	struct ovni_ev e = {0};
	ovni_ev_set_clock(&e, ovni_clock_now());
	ovni_ev_set_mcv(&e, "OHe");
	ovni_ev_emit(&e);
	ovni_flush();
	ovni_thread_free();
	ovni_proc_fini();
	return 0;
}

#!/opt/veriftools/pyvenv/bin/python
"""Validate MANIFEST.json and every evidence file against the given schemas."""
import glob, json, sys, jsonschema
ok = True
try:
    jsonschema.validate(json.load(open('/verif/MANIFEST.json')), json.load(open('/root/.vp/MANIFEST.schema.json')))
    print("MANIFEST ok")
except Exception as e:
    ok = False; print("MANIFEST INVALID:", str(e)[:500])
es = json.load(open('/root/.vp/EVIDENCE.schema.json'))
for p in sorted(glob.glob('/verif/evidence/*.json')):
    try:
        jsonschema.validate(json.load(open(p)), es)
    except Exception as e:
        ok = False; print(p, "INVALID:", str(e)[:500])
print("evidence files:", len(glob.glob('/verif/evidence/*.json')))
sys.exit(0 if ok else 1)

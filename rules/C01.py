"""C01 — runtime stream fidelity.

R1.1 append discipline: who writes evlen / the buffer; copies tile the buffer in order
R1.2 bounds of every copy into the event buffer and into the payload
R1.3 flush writes exactly the buffered bytes, once; write_evbuf is a full-write loop
R1.4 the user's event is appended exactly once on every path; ovni_flush flushes on every path; nothing but
     flush markers is added besides
R1.5 only the library's own OF[ OF] (flush) and OM[ OM] OM= (mark API) events are added
R1.6 the stream starts with the 8-byte header, written first
"""
from ovsa import absint, effects
from ovsa.absint import INT, NULL, PTR, TOP

from rules.rtcommon import (EVBUF, EVLEN, F, MEMCPY, OV, RP, RT, RtExplorer, _s, buffer_capacity, mcv_of,
                            walk_buffer)

EVLEN_WRITERS = {"ovni_thread_init", "flush_evbuf", "write_stream_header", "ovni_ev_add", "ovni_ev_add_jumbo"}


def describe(appended):
    out = []
    for kind, mcv, clock, d in appended:
        if kind == "flush":
            out.append("flush")
        else:
            src = d["src"]
            if src == PTR("EV"):
                out.append("user-event")
            elif src == PTR("BUF"):
                out.append("jumbo-data")
            else:
                out.append(mcv or "?")
    return out


def run(ctx):
    prog = ctx.prog
    eff = effects.Effects(prog)
    cap = buffer_capacity(ctx)
    ctx.rule("R1.1", "rthread.evlen is written only by %s; on every path the copies into the event buffer start "
             "at the first free byte, follow each other without gap or overlap, and evlen ends equal to the "
             "number of bytes in the buffer (linear-form abstract interpretation)" % sorted(EVLEN_WRITERS))
    ctx.rule("R1.2", "for every copy into the event buffer offset+length <= %d (the malloc size), and "
             "ovni_payload_add stays inside the 16-byte payload; evlen stays below the capacity" % cap)
    ctx.rule("R1.3", "every flush passes (start of buffer, evlen) to write_evbuf and then resets evlen to 0; "
             "write_evbuf loops on write(streamfd) advancing buffer and remaining size by the returned count, "
             "leaves only when nothing remains, and dies on a negative return")
    ctx.rule("R1.4", "ovni_ev_add / ovni_ev_add_jumbo append the user's event exactly once on every path and add "
             "nothing else but flush markers; ovni_flush flushes on every path")
    ctx.rule("R1.5", "the only events libovni itself creates are OF[ OF] (ovni_flush, add_flush_events) and "
             "OM[ OM] OM= (the three mark functions); the MCV bytes are written only by ovni_ev_set_mcv")
    ctx.rule("R1.6", "write_stream_header stores the magic 'ovni' and version at offsets 0 and 4, 8 bytes in "
             "total, and ovni_thread_init writes it after creating the stream and before the thread is ready")

    # ---- R1.1 writers ---------------------------------------------------------
    ws = sorted({f.name for f, n in eff.writers_of_field("ovni_rthread", "evlen")})
    # private static helpers of the allowed functions count as part of them
    evlen_ok = prog.helper_closure(EVLEN_WRITERS, OV)
    ctx.check(set(ws) <= evlen_ok and len(ws) >= 1, "R1.1", "evlen:writers", OV,
              "rthread.evlen is written by %s, outside %s and their private helpers" %
              (sorted(set(ws) - evlen_ok), sorted(EVLEN_WRITERS)))
    # who writes bytes of the buffer: every function of ovni.c is explored on its own
    # (no inlining) with rthread.evbuf pointing to the abstract object EVBUF
    writers = set()
    for f in prog.fns_in(OV):
        hits = []

        def oc(ex_, st, f_, e, cal, args, hits=hits):
            from ovsa.effects import LIBC_DEST_WRITERS
            if cal in LIBC_DEST_WRITERS and LIBC_DEST_WRITERS[cal] < len(args):
                a = args[LIBC_DEST_WRITERS[cal]]
                if a[0] == "ptr" and a[1] == "EVBUF":
                    hits.append(cal)
        exw = absint.Explorer(prog, effects=eff, auto_inline=False, on_call=oc, merge=True,
                              loop_bound=2, max_paths=50000)
        exw.run(f, [TOP] * len(f.params), {EVBUF: PTR("EVBUF", (0,)), EVLEN: exw.sym("evlen", 0, cap - 1)})
        if hits or any(ev[0] == "store" and ev[1][0] == "EVBUF" for ev in exw.event_log):
            writers.add(f.name)
    evbuf_ok = prog.helper_closure({"ovni_ev_add", "ovni_ev_add_jumbo", "write_stream_header"}, OV)
    ctx.check(writers <= evbuf_ok, "R1.1", "evbuf:writers", OV,
              "functions writing bytes of the event buffer: %s (expected ovni_ev_add, ovni_ev_add_jumbo, "
              "write_stream_header and their private helpers)" % sorted(writers - evbuf_ok))

    rt = RtExplorer(ctx, cap)
    ex = rt.ex

    def explore(fname, args, extra=None):
        from ovsa.facts import AnalysisBroken
        st = rt.base_store()
        st.update(extra or {})
        fn = prog.fn(fname, OV)
        try:
            outs = ex.run(fn, args, st)
        except AnalysisBroken as e:
            if "path explosion" not in str(e):
                raise
            # these functions are loop-free: an exploration that does not end means the
            # flush -> marker -> flush recursion never makes progress
            ctx.fail("R1.1", "%s:exploration-terminates" % fname, fn.loc(),
                     "the flush / marker-event recursion does not terminate in the abstract exploration "
                     "(evlen is not reduced by a flush?)")
            ex.paths = 0
            return fn, [], st
        return fn, [o for o in outs if o.kind in ("ret", "exit")], st

    hdr = F("ovni_ev", "header")

    # ---- ovni_ev_add ---------------------------------------------------------------
    flags = ex.sym("flags", 0, 15)
    fn, outs, st0 = explore("ovni_ev_add", [PTR("EV")], {("EV", hdr + F("ovni_ev_header", "flags")): flags})
    if outs:
        ctx.need(len(outs) >= 2, "ovni_ev_add: %d returning paths explored" % len(outs))
    seen = {}
    for o in outs:
        probs, app = walk_buffer(rt, o, st0[EVLEN])
        desc = describe(app)
        key = "ovni_ev_add:" + ">".join(desc)
        seen[key] = seen.get(key, 0) + 1
        inst = "%s#%d" % (key, seen[key])
        ctx.check(not probs, "R1.1", inst, fn.loc(), "; ".join(probs))
        final = o.store.get(EVLEN, TOP)
        ctx.check(rt.le(o.cons, final, INT(cap - 1)) is True, "R1.2", inst + ":evlen<cap", fn.loc(),
                  "evlen can reach %s >= capacity %d on exit" % (_s(final), cap))
        # the user's event exactly once; anything else the call adds is a flush marker (where the markers
        # go relative to the user's event is a matter of clock order: C02 R2.2, not of fidelity)
        rest = [d for d in desc if d not in ("flush", "OF[", "OF]")]
        ctx.check(rest == ["user-event"], "R1.4", inst + ":order", fn.loc(),
                  "the call appends %s; expected the user's event exactly once plus flush markers only" % desc)
    if outs:
        ctx.check(any("flush" in k for k in seen) and any("flush" not in k for k in seen), "R1.4",
                  "ovni_ev_add:both-arms", fn.loc(), "flush / no-flush arms explored: %s" % sorted(seen))

    # ---- ovni_ev_add_jumbo ------------------------------------------------------------
    bufsize = ex.sym("bufsize", 0, 2 ** 32 - 1)
    flags2 = ex.sym("jflags", 0, 15)
    fn, outs, st0 = explore("ovni_ev_add_jumbo", [PTR("EV"), PTR("BUF"), bufsize],
                            {("EV", hdr + F("ovni_ev_header", "flags")): flags2})
    if outs:
        ctx.need(len(outs) >= 2, "ovni_ev_add_jumbo: %d returning paths explored" % len(outs))
    seen = {}
    for o in outs:
        probs, app = walk_buffer(rt, o, st0[EVLEN])
        desc = describe(app)
        # a re-entrant flush inside the marker emission is C02's finding, not C01's
        nested = desc.count("flush") > 1
        key = "ovni_ev_add_jumbo:" + ">".join(desc)
        seen[key] = seen.get(key, 0) + 1
        inst = "%s#%d" % (key, seen[key])
        ctx.check(not probs, "R1.1", inst, fn.loc(), "; ".join(probs))
        final = o.store.get(EVLEN, TOP)
        ctx.check(rt.le(o.cons, final, INT(cap - 1)) is True, "R1.2", inst + ":evlen<cap", fn.loc(),
                  "evlen can reach %s >= capacity %d on exit" % (_s(final), cap))
        core = [d for d in desc if d in ("user-event", "jumbo-data")]
        ctx.check(core == ["user-event", "jumbo-data"], "R1.4", inst + ":user-event-once", fn.loc(),
                  "jumbo path appends %s; expected the event header then its data, once" % desc)
        rest = [d for d in desc if d not in ("flush", "OF[", "OF]")]
        if not nested:
            ctx.check(rest == ["user-event", "jumbo-data"], "R1.4", inst + ":order", fn.loc(),
                      "the call appends %s; expected the jumbo event and its data once plus flush markers only" % desc)
        # the jumbo flag and the size field
        for kind, mcv, clock, d in app:
            if kind == "append" and d["src"] == PTR("EV"):
                fl = (d["ev"] or {}).get("flags")
                ctx.check(fl is not None and fl[0] == "int" and fl[1] & prog.enum_val("OVNI_EV_JUMBO") and
                          (fl[1] & 0x0f) == 3, "R1.1", inst + ":jumbo-flag", fn.loc(),
                          "the jumbo event is copied with flags %s (expected jumbo bit and a 4-byte size field)" % (fl,))

    # ---- ovni_flush ---------------------------------------------------------------------
    fn, outs, st0 = explore("ovni_flush", [])
    pass
    for k, o in enumerate(outs):
        probs, app = walk_buffer(rt, o, st0[EVLEN])
        desc = describe(app)
        inst = "ovni_flush:" + ">".join(desc)
        ctx.check(not probs, "R1.1", inst, fn.loc(), "; ".join(probs))
        ctx.check("flush" in desc and all(d in ("flush", "OF[", "OF]") for d in desc), "R1.4", inst + ":order", fn.loc(),
                  "ovni_flush performs %s; expected a flush on every path and nothing but flush markers added" % desc)

    # ---- R1.2 ovni_payload_add --------------------------------------------------------------
    pa = prog.fn("ovni_payload_add", OV)
    pflags = ex.sym("pflags", 0, 255)
    psize = ex.sym("psize", -2 ** 31, 2 ** 31 - 1)
    outs = ex.run(pa, [PTR("EV"), PTR("SRC"), psize], {("EV", hdr + F("ovni_ev_header", "flags")): pflags})
    ncopies = 0
    for o in outs:
        if o.kind not in ("ret", "exit"):
            continue
        for ev in o.events:
            if ev[0] == "note" and ev[1] == "memcpy":
                d = ev[2]
                dest = d["dest"]
                ok = False
                if dest[0] == "ptr" and dest[1] == "EV" and len(dest[2]) >= 2 and \
                        dest[2][:2] == F("ovni_ev", "payload") + F("ovni_ev_payload", "u8"):
                    idx = dest[2][2] if len(dest[2]) > 2 else 0
                    idx = INT(idx) if isinstance(idx, int) else idx
                    end = rt.add(idx, d["n"])
                    ok = rt.le(d["cons"], INT(0), idx) is True and rt.le(d["cons"], end, INT(16)) is True and \
                        rt.le(d["cons"], INT(0), d["n"]) is True
                    ncopies += 1
                    ctx.check(ok, "R1.2", "ovni_payload_add:copy#%d" % ncopies, pa.loc(),
                              "cannot show the copy stays in the 16-byte payload: offset %s length %s" %
                              (_s(idx), _s(d["n"])))
    ctx.check(ncopies >= 1, "R1.2", "ovni_payload_add:explored", pa.loc(), "no copy into the payload explored")
    rec = prog.records.get("ovni_ev_payload")
    ctx.check(rec is not None and rec["size"] == 16, "R1.2", "payload-union:16-bytes", "include/ovni.h.in",
              "union ovni_ev_payload is %s bytes" % (rec and rec["size"]))

    # ---- R1.7 the payload-size encoding, exhaustively over the 4-bit field ---------------------------
    ctx.rule("R1.7", "the size nibble of the event flags round-trips: for every payload size p in {0, 2..16} reached by "
             "ovni_payload_add and every further chunk of s >= 2 bytes that fits, ovni_payload_add copies the chunk "
             "at offset p and leaves flags such that ovni_payload_size gives p + s and ovni_ev_size 12 + p + s "
             "(exhaustive over the 16 values of the field; the event is stored with exactly that many bytes)")
    ps_fn = prog.fn("ovni_payload_size", OV)
    es_fn = prog.fn("ovni_ev_size", OV)
    exn = absint.Explorer(prog, effects=eff, inline=lambda n, d: d.file == OV, max_depth=4)
    FL = ("EV", hdr + F("ovni_ev_header", "flags"))
    for hi in (0x00, 0x20):           # upper flag bits other than the jumbo bit are preserved and ignored
        for p_ in [0] + list(range(2, 17)):
            nib = 0 if p_ == 0 else p_ - 1
            outs = [o for o in exn.run(ps_fn, [PTR("EV")], {FL: INT(hi | nib)}) if o.kind == "ret"]
            ctx.check(len(outs) == 1 and outs[0].ret == INT(p_), "R1.7", "ovni_payload_size:flags=0x%02x" % (hi | nib), ps_fn.loc(),
                      "flags 0x%02x encode a payload of %d bytes; ovni_payload_size returns %s" %
                      (hi | nib, p_, [str(o.ret) for o in outs]))
            outs = [o for o in exn.run(es_fn, [PTR("EV")], {FL: INT(hi | nib)}) if o.kind == "ret"]
            ctx.check(len(outs) == 1 and outs[0].ret == INT(12 + p_), "R1.7", "ovni_ev_size:flags=0x%02x" % (hi | nib), es_fn.loc(),
                      "an event with a %d-byte payload must occupy %d bytes; ovni_ev_size returns %s" %
                      (p_, 12 + p_, [str(o.ret) for o in outs]))
            if hi:
                continue
            for s_ in range(2, 17 - p_):
                copies = []

                def oc7(ex_, st, f_, e, cal, args, copies=copies):
                    if cal in MEMCPY and len(args) >= 3:
                        copies.append((args[0], args[2]))
                ex7 = absint.Explorer(prog, effects=eff, inline=lambda n, d: d.file == OV, max_depth=4, on_call=oc7)
                outs = [o for o in ex7.run(pa, [PTR("EV"), PTR("SRC"), INT(s_)], {FL: INT(nib)}) if o.kind in ("ret", "exit")]
                want_dest = PTR("EV", F("ovni_ev", "payload") + F("ovni_ev_payload", "u8") + (p_,))
                good = len(outs) == 1 and outs[0].store.get(FL) == INT(p_ + s_ - 1) and \
                    len(copies) == 1 and copies[0][1] == INT(s_) and copies[0][0] == want_dest
                ctx.check(good, "R1.7", "ovni_payload_add:%d+%d" % (p_, s_), pa.loc(),
                          "adding %d bytes to a %d-byte payload: flags become %s (expected 0x%02x), copy %s (expected %d "
                          "bytes at payload offset %d)" % (s_, p_, [str(o.store.get(FL)) for o in outs], p_ + s_ - 1,
                                                           [(str(c[0]), str(c[1])) for c in copies], s_, p_))

    ctx.rule("R1.8", "every thread's stream bytes pass only through storage private to that thread (thread-local or "
             "automatic): no function reachable from the tracing API writes a shared static object other than the "
             "process state (same analysis as C11 R11.1)")
    from rules.rtcommon import private_storage_rule
    private_storage_rule(ctx, "R1.8", "stream bytes")
    ctx.rule("R1.9", "the stream file starts at offset 0 with this run's header and is never restarted: the stream is "
             "opened for writing, created, without O_APPEND (the flags reaching open() from ovni_thread_init are "
             "evaluated); a second ovni_thread_init on an initialised thread, documented as ignored, leaves buffer "
             "fill, buffer, descriptor and flags untouched and opens / allocates nothing")
    from rules import round3
    round3.check_stream_open_flags(ctx, "R1.9")
    round3.check_reinit_ignored(ctx, "R1.9")

    # ---- R1.3 write_evbuf ----------------------------------------------------------------------
    wf = prog.fn("write_evbuf", OV)
    _check_write_loop(ctx, prog, eff, cap, wf)

    # ---- R1.5 ----------------------------------------------------------------------------------
    # which events does each entry point of the library create?  Every non-static function of ovni.c is
    # interpreted with its private static helpers inlined; the MCV handed to ovni_ev_set_mcv must be a literal
    MARKERS = {"OF[", "OF]"}
    own = {"ovni_mark_push": {"OM["}, "ovni_mark_pop": {"OM]"}, "ovni_mark_set": {"OM="}}
    must = dict(own)
    must.update({"ovni_flush": MARKERS, "ovni_ev_emit": MARKERS, "ovni_ev_jumbo_emit": MARKERS})
    nsites = 0
    created = {}
    for f in prog.fns_in(OV):
        if f.static or f.name == "ovni_ev_set_mcv":
            continue
        got = []

        def oc(ex_, st, f_, e, cal, args, got=got):
            if cal == "ovni_ev_set_mcv" and len(args) >= 2:
                got.append((args[1], f_.loc(e)))
        exm = absint.Explorer(prog, effects=eff, on_call=oc, merge=True, loop_bound=2, max_paths=50000, max_depth=3)
        try:
            exm.run(f, [TOP] * len(f.params), {})
        except Exception as e_:
            ctx.need(False, "R1.5: cannot interpret %s: %s" % (f.name, e_))
        for v, where in got:
            nsites += 1
            inst = "%s:creates:%s" % (f.name, v[1] if v[0] == "str" else "?")
            if v[0] != "str":
                ctx.fail("R1.5", inst + "#%d" % nsites, where, "%s builds an event whose MCV is not a literal (%s)" % (f.name, v))
                continue
            created.setdefault(f.name, set()).add(v[1])
            ctx.check(v[1] in MARKERS | own.get(f.name, set()), "R1.5", inst, where,
                      "libovni itself emits event %s from %s (only the flush markers OF[ OF], and OM[ OM] OM= from the "
                      "three mark functions, may be created by the library)" % (v[1], f.name))
    for fn_, want in must.items():
        ctx.check(want <= created.get(fn_, set()), "R1.5", "%s:creates" % fn_, OV,
                  "%s creates %s, expected at least %s" % (fn_, sorted(created.get(fn_, set())), sorted(want)))
    ctx.check(nsites >= 7, "R1.5", "set_mcv:sites", OV, "only %d ovni_ev_set_mcv calls interpreted" % nsites)
    mcv_ok = prog.helper_closure({"ovni_ev_set_mcv"}, OV)
    for fld in ("model", "category", "value"):
        w = {f.name for f, n in eff.writers_of_field("ovni_ev_header", fld) if f.file == OV}
        ctx.check(w and w <= mcv_ok, "R1.5", "header.%s:writers" % fld, OV,
                  "ovni_ev_header.%s is written in libovni by %s" % (fld, sorted(w)))
    # internal emitters: who calls ovni_ev_add / ovni_ev_add_jumbo inside the library
    add_ok = prog.helper_closure({"ovni_flush", "add_flush_events", "ovni_ev_emit", "ovni_mark_push",
                                  "ovni_mark_pop", "ovni_mark_set", "ovni_ev_add", "ovni_ev_add_jumbo"}, OV)
    callers = {f.name for f in prog.fns_in(OV) for i in f.all_calls_syntactic("ovni_ev_add")}
    ctx.check(callers <= add_ok, "R1.5", "ovni_ev_add:callers", OV,
              "ovni_ev_add is called by %s" % sorted(callers - add_ok))
    jumbo_ok = prog.helper_closure({"ovni_ev_jumbo_emit"}, OV)
    callers = {f.name for f in prog.fns_in(OV) for i in f.all_calls_syntactic("ovni_ev_add_jumbo")}
    ctx.check(callers <= jumbo_ok, "R1.5", "ovni_ev_add_jumbo:callers", OV,
              "ovni_ev_add_jumbo is called by %s" % sorted(callers - jumbo_ok))

    # ---- R1.6 -----------------------------------------------------------------------------------
    rec = prog.records.get("ovni_stream_header")
    ctx.check(rec is not None and rec["size"] == 8, "R1.6", "stream-header:8-bytes", "include/ovni.h.in",
              "struct ovni_stream_header is %s bytes" % (rec and rec["size"]))
    rt4 = RtExplorer(ctx, cap, loop_bound=8)
    st = rt4.base_store(evlen=INT(0))
    wh = prog.fn("write_stream_header", OV)
    outs = [o for o in rt4.ex.run(wh, [], st) if o.kind in ("ret", "exit")]
    ctx.need(outs, "write_stream_header: no returning path")
    for o in outs:
        magic = [ev[2] for ev in o.events if ev[0] == "note" and ev[1] == "memcpy"]
        good_magic = any(d["dest"][0] == "ptr" and d["dest"][1] == "EVBUF" and d["src"] == ("str", "ovni") and
                         d["n"] == INT(4) and _hdr_off(prog, d["dest"]) == 0 for d in magic)
        if not good_magic:
            # or stored byte by byte: the last store to each of the offsets 0..3
            byte_at = {}
            for ev in o.events:
                if ev[0] == "store" and ev[1][0] == "EVBUF":
                    off_ = _hdr_off(prog, ("ptr", "EVBUF", ev[1][1]))
                    if off_ is not None:
                        byte_at[off_] = ev[2]
            good_magic = all(byte_at.get(k_) == INT(ord("ovni"[k_])) for k_ in range(4))
        ver = [ev for ev in o.events if ev[0] == "store" and ev[1][0] == "EVBUF" and
               ev[1][1] and ev[1][1][-1] == ("ovni_stream_header", "version")]
        good_ver = bool(ver) and ver[-1][2][0] == "int" and ver[-1][2][1] >= 1
        flushes = [ev[2] for ev in o.events if ev[0] == "note" and ev[1] == "flush"]
        good_flush = len(flushes) == 1 and flushes[0]["size"] == INT(8) and flushes[0]["buf"] == PTR("EVBUF", (0,))
        ctx.check(good_magic, "R1.6", "write_stream_header:magic", wh.loc(), "the magic 'ovni' is not stored at offset 0")
        ctx.check(good_ver, "R1.6", "write_stream_header:version", wh.loc(), "the stream version is not stored")
        ctx.check(good_flush and o.store.get(EVLEN) == INT(0), "R1.6", "write_stream_header:8-bytes-flushed", wh.loc(),
                  "the header is not flushed as exactly 8 bytes (flushes: %s)" %
                  [(_s(f_["size"])) for f_ in flushes])
    ti = prog.fn("ovni_thread_init", OV)
    exi = absint.Explorer(prog, effects=eff, auto_inline=False)
    outs = exi.run(ti, [INT(33)], {(RT, F("ovni_rthread", "ready")): INT(0), (RT, F("ovni_rthread", "finished")): INT(0),
                                   (RP, F("ovni_rproc", "st")): INT(prog.enum_val("ST_READY"))})
    okp = 0
    for o in outs:
        if o.kind not in ("ret", "exit") or o.store.get((RT, F("ovni_rthread", "ready"))) != INT(1):
            continue
        seq = [ev[1] for ev in o.events if ev[0] == "call"]
        ready_i = max(i for i, ev in enumerate(o.events) if ev[0] == "store" and ev[1] == (RT, F("ovni_rthread", "ready")))
        calls_i = {ev[1]: i for i, ev in enumerate(o.events) if ev[0] == "call"}
        good = "create_trace_stream" in calls_i and "write_stream_header" in calls_i and \
            calls_i["create_trace_stream"] < calls_i["write_stream_header"] < ready_i and \
            seq.index("write_stream_header") < min([seq.index(x) for x in seq if x in ("ovni_ev_add", "flush_evbuf", "ovni_thread_require")] or [10 ** 6])
        okp += 1
        ctx.check(good, "R1.6", "ovni_thread_init:header-first", ti.loc(),
                  "call order in ovni_thread_init is %s" % seq)
    ctx.check(okp >= 1, "R1.6", "ovni_thread_init:explored", ti.loc(), "no successful initialisation path explored")


def _hdr_off(prog, dest):
    """Byte offset inside EVBUF of a pointer through the typed header alias."""
    off = 0
    for comp in dest[2]:
        if isinstance(comp, int):
            off += comp
        elif isinstance(comp, tuple) and len(comp) == 2 and isinstance(comp[0], str):
            rec = prog.records.get(comp[0])
            if rec is None:
                return None
            for fld in rec["fields"]:
                if fld["name"] == comp[1]:
                    off += fld["offbits"] // 8
        else:
            return None
    return off


def _check_write_loop(ctx, prog, eff, cap, wf, rule="R1.3"):
    """write_evbuf: argument discipline of successive write() calls, exit only when all is written."""
    # exact argument discipline on a single straight path (two iterations)
    notes = []
    cnt = {"n": 0}

    def s_write2(ex_, st, args, f, e):
        cnt["n"] += 1
        k = cnt["n"]
        w = ex_.sym("x%d" % k, 0, cap)
        la = absint.to_lin(args[2])
        cons = ()
        if la is not None:
            t = {a: -b for a, b in la[1].items()}
            t["x%d" % k] = 1
            cons = ((tuple(sorted(t.items())), la[0]),)
        st.events = st.events + (("note", "write", dict(k=k, fd=args[0], buf=args[1], n=args[2], cons=st.cons)),)
        return [(INT(-1), {}), (w, {}, cons)]
    # entered through flush_evbuf(), which takes everything from the thread state: independent of the
    # signature of the static write helper
    fe = prog.fn("flush_evbuf", OV)
    ex = absint.Explorer(prog, effects=eff, summaries={"write": s_write2}, loop_bound=3)
    size0 = ex.sym("size0", 1, cap)
    outs = ex.run(fe, [], {(RT, F("ovni_rthread", "streamfd")): INT(7), EVBUF: PTR("EVBUF", (0,)), EVLEN: size0})
    rt = RtExplorer(ctx, cap)
    rt.ex = ex
    n_checked = 0
    die_on_error = True
    for o in outs:
        ws = [ev[2] for ev in o.events if ev[0] == "note" and ev[1] == "write"]
        rets = [ev for ev in o.events if ev[0] == "call" and ev[1] == "write"]
        total = INT(0)
        probs = []
        for w in ws:
            if w["fd"] != INT(7):
                probs.append("write() on %s instead of rthread.streamfd" % (w["fd"],))
            off = rt.evbuf_offset(w["buf"])
            if off is None or rt.eq(w["cons"], off, total) is not True:
                probs.append("write #%d starts at offset %s but %s bytes are already written" %
                             (w["k"], _s(off) if off else w["buf"], _s(total)))
            lt = absint.to_lin(total)
            remaining = rt.add(size0, absint.mk_lin(-lt[0], {a: -b for a, b in lt[1].items()}))
            if rt.eq(w["cons"], w["n"], remaining) is not True:
                probs.append("write #%d asks for %s bytes but %s remain" % (w["k"], _s(w["n"]), _s(remaining)))
            total = rt.add(total, ("lin", 0, (("x%d" % w["k"], 1),)))
        if ws:
            n_checked += 1
            ctx.check(not probs, rule, "write_evbuf:args:path%d" % n_checked, wf.loc(), "; ".join(probs))
        if o.kind in ("ret", "exit") and not any(d[0] == "loop-exit" for d in o.decisions) and ws:
            ctx.check(o.store.get(EVLEN) == INT(0), rule, "flush_evbuf:resets-evlen:path%d" % n_checked, fe.loc(),
                      "after the flush evlen is %s, not 0" % _s(o.store.get(EVLEN, TOP)))
            # real exit: everything written
            lt = absint.to_lin(total)
            ctx.check(rt.eq(o.cons, total, size0) is True, rule, "write_evbuf:exit-when-all-written:path%d" % n_checked,
                      wf.loc(), "the loop can end with %s of %s bytes written" % (_s(total), _s(size0)))
    # a negative return must die: explore with write() always failing
    ex = absint.Explorer(prog, effects=eff, summaries={"write": lambda ex_, st, args, f, e: [(INT(-1), {})]},
                         loop_bound=3)
    size0 = ex.sym("size0", 1, cap)
    outs = ex.run(fe, [], {(RT, F("ovni_rthread", "streamfd")): INT(7), EVBUF: PTR("EVBUF", (0,)), EVLEN: size0})
    ctx.check(outs and all(o.kind == "die" for o in outs), rule, "write_evbuf:error-dies", wf.loc(),
              "a failing write() does not abort: flushed events would be lost silently")
    ctx.check(n_checked >= 2, rule, "write_evbuf:explored", wf.loc(), "too few paths explored")


_run_base = run


def run(ctx):
    _run_base(ctx)
    prog = ctx.prog
    ctx.rule("R1.10", "a payload of exactly one byte cannot be encoded (size field 0 = none, k = k + 1 bytes): "
             "ovni_payload_add on an empty payload refuses chunks of 1, 0 and -1 bytes instead of accepting the byte and "
             "dropping it")
    from rules import round5
    round5.check_payload_add_tiny(ctx, "R1.10")
    ctx.rule("R1.11", "the bytes on disk are the documented ones: the record layouts of the stream header, the event "
             "header (12 bytes: flags, model, category, value, 8-byte clock), the event and the jumbo payload, and the "
             "value of the jumbo flag (0x10), as clang lays them out, equal doc/user/runtime/trace_spec.md")
    from rules import round6
    round6.check_wire_layout(ctx, "R1.11")
    ctx.rule("R1.12", "the stream file holds nothing but this run's bytes: the stream is opened with O_TRUNC (R1.9's "
             "evaluation of the flags) and, when streams are relocated, every successful path of move_thread_to_final "
             "opens the destination truncating it (fopen \"w\", open with O_TRUNC) or replaces it by rename; a "
             "destination opened without truncation keeps the tail of a longer stream left by an earlier run")
    from rules import round8
    round8.check_final_copy_truncates(ctx, "R1.12")

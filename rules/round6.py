"""Rules added after the sixth round of seeded changes (headers, enums and constants, files no earlier change had
touched)."""
import itertools
import re

from ovsa import absint, effects, errflow
from ovsa.absint import INT, NULL, PTR, TOP
from ovsa.facts import AnalysisBroken
from rules.round3 import DBG, F, RP, RT, OV, VI, VNULL, share, chan_explorer, chan_defaults, chan_flush


def check_wire_layout(ctx, rule):
    """The layout on disk is the documented one (doc/user/runtime/trace_spec.md): a stream header of 4 magic bytes
    and a 4-byte version; an event header of 12 bytes - 1 flags byte (high nibble flags, low nibble payload size),
    3 bytes model / category / value, an 8-byte clock - followed by the payload; a jumbo payload starts with a
    4-byte size; the jumbo flag is 0x10.  The record layouts clang computes for the headers must be exactly that
    (a lost `packed`, a reordered or widened field, a renumbered flag change every byte of every stream while all
    tools built from the same header still agree with each other)."""
    prog = ctx.prog
    want = {"ovni_ev_header": (12, [("flags", 0, 1), ("model", 1, 1), ("category", 2, 1), ("value", 3, 1), ("clock", 4, 8)]),
            "ovni_stream_header": (8, [("magic", 0, 4), ("version", 4, 4)]),
            "ovni_ev": (28, [("header", 0, 12), ("payload", 12, 16)])}
    for rec, (size, fields) in want.items():
        r = prog.records.get(rec)
        ctx.need(r is not None, "struct %s not found" % rec)
        got = [(f["name"], f["offbits"] // 8, f["size"]) for f in r["fields"]]
        ctx.check(r["size"] == size and got == fields, rule, "layout:%s" % rec, "%s:%s" % (r["file"], r["line"]),
                  "struct %s is %d bytes with fields (name, offset, size) %s; the trace format documents %d bytes and %s" %
                  (rec, r["size"], got, size, fields))
    jp = prog.records.get("ovni_jumbo_payload")
    ctx.need(jp is not None, "struct ovni_jumbo_payload not found")
    got = [(f["name"], f["offbits"] // 8, f["size"]) for f in jp["fields"]][:2]
    ctx.check(got[:1] == [("size", 0, 4)] and (len(got) < 2 or got[1][1] == 4), rule, "layout:ovni_jumbo_payload",
              "%s:%s" % (jp["file"], jp["line"]), "a jumbo payload starts with %s; documented: a 4-byte size followed by the data" % got)
    ctx.check(prog.enum_val("OVNI_EV_JUMBO") == 0x10, rule, "flag:OVNI_EV_JUMBO", "include/ovni.h.in",
              "the jumbo flag is %#x on disk; the trace format documents 0x10 (a jumbo header byte of 0x13)" % prog.enum_val("OVNI_EV_JUMBO"))


def check_dump_player_mode(ctx, rule):
    """ovnidump shows the events of any trace, also of one that still has to be sorted or whose streams start far
    apart: it starts the player in unsorted mode (third argument of player_init non-zero), the emulator in strict
    mode (zero)."""
    prog = ctx.prog
    for file, want in (("src/emu/ovnidump.c", True), ("src/emu/emu.c", False)):
        sites = []
        for f in prog.fns_in(file):
            for i in f.calls("player_init"):
                a = f.nodes[i]["args"]
                sites.append((f, i, f.val(a[2]) if len(a) > 2 else None))
        ctx.need(sites, "%s does not call player_init" % file)
        for f, i, v in sites:
            ctx.need(v is not None, "player_init's mode is not a constant at %s" % f.loc(i))
            ctx.check(bool(v) == want, rule, "player_init:%s" % file.split("/")[-1], f.loc(i),
                      "%s starts the player with unsorted = %s; %s" % (file, v, "ovnidump must replay every event of a trace whose "
                                                                      "streams are not yet sorted or start hours apart" if want else
                                                                      "the emulator must refuse unsorted streams"))


def check_cpu_prv_types_vs_cfg(ctx, rule):
    """The CPU rows report PID, TID and number of running threads under the PRV types the shipped CPU views select:
    for every channel of cpu.c with a PRV type and a label, a view in cfg/cpu/ with that label must filter that type."""
    import glob
    import os
    prog = ctx.prog
    from ovsa import prog as _p
    CPUC = "src/emu/cpu.c"
    tys = _p.init_elems(prog.glob("chan_type", CPUC).get("init"))
    names = _p.init_elems(prog.glob("pvt_name", CPUC).get("init"))
    views = {}
    for path in sorted(glob.glob(os.path.join(ctx.root, "cfg", "cpu", "*", "*.cfg"))):
        txt = open(path, errors="replace").read()
        ty = re.findall(r"^window_filter_module evt_type 1 (\d+)\s*$", txt, re.M)
        lab = re.findall(r'^window_filter_module evt_type_label 1 "([^"]*)"', txt, re.M)
        if len(ty) == 1 and len(lab) == 1:
            views[lab[0]] = (int(ty[0]), os.path.relpath(path, ctx.root))
    n_ = 0
    for ch, tv in sorted(tys.items()):
        t = tv.get("v") if isinstance(tv, dict) else None
        lab = names.get(ch, {}).get("s") if isinstance(names.get(ch), dict) else None
        if t is None or t < 0 or lab is None or lab not in views:
            continue
        n_ += 1
        ctx.check(views[lab][0] == t, rule, "cpu-prv-type:%s" % lab, "%s:%s" % (CPUC, prog.glob("chan_type", CPUC)["line"]),
                  "the CPU channel labelled '%s' is written under PRV type %d, but the shipped view %s selects type %d for "
                  "that label: the row shows another quantity" % (lab, t, views[lab][1], views[lab][0]))
    ctx.need(n_ >= 3, "only %d CPU channels could be related to a shipped view" % n_)


def check_thread_prv_uses_track_output(ctx, rule):
    """What the thread timeline records is the output of the channel's tracking multiplexer, for every tracking mode:
    connect_thread_prv of model_pvt.c is evaluated on a model with one ANY, one RUN and one ACT channel."""
    prog = ctx.prog
    eff = effects.Effects(prog)
    MP = "src/emu/model_pvt.c"
    entry = prog.fn("model_pvt_connect_thread", MP)
    regs = []

    def s_reg(ex_, st, a, f, e):
        regs.append((a[1], a[2], a[4]))
        return [(INT(0), {})]
    modes = [prog.enum_val("TRACK_TH_ANY"), prog.enum_val("TRACK_TH_RUN"), prog.enum_val("TRACK_TH_ACT")]
    ex = absint.Explorer(prog, effects=eff, loop_bound=6,
                         summaries={"prv_register": s_reg, "recorder_find_pvt": lambda ex_, st, a, f, e: [(PTR("PVT"), {})],
                                    "pvt_get_prv": lambda ex_, st, a, f, e: [(PTR("PRV"), {})],
                                    "pvt_get_pcf": lambda ex_, st, a, f, e: [(PTR("PCF"), {})],
                                    "extend_get": lambda ex_, st, a, f, e: [(PTR("MTH"), {})],
                                    "track_get_output": lambda ex_, st, a, f, e: [(PTR("OUT", a[0][2]) if a[0][0] == "ptr" else TOP, {})]},
                         opaque={"create_type", "create_values", "connect_thread_pcf", "create_thread_pcf"})
    store = {DBG: INT(0), ("EMU", F("emu", "system") + F("system", "threads")): PTR("T0"), ("T0", F("thread", "gnext")): NULL,
             ("T0", F("thread", "gindex")): INT(0),
             ("SPEC", F("model_thread_spec", "model")): PTR("MODEL"), ("MODEL", F("model_spec", "model")): INT(ord("V")),
             ("SPEC", F("model_thread_spec", "chan")): PTR("CS"),
             ("MTH", F("model_thread", "spec")): PTR("SPEC"), ("MTH", F("model_thread", "track")): PTR("TRK", (0,)),
             ("MTH", F("model_thread", "ch")): PTR("CH", (0,)),
             ("CS", F("model_chan_spec", "nch")): INT(3), ("CS", F("model_chan_spec", "pvt")): PTR("PV"),
             ("CS", F("model_chan_spec", "track")): PTR("TM", (0,)), ("PV", F("model_pvt_spec", "type")): PTR("TY", (0,)),
             ("PV", F("model_pvt_spec", "flags")): NULL, ("PV", F("model_pvt_spec", "label")): NULL,
             ("PV", F("model_pvt_spec", "prefix")): PTR("PFX", (0,))}
    for i, m in enumerate(modes):
        store[("TM", (i,))] = INT(m)
        store[("TY", (i,))] = INT(60 + i)
    try:
        ex.run(entry, [PTR("EMU"), PTR("SPEC")], store)
    except AnalysisBroken as e:
        ctx.broken("model_pvt_connect_thread cannot be evaluated: %s" % e)
    by = {r[1]: r[2] for r in regs if r[1][0] == "int"}
    ctx.need(len(by) == 3, "model_pvt_connect_thread registers %d of 3 channels" % len(by))
    for i, m in enumerate(modes):
        got = by.get(INT(60 + i))
        good = got is not None and got[0] == "ptr" and got[1] == "OUT" and got[2][:1] == (i,)
        if m == modes[0] and got == PTR("CH", (i,)):
            good = True     # an untracked channel is its own output
        ctx.check(good, rule, "thread-prv:channel-%d:mode-%d:records-the-track-output" % (i, m), entry.loc(),
                  "the thread timeline of the channel with tracking mode %d records %s; it must record the output of that "
                  "channel's tracking multiplexer, otherwise the value stays visible in states where the mode hides it" % (m, got))


def check_track_init_mode(ctx, rule):
    """track_init stores the tracking mode it is given (not the track type) so that the right selector is used."""
    prog = ctx.prog
    eff = effects.Effects(prog)
    ti = prog.fn("track_init", "src/emu/track.c")
    for ttype, mode in itertools.product((prog.enum_val("TRACK_TYPE_TH"), prog.enum_val("TRACK_TYPE_TH") + 1),
                                         (prog.enum_val("TRACK_TH_ANY"), prog.enum_val("TRACK_TH_RUN"), prog.enum_val("TRACK_TH_ACT"))):
        ex = absint.Explorer(prog, effects=eff, loop_bound=3,
                             summaries={"vsnprintf": lambda ex_, st, a, f, e: [(INT(5), {})],
                                        "__builtin___vsnprintf_chk": lambda ex_, st, a, f, e: [(INT(5), {})],
                                        "snprintf": lambda ex_, st, a, f, e: [(INT(5), {})],
                                        "__builtin___snprintf_chk": lambda ex_, st, a, f, e: [(INT(5), {})],
                                        "chan_init": lambda ex_, st, a, f, e: [(TOP, {})],
                                        "bay_register": lambda ex_, st, a, f, e: [(INT(0), {})]})
        outs = [o for o in ex.run(ti, [PTR("TR"), PTR("BAY"), INT(ttype), INT(mode), ("str", "%s")], {DBG: INT(0)})
                if o.kind == "ret" and o.ret == INT(0)]
        got = {(o.store.get(("TR", F("track", "type"))), o.store.get(("TR", F("track", "mode")))) for o in outs}
        ctx.check(bool(outs) and got == {(INT(ttype), INT(mode))}, rule, "track_init:type=%d:mode=%d" % (ttype, mode), ti.loc(),
                  "track_init(type %d, mode %d) leaves (type, mode) = %s" % (ttype, mode, sorted(map(str, got))))


def check_create_values(ctx, rule):
    """Every label of a model's value table reaches the .pcf: create_values of model_pvt.c is evaluated on a table
    of 40 labelled entries followed by the terminator; pcf_add_value must be called once per entry with that entry's
    value and label."""
    prog = ctx.prog
    eff = effects.Effects(prog)
    cv = prog.fn("create_values", "src/emu/model_pvt.c")
    N = 40
    added = []

    def s_add(ex_, st, a, f, e):
        added.append((a[1], a[2]))
        return [(PTR("PV"), {})]
    ex = absint.Explorer(prog, effects=eff, loop_bound=N + 4, summaries={"pcf_add_value": s_add})
    store = {DBG: INT(0), ("PVT", F("model_pvt_spec", "label")): PTR("LT", (0,)), ("LT", (2,)): PTR("TAB", (0,))}
    for k in range(N):
        store[("TAB", (k,) + F("pcf_value_label", "value"))] = INT(100 + k)
        store[("TAB", (k,) + F("pcf_value_label", "label"))] = ("str", "L%d" % k)
    store[("TAB", (N,) + F("pcf_value_label", "value"))] = INT(-1)
    store[("TAB", (N,) + F("pcf_value_label", "label"))] = NULL
    # parameters are bound by type: the spec, the .pcf type, the channel index, or the label table itself
    args = []
    for p_ in cv.params:
        ct = p_["ctype"]
        if "pcf_value_label" in ct:
            args.append(PTR("TAB", (0,)))
        elif "model_pvt_spec" in ct:
            args.append(PTR("PVT"))
        elif "pcf_type" in ct:
            args.append(PTR("TYPE"))
        elif ct.rstrip().endswith("*"):
            args.append(PTR("ARG:" + p_["name"]))
        else:
            args.append(INT(2))
    outs = [o for o in ex.run(cv, args, store) if o.kind == "ret"]
    vals = [a[0] for a in added]
    ctx.check(bool(outs) and all(o.ret == INT(0) for o in outs) and vals == [INT(100 + k) for k in range(N)], rule,
              "create_values:40-labels", cv.loc(),
              "of a table with 40 labelled values %d reach pcf_add_value (%s ...): values written to the trace would have no "
              "label in the .pcf" % (len(vals), [str(v) for v in vals[:3]]))


def check_label_tables_terminated(ctx, rule):
    """create_values stops at the first entry whose label is NULL: in every model's value table every labelled
    entry must therefore come before the first NULL one (a table indexed by its values leaves a hole at 0)."""
    prog = ctx.prog
    from ovsa import prog as _p
    n_ = 0
    for (fl, nm), g in sorted(prog.globals.items()):
        if not g.get("def") or "struct pcf_value_label" not in g.get("type", "") or not fl.startswith("src/emu/"):
            continue
        init = g.get("init") or {}
        if init.get("k") != "arr":
            continue
        el = _p.init_elems(init)
        n = init.get("n", (max(el) + 1) if el else 0)
        labels = []
        for k in range(n):
            e = el.get(k)
            lab = None
            if isinstance(e, dict) and e.get("k") == "rec":
                lf = e.get("fields", {}).get("label")
                lab = lf.get("s") if isinstance(lf, dict) and lf.get("k") == "str" else None
            labels.append(lab)
        first_null = next((k for k, l in enumerate(labels) if l is None), len(labels))
        hidden = [l for l in labels[first_null:] if l is not None]
        n_ += 1
        ctx.check(not hidden, rule, "label-table:%s:%s" % (fl.split("/")[2] if fl.count("/") > 2 else fl, nm), "%s:%s" % (fl, g["line"]),
                  "%d label(s) of %s come after the first entry without label (index %d), where create_values stops: %s ... "
                  "get no label in the .pcf" % (len(hidden), nm, first_null, hidden[:2]))
    ctx.need(n_ >= 8, "only %d value label tables found" % n_)


def check_mark_create_scans_all(ctx, rule):
    """Whether a trace uses marks is decided after every thread's metadata was scanned: mark_create on two threads of
    which only the second defines mark types must scan both and then create the channels."""
    prog = ctx.prog
    eff = effects.Effects(prog)
    mc = prog.fn("mark_create", "src/emu/ovni/mark.c")
    for defs in ((0, 2), (2, 0), (0, 0, 1), (0, 0)):
        scanned, created = [], []

        def s_scan(ex_, st, a, f, e, defs=defs):
            th = a[1][1] if a[1][0] == "ptr" else "?"
            scanned.append(th)
            k = int(th[1:]) if th.startswith("T") else 0
            m = a[0]
            cur = st.store.get((m[1], m[2] + F("ovni_mark_emu", "ntypes")), INT(0))
            cur = cur[1] if cur[0] == "int" else 0
            return [(INT(0), {(m[1], m[2] + F("ovni_mark_emu", "ntypes")): INT(cur + defs[k])})]

        def s_ctc(ex_, st, a, f, e):
            created.append(a[2][1] if a[2][0] == "ptr" else "?")
            return [(INT(0), {})]

        def s_memset(ex_, st, a, f, e):
            d = a[0]
            return [(d, {(d[1], d[2] + F("ovni_mark_emu", "ntypes")): INT(0)})] if d[0] == "ptr" else None
        ex = absint.Explorer(prog, effects=eff, loop_bound=len(defs) + 2, opaque={"scan_thread", "create_thread_chan", "init_cpu"},
                             summaries={"scan_thread": s_scan, "create_thread_chan": s_ctc, "init_cpu": lambda ex_, st, a, f, e: [(INT(0), {})],
                                        "extend_get": lambda ex_, st, a, f, e: [(PTR("OEMU"), {})],
                                        "memset": s_memset, "__builtin___memset_chk": s_memset})
        store = {DBG: INT(0), ("EMU", F("emu", "system") + F("system", "threads")): PTR("T0"),
                 ("EMU", F("emu", "system") + F("system", "cpus")): NULL}
        for i in range(len(defs)):
            store[("T%d" % i, F("thread", "gnext"))] = PTR("T%d" % (i + 1)) if i + 1 < len(defs) else NULL
        outs = [o for o in ex.run(mc, [PTR("EMU")], store) if o.kind == "ret"]
        allt = ["T%d" % i for i in range(len(defs))]
        want_created = allt if sum(defs) else []
        good = bool(outs) and all(o.ret == INT(0) for o in outs) and sorted(set(scanned)) == allt and sorted(set(created)) == want_created
        ctx.check(good, rule, "mark_create:types-per-thread=%s" % ",".join(map(str, defs)), mc.loc(),
                  "with threads defining %s mark type(s) in list order, mark_create scans %s and creates channels for %s "
                  "(expected: scans all, creates %s): marks defined by a later thread are unknown when its events arrive" %
                  (list(defs), sorted(set(scanned)), sorted(set(created)), want_created or "none"))


def check_buffer_length_args(ctx, rule):
    """A length handed to a callee together with a local array never exceeds the array: for every call whose argument
    is a local or static array of N bytes followed by an integer constant K, K <= N (the callee is told the truth
    about the buffer it writes into)."""
    prog = ctx.prog
    n_ = 0
    for f in sorted(prog.functions.values(), key=lambda g: (g.file, g.line)):
        if not (f.file.startswith("src/emu/") or f.file.startswith("src/rt/") or f.file == "src/common.c"):
            continue
        for i in f.calls():
            n = f.nodes[i]
            args = n.get("args", [])
            for k in range(len(args) - 1):
                a = f.nodes[args[k]]
                if not (a["k"] == "ImplicitCastExpr" and a.get("ck") == "ArrayToPointerDecay"):
                    continue
                m = re.match(r"^(?:unsigned |signed )?char\[(\d+)\]$", a.get("from", ""))
                base = f.nodes[f.strip(a["c"][0])]
                if not m or base["k"] != "DeclRefExpr" or base.get("dk") not in ("local", "slocal", "global"):
                    continue
                kv = f.val(args[k + 1])
                if kv is None:
                    continue
                n_ += 1
                size = int(m.group(1))
                ctx.check(kv <= size, rule, "buffer-length:%s:%s:%s" % (f.name, n.get("callee"), base.get("name")), f.loc(i),
                          "%s passes the %d-byte array '%s' to %s together with the length %d: the callee may write %d bytes "
                          "past the end (a long label in the trace overflows the stack)" %
                          (f.name, size, base.get("name"), n.get("callee"), kv, kv - size))
    ctx.need(n_ >= 10, "only %d (array, constant length) argument pairs found" % n_)


def check_dump_buffer_fits(ctx, rule):
    """ovnidump can decode every listed event of a legal shape: the buffer it decodes into holds the longest
    description text plus the longest label a model accepts (MAX_PCF_LABEL)."""
    prog = ctx.prog
    from ovsa import models as _m
    longest = 0
    for m in _m.discover(prog):
        for e in m.events:
            longest = max(longest, len(getattr(e, "desc", "") or getattr(e, "sig", "") or ""))
    maxlabel = None
    for name in ("MAX_PCF_LABEL",):
        v = prog.macros.get(name) if hasattr(prog, "macros") else None
        if isinstance(v, dict):
            v = v.get("v")
        maxlabel = v if isinstance(v, int) else None
    if maxlabel is None:
        # the size of a label field declared with it
        r = prog.records.get("pcf_value") or {}
        for fl in r.get("fields", []):
            if fl["name"] == "label" and fl.get("count"):
                maxlabel = fl["count"]
    ctx.need(maxlabel, "cannot determine MAX_PCF_LABEL")
    sites = []
    eff = effects.Effects(prog)
    for f in prog.fns_in("src/emu/ovnidump.c"):
        for i in f.calls("model_event_print"):
            a = f.nodes[i]["args"]
            v = f.val(a[3]) if len(a) > 3 else None
            if v is None:
                # the length goes through a local: evaluate the function up to the call
                seen = []
                ex = absint.Explorer(prog, effects=eff, loop_bound=3, max_paths=4000,
                                     summaries={"model_event_print": lambda ex_, st, a_, f_, e: (seen.append(a_[3] if len(a_) > 3 else TOP), [(INT(0), {})])[1]})
                try:
                    ex.run(f, [PTR("A%d" % j) if p_["ctype"].rstrip().endswith("*") else TOP for j, p_ in enumerate(f.params)], {DBG: INT(0)})
                except AnalysisBroken:
                    pass
                vals = {x[1] for x in seen if x[0] == "int"}
                v = vals.pop() if len(vals) == 1 and all(x[0] == "int" for x in seen) else None
            sites.append((f, i, v))
    ctx.need(sites and all(s[2] is not None for s in sites), "ovnidump: cannot evaluate the buffer length given to model_event_print")
    need = longest + maxlabel
    for f, i, v in sites:
        ctx.check(v >= need, rule, "ovnidump:decode-buffer", f.loc(i),
                  "ovnidump decodes into %d bytes, but a listed event with the longest legal label needs up to %d (%d of "
                  "description + %d of label): such an event is printed as UNKNOWN" % (v, need, longest, maxlabel))


def check_mark_type_range_agrees(ctx, rule):
    """Every mark type that can be defined can be used: the types ovni_mark_type accepts (evaluated on -1, 0, 1, 99,
    100) are accepted by ovni_mark_push / pop / set with a legal value."""
    prog = ctx.prog
    eff = effects.Effects(prog)
    sums = {"get_thread_metadata": lambda ex_, st, a, f, e: [(PTR("META"), {})],
            "json_object_dotget_value": lambda ex_, st, a, f, e: [(NULL, {})],
            "json_object_dotset_string": lambda ex_, st, a, f, e: [(INT(0), {})],
            "json_object_dotset_value": lambda ex_, st, a, f, e: [(INT(0), {})],
            "snprintf": lambda ex_, st, a, f, e: [(INT(12), {})], "__builtin___snprintf_chk": lambda ex_, st, a, f, e: [(INT(12), {})],
            "ovni_clock_now": lambda ex_, st, a, f, e: [(INT(1000), {})], "ovni_ev_add": lambda ex_, st, a, f, e: [(TOP, {})],
            "ovni_ev_emit": lambda ex_, st, a, f, e: [(TOP, {})], "ovni_payload_add": lambda ex_, st, a, f, e: [(TOP, {})],
            "ovni_ev_set_mcv": lambda ex_, st, a, f, e: [(TOP, {})], "ovni_ev_set_clock": lambda ex_, st, a, f, e: [(TOP, {})]}
    mt = prog.fn("ovni_mark_type", OV)

    def accepts(fn, args):
        ex = absint.Explorer(prog, effects=eff, loop_bound=2, max_depth=3, summaries=sums)
        outs = ex.run(fn, args, {(RT, F("ovni_rthread", "ready")): INT(1), (RP, F("ovni_rproc", "st")): INT(prog.enum_val("ST_READY"))})
        return bool(outs) and any(o.kind in ("ret", "exit") for o in outs)
    defined = [t for t in (-1, 0, 1, 99, 100) if accepts(mt, [INT(t), INT(0), ("str", "T")])]
    ctx.need(defined, "ovni_mark_type accepts none of -1, 0, 1, 99, 100")
    for name in ("ovni_mark_push", "ovni_mark_pop", "ovni_mark_set"):
        fn = prog.fn(name, OV)
        refused = [t for t in defined if not accepts(fn, [INT(t), INT(5)])]
        ctx.check(not refused, rule, "%s:usable-types" % name, fn.loc(),
                  "ovni_mark_type accepts the types %s but %s aborts for type(s) %s: a documented, defined mark type cannot be "
                  "used" % (defined, name, refused))

"""C15 — metadata merge is distribution-independent; conflicts are refused cleanly.

R15.1 phase typestate: pointer fields allocated in a later initialisation phase are not dereferenced
      by code reachable in an earlier phase
R15.2 order of the phases of system_init
R15.3 comparators are valid orderings on the documented keys and the sorts use them; the virtual
      CPU comes after the physical ones; global indices follow the list order
R15.4 merge discipline of per-process / per-loom attributes: set-and-different is an error
"""
import re

import itertools

from ovsa import absint, effects, errflow
from ovsa.absint import INT, NULL, PTR, TOP


def F(rec, field):
    return ((rec, field),)


SYSC = "src/emu/system.c"
PHASES = ["create_system", "set_sort_criteria", "sort_lpt", "init_global_lists", "init_global_indices",
          "init_end_system"]


def run(ctx):
    prog = ctx.prog
    eff = effects.Effects(prog)
    reg = errflow.Registry(prog)
    ctx.rule("R15.1", "a pointer field of loom/proc/thread/cpu that is allocated by a function reachable only from "
             "a later phase of system_init is not dereferenced by any function reachable from an earlier phase "
             "(it is still NULL there)")
    ctx.rule("R15.2", "system_init runs create_system, set_sort_criteria, sort_lpt, init_global_lists, "
             "init_global_indices, init_end_system in this order on its successful path")
    ctx.rule("R15.3", "by_pid, by_rank, by_tid, by_phyid, cmp_loom_rank order by their documented key "
             "(negative / zero / positive); loom_sort, proc_sort and sort_lpt use them under the documented "
             "conditions; init_global_lists appends each loom's virtual CPU after its physical CPUs and "
             "init_global_indices numbers the lists in order")
    ctx.rule("R15.4", "load_appid, load_rank and load_cpus accept a repeated attribute only when it equals the "
             "stored one, reject contradictions, and their errors reach the exit status")

    si = prog.fn("system_init", SYSC)
    phase_fns = [prog.fn(n) for n in PHASES]

    # ---- R15.2 ------------------------------------------------------------------
    ex = absint.Explorer(prog, effects=eff, auto_inline=False, loop_bound=2,
                         on_unknown_call=lambda cal, args, f, e: [INT(0)] if cal in PHASES or cal in
                         ("report_libovni_version", "load_clock_offsets", "init_offsets") else None)
    outs = [o for o in ex.run(si, [PTR("SYS"), PTR("ARGS"), PTR("TRACE")], {}) if o.kind == "ret" and o.ret == INT(0)]
    ctx.need(outs, "system_init: no successful path explored")
    for k, o in enumerate(outs):
        seq = [ev[1] for ev in o.events if ev[0] == "call" and ev[1] in PHASES]
        ctx.check(seq == PHASES, "R15.2", "system_init:phase-order:path%d" % (k + 1), si.loc(),
                  "phases run as %s, expected %s" % (seq, PHASES))

    # ---- R15.1 --------------------------------------------------------------------
    reach = []
    for f in phase_fns:
        reach.append({g.key for g in prog.reachable_fns([f])})
    recs = ("loom", "proc", "thread", "cpu")
    alloc_phase = {}    # (rec, field) -> earliest phase index in which the pointer field is assigned from an allocator
    for k, keys in enumerate(reach):
        for key in keys:
            g = prog.functions[key]
            for i, n in enumerate(g.nodes):
                if n["k"] == "BinaryOperator" and n.get("op") == "=":
                    l = g.nodes[g.strip(n["c"][0])]
                    r = g.nodes[g.strip(n["c"][1])]
                    if l["k"] == "MemberExpr" and l.get("rec") in recs and (l.get("ct") or l.get("t", "")).endswith("*") \
                            and r["k"] == "CallExpr" and r.get("callee") in ("calloc", "malloc", "realloc"):
                        fk = (l["rec"], l["field"])
                        alloc_phase[fk] = min(alloc_phase.get(fk, 99), k)
    ctx.need(alloc_phase, "no allocated pointer fields found in the initialisation phases")
    for (rec, fld), k in sorted(alloc_phase.items()):
        bad = []
        for j in range(k):
            for key in sorted(reach[j]):
                if any(key in reach[m] for m in range(k, len(reach)) if False):
                    continue
                g = prog.functions[key]
                for i, n in enumerate(g.nodes):
                    if n["k"] == "MemberExpr" and n.get("rec") == rec and n["field"] == fld:
                        # dereferenced: used as base of a subscript / arrow / unary *
                        p = g.parent(i)
                        while p is not None and g.nodes[p]["k"] in ("ImplicitCastExpr", "ParenExpr"):
                            p = g.parent(p)
                        pn = g.nodes[p] if p is not None else None
                        if pn is not None and (pn["k"] == "ArraySubscriptExpr" or
                                               (pn["k"] == "MemberExpr" and pn.get("arrow")) or
                                               (pn["k"] == "UnaryOperator" and pn.get("op") == "*")):
                            bad.append("%s (%s), reachable from %s" % (g.name, g.loc(i), PHASES[j]))
        ctx.check(not bad, "R15.1", "%s.%s:allocated-in-%s" % (rec, fld, PHASES[k]), SYSC,
                  "%s.%s is allocated in phase %s but dereferenced earlier by %s: it is NULL there (crash on "
                  "valid and on contradictory metadata alike)" % (rec, fld, PHASES[k], "; ".join(sorted(set(bad)))))

    # ---- R15.3 comparators ------------------------------------------------------------------
    comps = [("by_pid", "src/emu/loom.c", "proc", "pid"), ("by_rank", "src/emu/loom.c", "proc", "rank"),
             ("by_tid", "src/emu/proc.c", "thread", "tid"), ("by_phyid", "src/emu/loom.c", "cpu", "phyid"),
             ("cmp_loom_rank", SYSC, "loom", "rank_min")]
    getters = {"proc_get_pid", "thread_get_tid", "cpu_get_phyid"}
    for (name, file, rec, key) in comps:
        fn = prog.fn(name, file)
        ex = absint.Explorer(prog, effects=eff, inline=lambda n, d: n in getters)
        for (a, b, want) in ((1, 2, -1), (2, 1, 1), (2, 2, 0), (-5, 3, -1)):
            outs = ex.run(fn, [PTR("A"), PTR("B")], {("A", F(rec, key)): INT(a), ("B", F(rec, key)): INT(b)})
            rets = {o.ret for o in outs if o.kind == "ret"}
            good = len(rets) == 1 and list(rets)[0][0] == "int" and \
                ((want < 0 and list(rets)[0][1] < 0) or (want > 0 and list(rets)[0][1] > 0) or
                 (want == 0 and list(rets)[0][1] == 0))
            ctx.check(good, "R15.3", "%s:%s=%d-vs-%d" % (name, key, a, b), fn.loc(),
                      "%s(%s=%d, %s=%d) returns %s; expected %s" %
                      (name, key, a, key, b, sorted(rets), {-1: "negative", 0: "zero", 1: "positive"}[want]))
    cl = prog.fn("cmp_loom_id", SYSC)
    from rules.strutil import FOLD
    for (ia, ib) in (("loom.a.1", "loom.b.1"), ("loom.b.1", "loom.a.1"), ("loom.a.1", "loom.a.1"), ("loom.a.1", "loom.a.10")):
        exl = absint.Explorer(prog, effects=eff, loop_bound=40, summaries=dict(FOLD))
        outs_l = exl.run(cl, [PTR("LA"), PTR("LB")], {("LA", F("loom", "id")): ("str", ia), ("LB", F("loom", "id")): ("str", ib)})
        rets = {o.ret for o in outs_l if o.kind == "ret"}
        want = (ia > ib) - (ia < ib)
        good = len(rets) == 1 and list(rets)[0][0] == "int" and ((list(rets)[0][1] > 0) - (list(rets)[0][1] < 0)) == want
        ctx.check(good, "R15.3", "cmp_loom_id:%s-vs-%s" % (ia, ib), cl.loc(),
                  "cmp_loom_id gives %s for loom ids '%s' and '%s'; looms without ranks are ordered by their id" %
                  (sorted(rets, key=str), ia, ib))

    def used_when(f, field):
        """{comparator name: set of truth values of <field> under which it is used}, from the CFG: which arm of
        the test of that field dominates each reference (any form of the test: if/else, negation, early return)."""
        out = {}
        for i, n in enumerate(f.nodes):
            if n["k"] == "DeclRefExpr" and n.get("dk") == "fn":
                g = f.guard_truth(i, field)
                ctx.need(g is not None, "%s: cannot classify the test of %s that controls the use of %s" % (f.name, field, n["name"]))
                out.setdefault(n["name"], set()).update({True, False} if g == "both" else {g})
        return out
    ls = prog.fn("loom_sort", "src/emu/loom.c")
    uw = used_when(ls, "rank_enabled")
    ctx.check(uw.get("by_rank") == {True} and uw.get("by_pid") == {False}, "R15.3",
              "loom_sort:procs-by-rank-or-pid", ls.loc(),
              "processes are sorted by_rank when rank_enabled is %s and by_pid when it is %s; expected by rank exactly "
              "when ranks are enabled, by pid otherwise" % (sorted(uw.get("by_rank", ())), sorted(uw.get("by_pid", ()))))
    allc = {n.get("callee") for n in ls.nodes if n["k"] == "CallExpr"}
    ctx.check("by_phyid" in allc and "proc_sort" in allc, "R15.3", "loom_sort:cpus-by-phyid-and-procs", ls.loc(),
              "loom_sort no longer sorts the CPUs by physical id / the threads of each process")
    ps = prog.fn("proc_sort", "src/emu/proc.c")
    ctx.check("by_tid" in {n.get("callee") for n in ps.nodes if n["k"] == "CallExpr"}, "R15.3",
              "proc_sort:threads-by-tid", ps.loc(), "proc_sort does not sort the threads by TID")
    sl = prog.fn("sort_lpt", SYSC)
    uw = used_when(sl, "sort_by_rank")
    ctx.check(uw.get("cmp_loom_rank") == {True} and uw.get("cmp_loom_id") == {False},
              "R15.3", "sort_lpt:looms-by-rank-or-name", sl.loc(),
              "looms are sorted with cmp_loom_rank when sort_by_rank is %s and with cmp_loom_id when it is %s; expected "
              "by rank exactly when sort_by_rank is set" % (sorted(uw.get("cmp_loom_rank", ())), sorted(uw.get("cmp_loom_id", ()))))
    ctx.check("loom_sort" in {n.get("callee") for n in sl.nodes if n["k"] == "CallExpr"}, "R15.3",
              "sort_lpt:sorts-each-loom", sl.loc(), "sort_lpt does not sort the contents of each loom")
    # ... whatever it holds (a loom with one process still has CPUs and threads to sort): in sort_lpt's flow graph the
    # call of loom_sort lies on every iteration of the loop that contains it - the loop without the call's block has no
    # cycle left, so no guard can skip it for some looms
    calls_ls = [i for i in sl.calls("loom_sort")]
    ctx.need(len(calls_ls) == 1, "sort_lpt: %d calls of loom_sort" % len(calls_ls))
    blk = sl.where_up(calls_ls[0])[0]
    in_loop = blk in {y for x in sl.reachable_blocks(start=blk) for y in sl.succs(x)}
    ctx.need(in_loop, "sort_lpt: loom_sort is not called inside a loop over the looms")
    rest = {x for x in sl.blocks if x != blk and x in sl.reachable_blocks(start=blk) and blk in sl.reachable_blocks(start=x)}
    cyc = [x for x in rest if any(x in sl.reachable_blocks(start=y, avoid=(blk,)) for y in sl.succs(x) if y in rest)]
    ctx.check(not cyc, "R15.3", "sort_lpt:sorts-every-loom", sl.loc(calls_ls[0]),
              "an iteration of the loop over the looms can skip loom_sort (blocks %s form a cycle without it): the CPUs and "
              "threads of a skipped loom keep the order in which the streams were enumerated" % sorted(cyc))
    ssc = prog.fn("set_sort_criteria", SYSC)
    for (ranks, want) in (((1, 1), 1), ((1, 0), 0), ((0, 0), 0), ((1,), 1), ((0,), 0)):
        ex = absint.Explorer(prog, effects=eff, loop_bound=4,
                             summaries={"loom_set_rank_min": lambda ex_, st, args, f, e: [(INT(0), {})]})
        store = {("SYS", F("system", "looms")): PTR("L0"), ("SYS", F("system", "sort_by_rank")): INT(0)}
        for i, r in enumerate(ranks):
            store[("L%d" % i, F("loom", "rank_enabled"))] = INT(r)
            store[("L%d" % i, F("loom", "next"))] = PTR("L%d" % (i + 1)) if i + 1 < len(ranks) else NULL
        outs = [o for o in ex.run(ssc, [PTR("SYS")], store) if o.kind == "ret" and o.ret == INT(0)]
        got = {o.store.get(("SYS", F("system", "sort_by_rank"))) for o in outs}
        ctx.check(got == {INT(want)}, "R15.3", "set_sort_criteria:ranks=%s" % (list(ranks),), ssc.loc(),
                  "looms with rank information %s give sort_by_rank=%s, expected %d (only when every loom has it)"
                  % (list(ranks), sorted(got, key=str), want))
    # virtual CPU last, indices in list order
    igl = prog.fn("init_global_lists", SYSC)
    ex = absint.Explorer(prog, effects=eff, loop_bound=6)
    HH = F("cpu", "hh") + F("UT_hash_handle", "next")
    store = {("SYS", F("system", "looms")): PTR("L0"), ("SYS", F("system", "cpus")): NULL,
             ("SYS", F("system", "threads")): NULL, ("SYS", F("system", "procs")): NULL,
             ("L0", F("loom", "next")): NULL, ("L0", F("loom", "procs")): NULL,
             ("L0", F("loom", "cpus")): PTR("C0"), ("C0", HH): PTR("C1"), ("C1", HH): NULL}
    outs = [o for o in ex.run(igl, [PTR("SYS")], store) if o.kind in ("ret", "exit")]
    ctx.need(outs, "init_global_lists: nothing explored")
    VC = PTR("L0", F("loom", "vcpu"))
    for k, o in enumerate(outs):
        order = []
        cur = o.store.get(("SYS", F("system", "cpus")))
        for _ in range(5):
            if cur is None or cur[0] != "ptr":
                break
            order.append(cur)
            cur = o.store.get((cur[1], cur[2] + F("cpu", "next")))
        ctx.check(order == [PTR("C0"), PTR("C1"), VC], "R15.3", "init_global_lists:vcpu-last:path%d" % (k + 1),
                  igl.loc(), "global CPU list of a loom with CPUs c0,c1 is %s; expected c0, c1, virtual" % (order,))
    igi = prog.fn("init_global_indices", SYSC)
    ex = absint.Explorer(prog, effects=eff, loop_bound=6,
                         inline=lambda n, d: n in ("cpu_set_gindex", "loom_set_gindex", "proc_set_gindex", "thread_set_gindex"))
    store = {("SYS", F("system", "looms")): NULL, ("SYS", F("system", "procs")): NULL,
             ("SYS", F("system", "threads")): PTR("T0"), ("T0", F("thread", "gnext")): PTR("T1"),
             ("T1", F("thread", "gnext")): NULL,
             ("SYS", F("system", "cpus")): PTR("C0"), ("C0", F("cpu", "next")): PTR("C1"),
             ("C1", F("cpu", "next")): PTR("VC"), ("VC", F("cpu", "next")): NULL,
             ("C0", F("cpu", "is_virtual")): INT(0), ("C1", F("cpu", "is_virtual")): INT(0),
             ("VC", F("cpu", "is_virtual")): INT(1)}
    outs = [o for o in ex.run(igi, [PTR("SYS")], store) if o.kind in ("ret", "exit")]
    ctx.need(outs, "init_global_indices: nothing explored")
    for o in outs:
        g = lambda ob, rec: o.store.get((ob, F(rec, "gindex")))
        good = (g("C0", "cpu"), g("C1", "cpu"), g("VC", "cpu")) == (INT(0), INT(1), INT(2)) and \
            (g("T0", "thread"), g("T1", "thread")) == (INT(0), INT(1)) and \
            o.store.get(("SYS", F("system", "ncpus"))) == INT(3) and \
            o.store.get(("SYS", F("system", "nphycpus"))) == INT(2) and \
            o.store.get(("SYS", F("system", "nthreads"))) == INT(2)
        ctx.check(good, "R15.3", "init_global_indices:numbering", igi.loc(),
                  "global indices / counts do not follow the list order (cpus %s, ncpus %s, nphycpus %s)" %
                  ([g(x, "cpu") for x in ("C0", "C1", "VC")], o.store.get(("SYS", F("system", "ncpus"))),
                   o.store.get(("SYS", F("system", "nphycpus")))))

    # ---- R15.4 --------------------------------------------------------------------------------
    la = prog.fn("load_appid", "src/emu/proc.c")
    for prev in (0, 5):
        for new in (None, 5, 7, 0, -1):
            ex = absint.Explorer(prog, effects=eff, summaries={
                "stream_metadata": lambda ex_, st, args, f, e: [(PTR("META"), {})],
                "json_object_dotget_value": lambda ex_, st, args, f, e, new=new: [((NULL if new is None else PTR("V")), {})],
                "json_number": lambda ex_, st, args, f, e, new=new: [(INT(new or 0), {})],
                "json_value_get_number": lambda ex_, st, args, f, e, new=new: [(INT(new or 0), {})]})
            outs = ex.run(la, [PTR("P"), PTR("S")], {("P", F("proc", "appid")): INT(prev)})
            acc = [o for o in outs if o.kind == "ret" and o.ret == INT(0)]
            rej = [o for o in outs if o.kind == "ret" and o.ret != INT(0)]
            inst = "load_appid:stored=%d:stream=%s" % (prev, new)
            if new is None:
                want, post = True, prev
            elif new <= 0 or (prev and prev != new):
                want, post = False, None
            else:
                want, post = True, new
            if want:
                ctx.check(bool(acc) and not rej and all(o.store.get(("P", F("proc", "appid"))) == INT(post) for o in acc),
                          "R15.4", inst, la.loc(), "a consistent app id is refused or not stored")
            else:
                ctx.check(bool(rej) and not acc, "R15.4", inst, la.loc(),
                          "app id %s is accepted for a process whose app id is %d" % (new, prev))
    lr = prog.fn("load_rank", "src/emu/proc.c")
    cases = []
    for (pr, pn) in ((-1, 0), (2, 4)):
        for (r, n) in ((None, None), (2, 4), (3, 4), (2, 5), (-1, 4), (2, None), (2, 0), (4, 4)):
            cases.append((pr, pn, r, n))
    # rank 0 is a rank like any other (only -1 means "not set")
    cases += [(0, 4, 0, 4), (0, 4, 1, 4), (0, 4, 3, 4), (0, 4, None, None), (-1, 0, 0, 4)]
    for (pr, pn, r, n) in cases:
        def s_get(ex_, st, args, f, e, r=r, n=n):
            key = args[1][1] if args[1][0] == "str" else ""
            if key.endswith("nranks"):
                return [((NULL if n is None else PTR("VN")), {})]
            return [((NULL if r is None else PTR("VR")), {})]

        def s_num(ex_, st, args, f, e, r=r, n=n):
            return [(INT((n if args[0] == PTR("VN") else r) or 0), {})]
        ex = absint.Explorer(prog, effects=eff, summaries={
            "stream_metadata": lambda ex_, st, args, f, e: [(PTR("META"), {})],
            "json_object_dotget_value": s_get, "json_number": s_num, "json_value_get_number": s_num})
        outs = ex.run(lr, [PTR("P"), PTR("S")], {("P", F("proc", "rank")): INT(pr), ("P", F("proc", "nranks")): INT(pn)})
        acc = [o for o in outs if o.kind == "ret" and o.ret == INT(0)]
        rej = [o for o in outs if o.kind == "ret" and o.ret != INT(0)]
        inst = "load_rank:stored=%d/%d:stream=%s/%s" % (pr, pn, r, n)
        if r is None:
            want = True
        else:
            want = r >= 0 and n is not None and n > 0 and r < n and (pr < 0 or pr == r) and (pn <= 0 or pn == n)
        if want:
            ctx.check(bool(acc) and not rej, "R15.4", inst, lr.loc(), "consistent rank information is refused")
            if r is not None:
                ctx.check(all(o.store.get(("P", F("proc", "rank"))) == INT(r) and
                              o.store.get(("P", F("proc", "nranks"))) == INT(n) for o in acc), "R15.4",
                          inst + ":stored", lr.loc(), "rank / nranks are not stored")
        else:
            ctx.check(bool(rej) and not acc, "R15.4", inst, lr.loc(),
                      "contradictory or invalid rank information (rank %s of %s, stored %d of %d) is accepted" %
                      (r, n, pr, pn))
    lc = prog.fn("load_cpus", "src/emu/loom.c")
    HHn = F("cpu", "hh") + F("UT_hash_handle", "next")
    for (idx, phy, want) in ((1, 3, "dup"), (2, 3, "reject"), (1, 4, "reject"), (2, 4, "add"), (-1, 9, "reject"),
                             (0, 9, "add")):
        added = []

        def s_find(ex_, st, args, f, e):
            return [((PTR("CX") if args[1] == INT(3) else NULL), {})]

        def s_num(ex_, st, args, f, e, idx=idx, phy=phy):
            return [(INT(idx if args[1] == ("str", "index") else phy), {})]

        def s_add(ex_, st, args, f, e, added=added):
            added.append(args[1])
            return [(INT(0), {})]
        ex = absint.Explorer(prog, effects=eff, loop_bound=3,
                             inline=lambda n, d: d.file == "src/emu/loom.c" and n not in ("loom_find_cpu", "loom_add_cpu", "load_cpus") or n in ("cpu_get_index", "cpu_get_phyid"),
                             summaries={"json_object_dotget_array": lambda ex_, st, args, f, e: [(PTR("ARR"), {})],
                                        "json_array_get_count": lambda ex_, st, args, f, e: [(INT(1), {})],
                                        "json_array_get_object": lambda ex_, st, args, f, e: [(PTR("JCPU"), {})],
                                        "json_object_get_number": s_num, "loom_find_cpu": s_find, "loom_add_cpu": s_add,
                                        "calloc": lambda ex_, st, args, f, e: [(PTR("NEWCPU"), {})],
                                        "cpu_init_begin": lambda ex_, st, args, f, e: [(TOP, {})]})
        store = {("L", F("loom", "cpus")): PTR("CX"), ("CX", F("cpu", "index")): INT(1), ("CX", F("cpu", "phyid")): INT(3),
                 ("CX", HHn): NULL, ("L", F("loom", "ncpus")): INT(1), ("L", F("loom", "cpus_array")): NULL,
                 ("L", F("loom", "is_init")): INT(0)}
        try:
            outs = ex.run(lc, [PTR("L"), PTR("META")], store)
        except Exception as e:
            outs = []
        acc = [o for o in outs if o.kind == "ret" and o.ret == INT(0)]
        rej = [o for o in outs if o.kind == "ret" and o.ret != INT(0)]
        inst = "load_cpus:existing=(index1,phy3):new=(index%d,phy%d)" % (idx, phy)
        if want == "reject":
            ctx.check(bool(rej) and not acc, "R15.4", inst, lc.loc(),
                      "a CPU entry contradicting the loom (index %d, physical id %d against index 1, physical id 3) "
                      "is %s" % (idx, phy, "accepted" if acc else "not evaluated cleanly"))
        elif want == "dup":
            ctx.check(bool(acc) and not added, "R15.4", inst, lc.loc(), "a repeated identical CPU entry is not ignored")
        else:
            ctx.check(bool(acc) and added, "R15.4", inst, lc.loc(), "a new consistent CPU entry is not added")
    main = prog.fn("main", "src/emu/ovniemu.c")
    for fn in (la, lr, lc):
        ef = errflow.ErrFlow(prog, main, registry=reg)
        ef.propagates(fn)
        for (g, c, where, ok, detail) in ef.checked_sites:
            ctx.check(ok, "R15.4", "%s:propagate:%s->%s" % (fn.name, g, c), where,
                      "error of %s dropped in %s: %s" % (g, c, detail))
    # every stream's metadata is merged, whether its process / loom is new or was created by an earlier stream
    for (cname, finder, loader, extra) in (("create_proc", "loom_find_proc", "proc_load_metadata", {"proc_stream_get_pid": 7}),
                                           ("create_loom", "find_loom", "loom_load_metadata", {})):
        cf = prog.fn(cname, SYSC)
        for exists in (0, 1):
            loaded = []

            def s_load(ex_, st, args, f, e, loaded=loaded):
                loaded.append(tuple(args))
                return [(INT(0), {})]
            sums = {finder: lambda ex_, st, args, f, e, x=exists: [((PTR("OLD") if x else NULL), {})],
                    loader: s_load, "malloc": lambda ex_, st, args, f, e: [(PTR("NEW"), {})],
                    "loom_name": lambda ex_, st, args, f, e: [(("str", "loom.x"), {})]}
            for k_, v_ in extra.items():
                sums[k_] = lambda ex_, st, args, f, e, v_=v_: [(INT(v_), {})]
            ex = absint.Explorer(prog, effects=eff, summaries=sums, loop_bound=3,
                                 on_unknown_call=lambda cal, args, f, e: [INT(0)])
            outs = ex.run(cf, [PTR("PARENT"), PTR("S")], {("PARENT", F("system", "looms")): NULL})
            acc = [o for o in outs if o.kind == "ret" and o.ret is not None and o.ret[0] == "ptr"]
            obj = PTR("OLD") if exists else PTR("NEW")
            inst = "%s:%s:merges-this-stream" % (cname, "existing" if exists else "new")
            good = bool(acc) and all(o.ret == obj for o in acc) and (obj, PTR("S")) in loaded
            ctx.check(good, "R15.4", inst, cf.loc(),
                      "%s returns %s for %s object and %s is called with %s: the attributes carried by this stream are "
                      "not merged into the %s" % (cname, sorted({str(o.ret) for o in acc}),
                                                  "an existing" if exists else "a new", loader, loaded or "nothing",
                                                  "process" if "proc" in cname else "loom"))
    ct = prog.fn("create_thread", SYSC)
    for exists in (0, 1):
        ex = absint.Explorer(prog, effects=eff, summaries={
            "thread_stream_get_tid": lambda ex_, st, args, f, e: [(INT(77), {})],
            "proc_find_thread": lambda ex_, st, args, f, e, x=exists: [((PTR("OLD") if x else NULL), {})],
            "malloc": lambda ex_, st, args, f, e: [(PTR("NEWTH"), {})]},
            on_unknown_call=lambda cal, args, f, e: [INT(0)])
        outs = ex.run(ct, [PTR("P"), PTR("S")], {})
        acc = [o for o in outs if o.kind == "ret" and o.ret is not None and o.ret[0] == "ptr"]
        if exists:
            ctx.check(not acc, "R15.4", "create_thread:duplicate-tid", ct.loc(), "a second stream with the same TID is accepted")
        else:
            ctx.check(bool(acc), "R15.4", "create_thread:new-tid", ct.loc(), "a new thread is refused")
    # ---- per-loom merge results that must not depend on the order of the processes / CPUs ---------------
    LOOMC = "src/emu/loom.c"
    HHN = F("UT_hash_handle", "next")
    srm = prog.fn("loom_set_rank_min", LOOMC)
    IMAX = 2 ** 31 - 1
    DBG = (("G", "src/common.c", "is_debug_enabled"), ())
    for n_ in (1, 2, 3):
        for ranks in itertools.product((-1, 0, 5), repeat=n_):
            store = {DBG: INT(0), ("L", F("loom", "rank_min")): INT(IMAX), ("L", F("loom", "rank_enabled")): INT(0),
                     ("L", F("loom", "procs")): PTR("P0")}
            for i_, r_ in enumerate(ranks):
                store[("P%d" % i_, F("proc", "rank"))] = INT(r_)
                store[("P%d" % i_, F("proc", "hh") + HHN)] = PTR("P%d" % (i_ + 1)) if i_ + 1 < n_ else NULL
            exr = absint.Explorer(prog, effects=eff, loop_bound=n_ + 3)
            outs = [o for o in exr.run(srm, [PTR("L")], store) if o.kind == "ret"]
            acc = [o for o in outs if o.ret == INT(0)]
            have = [r_ for r_ in ranks if r_ >= 0]
            mixed = bool(have) and len(have) != len(ranks)
            inst = "loom_set_rank_min:ranks=%s" % (list(ranks),)
            if mixed:
                ctx.check(bool(outs) and not acc, "R15.4", inst, srm.loc(),
                          "a loom in which some processes have a rank and others have none is accepted when the "
                          "processes come in the order %s (it must be refused whatever the order)" % (list(ranks),))
            else:
                good = bool(acc) and len(acc) == len(outs) and all(
                    o.store.get(("L", F("loom", "rank_enabled"))) == INT(1 if have else 0) and
                    o.store.get(("L", F("loom", "rank_min"))) == INT(min(have) if have else IMAX) for o in acc)
                ctx.check(good, "R15.4", inst, srm.loc(),
                          "consistent rank information %s is refused, or rank_enabled / rank_min come out as %s" %
                          (list(ranks), [(str(o.store.get(("L", F("loom", "rank_enabled")))),
                                          str(o.store.get(("L", F("loom", "rank_min"))))) for o in acc]))
    lie = prog.fn("loom_init_end", LOOMC)
    for idxs in ((0,), (0, 1), (1, 0), (0, 2), (2, 0), (1, 2), (0, 1, 2), (2, 1, 0), (0, 1, 3), (0, 0), (-1, 0)):
        n_ = len(idxs)
        store = {DBG: INT(0), ("L", F("loom", "rank_enabled")): INT(0), ("L", F("loom", "rank_min")): INT(IMAX),
                 ("L", F("loom", "ncpus")): INT(n_), ("L", F("loom", "nprocs")): INT(1), ("L", F("loom", "cpus")): PTR("C0")}
        for i_, ix in enumerate(idxs):
            store[("C%d" % i_, F("cpu", "index"))] = INT(ix)
            store[("C%d" % i_, F("cpu", "hh") + HHN)] = PTR("C%d" % (i_ + 1)) if i_ + 1 < n_ else NULL

        def s_calloc(ex_, st, a, f, e, n_=n_):
            return [(PTR("ARR", (0,)), {("ARR", (k_,)): NULL for k_ in range(n_)})]
        exl = absint.Explorer(prog, effects=eff, loop_bound=n_ + 3, summaries={"calloc": s_calloc},
                              inline=lambda nm, d: nm in ("cpu_get_index",))
        outs = [o for o in exl.run(lie, [PTR("L")], store) if o.kind == "ret"]
        acc = [o for o in outs if o.ret == INT(0)]
        valid = sorted(idxs) == list(range(n_))
        inst = "loom_init_end:cpu-indices=%s" % (list(idxs),)
        if valid:
            good = bool(acc) and len(acc) == len(outs) and all(
                all(o.store.get(("ARR", (ix,))) == PTR("C%d" % i_) for i_, ix in enumerate(idxs)) for o in acc)
            ctx.check(good, "R15.4", inst, lie.loc(), "a loom whose CPUs are numbered %s is refused or its index table is wrong" % (list(idxs),))
        else:
            oob = [k for o in outs for k in o.store if k[0] == "ARR" and (k[1][0] < 0 or k[1][0] >= n_)]
            ctx.check(bool(outs) and not acc and not oob, "R15.4", inst, lie.loc(),
                      "a loom of %d CPUs numbered %s (not exactly 0..%d) is %s%s" %
                      (n_, list(idxs), n_ - 1, "accepted" if acc else "not evaluated",
                       "; the index table is written outside its bounds" if oob else ""))

    # merging and ordering walk each list through its own link (every process of every loom, every thread ...)
    from rules import listlinks
    listlinks.check(ctx, "R15.3", lambda file, name: file in ("src/emu/system.c", "src/emu/loom.c", "src/emu/proc.c"),
                    minimum=20)


_run_base = run


def run(ctx):
    _run_base(ctx)
    prog = ctx.prog
    ctx.rule("R15.5", "rank information is collected for every loom whatever the order of the looms: the function of "
             "system.c that calls loom_set_rank_min is evaluated on 1..3 looms with every combination of looms "
             "with / without ranks; each loom must be visited and sort_by_rank set exactly when all have ranks")
    from rules import round3
    round3.check_set_sort_criteria(ctx, "R15.5")
    ctx.rule("R15.6", "the CPUs of a loom are ordered by physical id whether or not the loom has ranks (loom_sort "
             "evaluated for both values of rank_enabled)")
    from rules import round4
    round4.check_cpus_sorted_always(ctx, "R15.6")
    ctx.rule("R15.7", "a missing application id is refused: proc_init_end with appid 0 / negative fails")
    from rules import round5
    round5.check_appid_required(ctx, "R15.7")

"""C12 — structurally invalid or incomplete traces are rejected.

R12.1 stream header: size, magic and version tests; empty files; failures keep the stream inactive
R12.2 clocks: a clock going backwards inside a stream / across streams is rejected unless the caller
      asked for unsorted streams, which the emulator never does
R12.3 metadata: unparsable file, version mismatch and each mandatory attribute; errors reach the exit status
R12.5 the decoded event is fully defined (every field of struct emu_ev assigned on every path)
R12.6 a payload shorter than declared never reaches the code that reads it
R12.7 a stream cut inside an event is not taken for a stream that ended
R12.4 unknown event codes are rejected by every model (C18 R18.1's evaluation; model not registered / not
      enabled is C14 R14.4)
"""
from ovsa import absint, dispatch, effects, errflow, models
from ovsa.absint import INT, NULL, PTR, TOP, to_lin

STREAMC = "src/emu/stream.c"
OV = "src/rt/ovni.c"


def F(rec, field):
    return ((rec, field),)


def run(ctx):
    prog = ctx.prog
    eff = effects.Effects(prog)
    reg = errflow.Registry(prog)
    main = prog.fn("main", "src/emu/ovniemu.c")
    ctx.rule("R12.1", "check_stream_header accepts exactly when the file holds the 8-byte header with the right "
             "magic and version; an empty file and a bad header make load_obs fail; failures reach the exit status")
    ctx.rule("R12.7", "stream_step reports the end of a stream only when its cursor is exactly at the last byte: "
             "trailing bytes that do not hold a complete event make it fail, for every offset and size")
    ctx.rule("R12.2", "stream_step accepts an event only if its corrected clock is not lower than the previous one "
             "of that stream unless the stream was marked unsorted; the player rejects a backwards jump between "
             "streams likewise; the emulator initialises its player with unsorted = 0")
    ctx.rule("R12.3", "an unparsable metadata file, a metadata version other than the supported one, and the "
             "absence of each mandatory attribute (version, ovni.part, ovni.loom, ovni.pid, ovni.tid, "
             "ovni.require, ovni.finished) make the reader fail, and the failure reaches ovniemu's exit status")
    ctx.rule("R12.5", "emu_ev() assigns every field of the decoded event on every path (the object is reused "
             "from one event to the next, so an unassigned field keeps the previous event's value)")
    ctx.rule("R12.6", "for every declared event with a fixed payload, an event carrying one byte less than "
             "declared never reaches a block that reads payload bytes beyond what it carries")

    def propagate(fn, rule, tag):
        ef = errflow.ErrFlow(prog, main, registry=reg)
        drops = ef.propagates(fn, pointer=fn.ret.rstrip().endswith("*"))
        for (g, c, where, ok, detail) in ef.checked_sites:
            ctx.check(ok, rule, "%s:propagate:%s->%s" % (tag, g, c), where,
                      "error of %s dropped in %s: %s" % (g, c, detail))
        for (c, n, detail) in drops:
            if n is None:
                ctx.fail(rule, "%s:propagate:%s:unreached" % (tag, c.name), c.loc(), detail)

    # ---- R12.1 ------------------------------------------------------------------------
    csh = prog.fn("check_stream_header", STREAMC)
    hsize = prog.records["ovni_stream_header"]["size"]
    good_ver = None
    for n in csh.nodes:
        if "OVNI_STREAM_VERSION" in n.get("m", ()) and "v" in n:
            good_ver = n["v"]
    ctx.need(good_ver is not None, "cannot find OVNI_STREAM_VERSION in check_stream_header")
    for size in (0, 4, hsize - 1, hsize, hsize + 12):
        for magic_ok in (0, 1):
            for ver in (good_ver - 1, good_ver, good_ver + 1):
                # the four magic bytes are concrete in the abstract store, so the test may be written with memcmp
                # or byte by byte
                def s_memcmp(ex_, st, args, f, e):
                    def sv(x):
                        if x[0] == "str":
                            return x[1]
                        if x[0] == "ptr":
                            path = x[2][:-1] if x[2] and x[2][-1] == 0 else x[2]
                            v = st.store.get((x[1], path))
                            return v[1] if v and v[0] == "str" else None
                        return None
                    a_, b_ = sv(args[0]), sv(args[1])
                    if a_ is None or b_ is None or args[2][0] != "int":
                        return None
                    k_ = args[2][1]
                    return [(INT(0 if a_[:k_] == b_[:k_] else 1), {})]
                ex = absint.Explorer(prog, effects=eff, loop_bound=8, summaries={"memcmp": s_memcmp})
                store = {("ST", F("stream", "size")): INT(size), ("ST", F("stream", "buf")): PTR("BUF", (0,)),
                         ("BUF", (0,) + F("ovni_stream_header", "version")): INT(ver),
                         ("BUF", (0,) + F("ovni_stream_header", "magic")): ("str", "ovni" if magic_ok else "ovnj")}
                outs = ex.run(csh, [PTR("ST")], store)
                acc = [o for o in outs if o.kind == "ret" and o.ret == INT(0)]
                rej = [o for o in outs if o.kind == "ret" and o.ret != INT(0)]
                want = size >= hsize and magic_ok and ver == good_ver
                inst = "check_stream_header:size=%d:magic=%s:version=%d" % (size, "ok" if magic_ok else "bad", ver)
                if want:
                    ctx.check(bool(acc) and not rej, "R12.1", inst, csh.loc(), "a valid header is refused")
                else:
                    ctx.check(bool(rej) and not acc, "R12.1", inst, csh.loc(),
                              "a stream whose header has %s is accepted" %
                              ("fewer than %d bytes" % hsize if size < hsize else
                               "the wrong magic" if not magic_ok else "version %d" % ver))
    lo = prog.fn("load_obs", STREAMC)
    ex = absint.Explorer(prog, effects=eff, summaries={
        "check_stream_header": lambda ex_, st, args, f, e: [(INT(-1), {})],
        "open": lambda ex_, st, args, f, e: [(INT(5), {})],
        "load_stream_fd": lambda ex_, st, args, f, e: [(INT(0), {})]})
    outs = ex.run(lo, [PTR("ST"), ("str", "p")], {("ST", F("stream", "active")): INT(0)})
    ctx.check(outs and all(o.kind == "ret" and o.ret != INT(0) and o.store.get(("ST", F("stream", "active"))) != INT(1)
                           for o in outs if o.kind == "ret"), "R12.1", "load_obs:bad-header-fails", lo.loc(),
              "load_obs succeeds or activates the stream although its header is bad")
    lsf = prog.fn("load_stream_fd", STREAMC)

    def s_fstat(ex_, st, args, f, e):
        a = args[1]
        return [(INT(0), {(a[1], a[2] + F("stat", "st_size")): INT(0)})] if a[0] == "ptr" else [(INT(0), {})]
    ex = absint.Explorer(prog, effects=eff, summaries={"fstat": s_fstat})
    outs = ex.run(lsf, [PTR("ST"), INT(5)], {})
    ctx.check(outs and not [o for o in outs if o.kind == "ret" and o.ret == INT(0)], "R12.1",
              "load_stream_fd:empty-file-fails", lsf.loc(), "an empty stream file is accepted")
    propagate(csh, "R12.1", "header")

    # ---- R12.2 ---------------------------------------------------------------------------
    ss = prog.fn("stream_step", STREAMC)
    inl = {f.name for f in prog.fns_in(STREAMC)} | {"ovni_ev_size", "ovni_payload_size", "get_jumbo_payload_size",
                                                    "ovni_ev_get_clock"}
    for unsorted in (0, 1):
        ex = absint.Explorer(prog, effects=eff, inline=lambda n, d: n in inl and d.name != "stream_step",
                             loop_bound=2, max_depth=5, symbolic_roots=("BUF",),
                             symbolic_ranges={"unsigned long": (0, 2 ** 61)})
        S = ex.sym("size", 8, 2 ** 31 - 1)
        off = ex.sym("off", 8, 2 ** 31 - 1)
        L = ex.sym("lastclock", -2 ** 61, 2 ** 61)
        K = ex.sym("clkoff", -2 ** 60, 2 ** 60)
        store = {("ST", F("stream", "active")): INT(1), ("ST", F("stream", "size")): S,
                 ("ST", F("stream", "offset")): off, ("ST", F("stream", "buf")): PTR("BUF", (0,)),
                 ("ST", F("stream", "cur_ev")): NULL, ("ST", F("stream", "unsorted")): INT(unsorted),
                 ("ST", F("stream", "lastclock")): L, ("ST", F("stream", "clock_offset")): K}
        outs = ex.run(ss, [PTR("ST")], store, cons=(((("off", 1), ("size", -1)), -1),))
        acc = [o for o in outs if o.kind == "ret" and o.ret == INT(0)]
        ctx.need(acc, "stream_step: no accepting path (unsorted=%d)" % unsorted)
        bad = 0
        for o in acc:
            new = o.store.get(("ST", F("stream", "lastclock")))
            ln = to_lin(new) if new else None
            if ln is None:
                bad += 1
                continue
            t = dict(ln[1])
            t["lastclock"] = t.get("lastclock", 0) - 1
            if ex.decide_cmp(o.cons, ">=", ln[0], {k: c for k, c in t.items() if c}) is not True:
                bad += 1
        if unsorted == 0:
            ctx.check(bad == 0, "R12.2", "stream_step:sorted:clock-never-decreases", ss.loc(),
                      "an event whose corrected clock is lower than the previous one of its stream can be accepted "
                      "(%d of %d accepting paths)" % (bad, len(acc)))
        else:
            ctx.ok("R12.2", "stream_step:unsorted:allowed", ss.loc(), "unsorted streams skip the test by design",
                   nontrivial=False)
    # ---- R12.7: a cut trailing event is not an end of stream --------------------------------------
    ex7 = absint.Explorer(prog, effects=eff, inline=lambda n, d: n in inl and d.name != "stream_step",
                          loop_bound=2, max_depth=5, symbolic_roots=("BUF",),
                          symbolic_ranges={"unsigned long": (0, 2 ** 61)})
    S7 = ex7.sym("size", 8, 2 ** 31 - 1)
    off7 = ex7.sym("off", 8, 2 ** 31 - 1)
    store7 = {("ST", F("stream", "active")): INT(1), ("ST", F("stream", "size")): S7,
              ("ST", F("stream", "offset")): off7, ("ST", F("stream", "buf")): PTR("BUF", (0,)),
              ("ST", F("stream", "cur_ev")): PTR("BUF", (off7,)), ("ST", F("stream", "unsorted")): INT(0),
              ("ST", F("stream", "lastclock")): ex7.sym("lastclock", -2 ** 61, 2 ** 61),
              ("ST", F("stream", "clock_offset")): INT(0)}
    # the current event's header lies inside the stream (it was accepted by the previous step)
    outs7 = ex7.run(ss, [PTR("ST")], store7, cons=(((("off", 1), ("size", -1)), -12),))
    ends = [o for o in outs7 if o.kind == "ret" and o.ret is not None and o.ret[0] == "int" and o.ret[1] > 0]
    ctx.need(ends, "stream_step: no end-of-stream path explored")
    bad7 = 0
    for o in ends:
        new = to_lin(o.store.get(("ST", F("stream", "offset")), TOP))
        if new is None:
            bad7 += 1
            continue
        t = dict(new[1])
        t["size"] = t.get("size", 0) - 1
        if ex7.decide_cmp(o.cons, "==", new[0], {k: c for k, c in t.items() if c}) is not True:
            bad7 += 1
    ctx.check(bad7 == 0, "R12.7", "stream_step:end-only-at-exact-size", ss.loc(),
              "stream_step can report a normal end of stream while bytes remain after the last complete event "
              "(%d of %d end-of-stream paths): a trace cut inside an event would be accepted" % (bad7, len(ends)))

    ws = sorted({f.name for f, n in eff.writers_of_field("stream", "unsorted")})
    ctx.check(ws == ["stream_allow_unsorted"], "R12.2", "stream.unsorted:single-writer", STREAMC,
              "stream->unsorted is written by %s" % ws)
    pi = prog.fn("player_init", "src/emu/player.c")
    for uns in (0, 1):
        called = []
        ex = absint.Explorer(prog, effects=eff, loop_bound=3, summaries={
            "stream_allow_unsorted": lambda ex_, st, args, f, e, called=called: (called.append(1), [(TOP, {})])[1]})
        ex.run(pi, [PTR("PL"), PTR("TR"), INT(uns)], {("TR", F("trace", "streams")): PTR("S1"),
                                                      ("S1", F("stream", "next")): NULL})
        if uns == 0:
            ctx.check(not called, "R12.2", "player_init:sorted-keeps-check", pi.loc(),
                      "player_init(unsorted=0) disables the per-stream clock check")
    ei = prog.fn("emu_init", "src/emu/emu.c")
    sites = ei.calls("player_init")
    ctx.need(sites, "emu_init no longer calls player_init")
    for c in sites:
        v = ei.val(ei.nodes[c]["args"][2])
        ctx.check(v == 0, "R12.2", "emu_init:player-sorted", ei.loc(c),
                  "the emulator initialises its player with unsorted=%s" % v)
    uc = prog.fn("update_clocks", "src/emu/player.c")
    for (last, sclock, uns) in ((10, 9, 0), (10, 10, 0), (10, 11, 0), (10, 9, 1)):
        ex = absint.Explorer(prog, effects=eff, summaries={
            "stream_lastclock": lambda ex_, st, args, f, e, s=sclock: [(INT(s), {})]})
        outs = ex.run(uc, [PTR("PL"), PTR("S1")], {("PL", F("player", "first_event")): INT(0),
                                                   ("PL", F("player", "lastclock")): INT(last),
                                                   ("PL", F("player", "unsorted")): INT(uns),
                                                   ("PL", F("player", "firstclock")): INT(0)})
        acc = [o for o in outs if o.kind == "ret" and o.ret == INT(0)]
        inst = "update_clocks:last=%d:next=%d:unsorted=%d" % (last, sclock, uns)
        if sclock < last and not uns:
            ctx.check(not acc, "R12.2", inst, uc.loc(), "a backwards jump between streams is accepted")
        else:
            # refusing a legal step is C02's business (R2.6), not a failure to reject an invalid trace
            ctx.ok("R12.2", inst, uc.loc(), "legal step: %s" % ("accepted" if acc else "refused (see C02 R2.6)"),
                   nontrivial=False)
    propagate(ss, "R12.2", "step")

    # ---- R12.3 --------------------------------------------------------------------------------
    lj = prog.fn("load_json", STREAMC)
    ex = absint.Explorer(prog, effects=eff, summaries={
        "json_parse_file_with_comments": lambda ex_, st, args, f, e: [(NULL, {})]})
    outs = ex.run(lj, [("str", "p")], {})
    ctx.check(outs and all(o.ret == NULL for o in outs if o.kind == "ret"), "R12.3", "load_json:unparsable", lj.loc(),
              "a metadata file that cannot be parsed is accepted")
    ex = absint.Explorer(prog, effects=eff, summaries={
        "json_parse_file_with_comments": lambda ex_, st, args, f, e: [(PTR("V"), {})],
        "json_value_get_object": lambda ex_, st, args, f, e: [(PTR("M"), {})],
        "check_version": lambda ex_, st, args, f, e: [(INT(-1), {})]})
    outs = ex.run(lj, [("str", "p")], {})
    ctx.check(outs and all(o.ret == NULL for o in outs if o.kind == "ret"), "R12.3", "load_json:version-checked",
              lj.loc(), "load_json ignores a failing metadata version check")
    cv = prog.fn("check_version", STREAMC)
    mv = None
    for n in cv.nodes:
        if "OVNI_METADATA_VERSION" in n.get("m", ()) and "v" in n:
            mv = n["v"]
    ctx.need(mv is not None, "cannot find OVNI_METADATA_VERSION in check_version")
    for v in (mv - 1, mv, mv + 1, None):
        ex = absint.Explorer(prog, effects=eff, summaries={
            "json_object_get_value": lambda ex_, st, args, f, e, v=v: [((NULL if v is None else PTR("VV")), {})],
            "json_number": lambda ex_, st, args, f, e, v=v: [(INT(v or 0), {})],
            "json_value_get_number": lambda ex_, st, args, f, e, v=v: [(INT(v or 0), {})]})
        outs = ex.run(cv, [PTR("M")], {})
        acc = [o for o in outs if o.kind == "ret" and o.ret == INT(0)]
        inst = "check_version:%s" % ("missing" if v is None else v)
        if v == mv:
            ctx.check(bool(acc), "R12.3", inst, cv.loc(), "the supported metadata version is refused")
        else:
            ctx.check(not acc, "R12.3", inst, cv.loc(), "metadata version %s is accepted (supported: %d)" % (v, mv))
    mandatory = [("check_version", STREAMC, "json_object_get_value", "version", NULL),
                 ("is_thread_stream", "src/emu/system.c", "json_object_dotget_string", "ovni.part", NULL),
                 ("loom_name", "src/emu/loom.c", "json_object_dotget_string", "ovni.loom", NULL),
                 ("proc_stream_get_pid", "src/emu/proc.c", "json_object_dotget_number", "ovni.pid", INT(0)),
                 ("thread_stream_get_tid", "src/emu/thread.c", "json_object_dotget_number", "ovni.tid", INT(0)),
                 ("should_enable", "src/emu/model.c", "json_object_dotget_object", "ovni.require", NULL),
                 ("thread_load_metadata", "src/emu/thread.c", "json_object_dotget_number", "ovni.finished", INT(0))]
    GETFAM = ("json_object_get_value", "json_object_dotget_value", "json_object_dotget_string",
              "json_object_dotget_number", "json_object_dotget_object", "json_object_get_string",
              "json_object_get_number", "json_object_get_object", "json_object_dotget_array")
    for (fname, file, getter, key, missing) in mandatory:
        fn = prog.fn(fname, file)
        # the lookup may sit in the function itself or in a private static helper of it
        priv_ = prog.helper_closure({fname}, file)
        cands_ = [fn] + [g for g in prog.reachable_fns([fn]) if g is not fn and g.file == file and g.name in priv_]
        found_ = [(g, i) for g in cands_ for i in g.calls()
                  if g.nodes[i].get("callee") in GETFAM and len(g.nodes[i]["args"]) > 1 and
                  g.nodes[g.strip(g.nodes[i]["args"][1])].get("s") == key]
        inst = "mandatory:%s@%s" % (key, fname)
        if not found_:
            ctx.fail("R12.3", inst, fn.loc(), "%s no longer reads '%s'" % (fname, key))
            continue
        site_fn, site0 = found_[0]
        site = [site0]
        got_ = site_fn.nodes[site0].get("callee")
        if got_ != getter:
            missing = NULL if (prog.decls.get(got_) or [{"ret": "*"}])[0]["ret"].rstrip().endswith("*") else INT(0)

        def unk(cal, args, f_, e, site=site[0], fn=site_fn, missing=missing):
            if f_ is fn and e == site:
                return [missing]
            d = prog.decls.get(cal) if cal else None
            if d and d[0]["ret"].rstrip().endswith("*"):
                return [NULL, PTR("ret:" + str(cal))]
            return None
        ex = absint.Explorer(prog, effects=eff, on_unknown_call=unk, loop_bound=2)
        outs = ex.run(fn, [PTR("A%d" % k) for k in range(len(fn.params))],
                      {("A2", F("thread", "meta")): PTR("META"), ("A0", F("thread", "meta")): NULL})
        hit = [o for o in outs if any(ev[0] == "call" and ev[4] == site[0] and ev[3] == site_fn.key for ev in o.events)]
        good = bool(hit) and all(o.kind == "die" or (o.kind == "ret" and o.ret is not None and
                                                     ((o.ret[0] == "int" and o.ret[1] < 0) or o.ret == NULL))
                                 for o in hit)
        ctx.check(good, "R12.3", inst, site_fn.loc(site[0]),
                  "%s does not fail when '%s' is missing from the metadata" % (fname, key))
        propagate(fn, "R12.3", key)

    # the requirement list of *every* stream is validated, not only of the first one that needs the model
    # (same evaluation as C14 R14.3)
    from rules.C14 import probe_class
    mvp = prog.fn("model_version_probe", "src/emu/model.c")
    for script in ((1, -1), (0, -1), (-1, 1), (1, 1, -1), (1, 0, -1)):
        got = probe_class(prog, eff, script)
        ctx.check(got == "neg", "R12.3", "require:every-stream-validated:%s" % (list(script),), mvp.loc(),
                  "with per-stream requirement checks %s (-1 = malformed or incompatible ovni.require entry) the model "
                  "probe returns %s instead of failing: a stream with bad metadata is accepted" % (list(script), got))

    # ---- R12.4 unknown events (the 'handled-is-declared' half of C18 R18.1) ------------------------------
    ctx.rule("R12.4", "no model's handler accepts an event code that its catalogue does not declare (the dispatch of "
             "each model interpreted over all 65 536 (category, value) pairs; same evaluation as C18 R18.1)")
    from rules import C18 as _c18
    from ovsa.engine import Ctx as _Ctx
    sub18 = _Ctx("C18", prog, ctx.root, "quick")
    from rules.round3 import run_lender as _run_lender
    _run_lender(_c18, sub18, ctx)
    n124 = 0
    for i_ in sub18.instances:
        if i_["rule"] != "R18.1" or not i_["inst"].endswith("handled-is-declared"):
            continue
        n124 += 1
        if i_["ok"]:
            ctx.ok("R12.4", "unknown-event:" + i_["inst"], i_["where"])
        else:
            ctx.fail("R12.4", "unknown-event:" + i_["inst"], i_["where"], i_["what"] + ": an unknown event is not rejected")

    # ---- R12.5 -----------------------------------------------------------------------------------
    ee = prog.fn("emu_ev", "src/emu/emu_ev.c")
    rec = prog.records["emu_ev"]
    STALE = ("val", "stale-from-previous-event")
    flat = []
    for fld in rec["fields"]:
        if fld["name"] == "":
            continue
        flat.append(fld["name"])
    # members of the anonymous union/struct are flattened by the extractor
    names = ["m", "c", "v", "rclock", "sclock", "dclock", "has_payload", "payload_size", "is_jumbo", "payload"]
    ctx.need(all(any(n["k"] == "MemberExpr" and n.get("rec") == "emu_ev" and n["field"] == x for n in ee.nodes)
                 or x in ("is_jumbo", "has_payload", "payload") for x in names), "emu_ev(): field names changed")
    for psize in (0, 8):
        for jumbo in (0, 1):
            if psize == 0 and jumbo:
                continue
            ex = absint.Explorer(prog, effects=eff, summaries={
                "ovni_payload_size": lambda ex_, st, args, f, e, p=psize: [(INT(p), {})]})
            store = {("EV", F("emu_ev", x)): STALE for x in names}
            store[("EV", F("emu_ev", "mcv") + (3,))] = STALE
            HD = F("ovni_ev", "header")
            store[("OEV", HD + F("ovni_ev_header", "flags"))] = INT((0x10 if jumbo else 0) | (psize - 1 if psize and not jumbo else 3 if jumbo else 0))
            for x in ("model", "category", "value"):
                store[("OEV", HD + F("ovni_ev_header", x))] = INT(65)
            store[("OEV", HD + F("ovni_ev_header", "clock"))] = INT(1000)
            outs = [o for o in ex.run(ee, [PTR("EV"), PTR("OEV"), INT(5), INT(6)], store) if o.kind in ("ret", "exit")]
            ctx.need(outs, "emu_ev: no path explored")
            for x in names:
                stale = [o for o in outs if o.store.get(("EV", F("emu_ev", x))) == STALE]
                inst = "emu_ev:%s:payload=%d:jumbo=%d" % (x, psize, jumbo)
                ctx.check(not stale, "R12.5", inst, ee.loc(),
                          "field '%s' of the decoded event keeps the value of the previous event when the new event "
                          "has %s" % (x, ("no payload" if psize == 0 else
                                          "a jumbo payload" if jumbo else "a normal payload")))
            # and the values that matter are the right ones
            for o in outs:
                want_j = INT(1 if jumbo else 0)
                if o.store.get(("EV", F("emu_ev", "is_jumbo"))) not in (want_j, STALE):
                    ctx.fail("R12.5", "emu_ev:is_jumbo-value:payload=%d:jumbo=%d" % (psize, jumbo), ee.loc(),
                             "is_jumbo is %s for an event whose jumbo flag is %d" %
                             (o.store.get(("EV", F("emu_ev", "is_jumbo"))), jumbo))

    # ---- R12.6 ---------------------------------------------------------------------------------------
    from rules.C18 import payload_reads
    ms = models.discover(prog)
    nchk = 0
    for m in ms:
        evfn = prog.fn(m.hooks["event"])
        short = {}
        declared = {}
        for e in m.events:
            if e.parsed is None or e.parsed["jumbo"] or e.parsed["payload_size"] == 0:
                continue
            p = dispatch.pair(e.mcv[1], e.mcv[2])
            short[p] = (e.parsed["payload_size"] - 1, 0)
            declared[p] = e
        if not short:
            continue
        d = dispatch.Dispatch(prog, mchar=m.char, shape=short)
        d.explore(evfn, frozenset(short))
        for p, e in sorted(declared.items()):
            nchk += 1
            ctx.ok("R12.6", "%s:%s:short-by-one:explored" % (m.name, e.mcv), evfn.loc(),
                   "payload %d of %d bytes" % (short[p][0], short[p][0] + 1))
        for fkey in sorted(d.visited_fns):
            f = prog.functions[fkey]
            for node, offb, size in payload_reads(f):
                if f.in_macro(node, "dbg") or offb is None:
                    continue
                pos = f.where_up(node)
                if pos is None:
                    continue
                for p in sorted(d.reach.get((fkey, pos[0]), ())):
                    e = declared.get(p)
                    if e is None:
                        continue
                    have = short[p][0]
                    ctx.check(offb + size <= have, "R12.6", "%s:%s:short-by-one:%s@%s" % (m.name, e.mcv, f.src(node), f.name),
                              f.loc(node), "%s with %d payload bytes (declared %d) still reaches the read of bytes "
                              "[%d,%d)" % (e.mcv, have, have + 1, offb, offb + size))
    ctx.check(nchk >= 8, "R12.6", "short-payload:checked", "src/emu", "only %d (event, read) pairs checked" % nchk)
    # wrong payload sizes for the events whose size the model checks: with ev->payload_size bound to each of
    # 0,2,4,8,12,16 the set of sizes an event can be accepted with must not grow beyond the reference tree's
    # (spec/C12_sizes.json): a size the model refused stays refused
    import json as _json
    import os as _os
    from ovsa.facts import VERIF as _V
    with open(_os.path.join(_V, "spec", "C12_sizes.json")) as fh:
        frozen = _json.load(fh)
    nsz = 0
    for m in ms:
        tab = frozen["models"].get(m.name, {})
        if not tab:
            continue
        evfn = prog.fn(m.hooks["event"])
        pairs = {dispatch.pair(e.mcv[1], e.mcv[2]): e for e in m.events if e.mcv in tab}
        ctx.need(len(pairs) == len(tab), "%s: an event of the frozen size table is no longer declared" % m.name)
        acc_now = {p: set() for p in pairs}
        for sz in frozen["sizes"]:
            dsz = dispatch.Dispatch(prog, mchar=m.char, shape={p: (sz, 0) for p in pairs})
            rsz = dsz.explore(evfn, frozenset(pairs))
            for p in pairs:
                if p in rsz.ok:
                    acc_now[p].add(sz)
        for p, e in sorted(pairs.items()):
            nsz += 1
            extra = sorted(acc_now[p] - set(tab[e.mcv]))
            ctx.check(not extra, "R12.6", "%s:%s:wrong-sizes-refused" % (m.name, e.mcv), evfn.loc(),
                      "%s (declared payload %d bytes) is now accepted with a payload of %s bytes; the model refused "
                      "those sizes (accepted: %s)" % (e.mcv, e.parsed["payload_size"], extra, tab[e.mcv]))
    ctx.need(nsz >= 10, "R12.6: only %d size-checked events evaluated" % nsz)


_run_base = run


def run(ctx):
    _run_base(ctx)
    prog = ctx.prog
    ctx.rule("R12.8", "no event is dropped on the way to the models: only the stream reader (stream.c) moves a "
             "stream's cursor or ends it, so a stream the system does not know is still delivered and refused; a "
             "model that refuses a required version makes the emulator fail (the failure of model_version_probe is "
             "followed to main's exit status)")
    from rules import round3
    round3.check_stream_cursor_owner(ctx, "R12.8")
    round3.check_probe_failure_propagates(ctx, "R12.8")
    ctx.rule("R12.9", "the mandatory application id: proc_init_end refuses a process whose streams carried no "
             "ovni.app_id (0) or an invalid one")
    from rules import round5
    round5.check_appid_required(ctx, "R12.9")
    ctx.rule("R12.10", "rank information is complete or refused: a stream with ovni.rank but without ovni.nranks fails "
             "(C15 R15.4's load_rank instances)")
    from rules import round6
    round6.share(ctx, "R12.10", "C15", lambda i_: i_["rule"] == "R15.4" and i_["inst"].startswith("load_rank"), "rank:",
                 "a stream that lost the mandatory ovni.nranks key is accepted", 4)
    ctx.rule("R12.11", "the mandatory library attributes are demanded of every thread stream, not only of the first: "
             "report_libovni_version fails when ovni.lib.version, ovni.lib.commit or the metadata itself is missing in the "
             "first, second or third of three threads (9 cases) and succeeds on complete metadata")
    from rules import round8
    round8.check_lib_version_mandatory_everywhere(ctx, "R12.11")

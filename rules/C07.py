"""C07 — task/body life-cycle.

R7.1 body FSM extracted from body.c equals the documented FSM (all consistent abstract states)
R7.2 only body.c writes struct body, only the five life-cycle functions write its state
R7.3 flag plumbing: task flags -> body flags; per-model task creation flags; body-id rule
R7.4 event -> operation mapping in both task models; task_* reaches the matching body_*
R7.5 channel sets of running / stopped / switch agree and are fed from the matching fields
"""
import itertools
import json
import os

from ovsa import absint, effects, errflow
from ovsa.absint import INT, NULL, PTR, TOP
from ovsa.facts import VERIF

BODYC = "src/emu/body.c"
TASKC = "src/emu/task.c"


def F(rec, field):
    return ((rec, field),)


def spec():
    with open(os.path.join(VERIF, "spec", "C07.json")) as f:
        return json.load(f)


def unk_ptr(prog):
    def unk(cal, args, f, e):
        d = prog.decls.get(cal) if cal else None
        if d and d[0]["ret"].rstrip().endswith("*"):
            return [NULL, PTR("ret:" + cal)]
        return None
    return unk


def run(ctx):
    prog = ctx.prog
    reg = errflow.Registry(prog)
    sp = spec()
    eff = effects.Effects(prog)
    E = prog.enum_val
    ctx.rule("R7.1", "body_execute/pause/resume/end accept exactly as the documented body state machine says, on "
             "every consistent combination of (body state, PAUSE/RESURRECT flags, body's stack, stack top and "
             "its state/relax flag), and accepting paths leave state, stack membership and stack top as "
             "documented")
    ctx.rule("R7.2", "struct body is written only inside body.c and its state field only by body_create, "
             "body_execute, body_pause, body_resume, body_end")
    ctx.rule("R7.3", "create_body maps task flags to body flags one-to-one and gives a non-parallel task one body; "
             "nOS-V creates parallel tasks with PARALLEL only and others with RESURRECT|PAUSE; Nanos6 tasks get "
             "PAUSE|RELAX_NESTING; nOS-V body ids: 0 iff non-parallel")
    ctx.rule("R7.4", "task events x/e/p/r map to task_execute/end/pause/resume in nOS-V and Nanos6, which reach "
             "body_execute/end/pause/resume on the thread's own stack")
    ctx.rule("R7.5", "the channels set when a body starts running, nulled when it stops and set on a switch are "
             "the same set, each fed from the matching task/body/process field")

    ST = {n: E("BODY_ST_" + n) for n in ("CREATED", "RUNNING", "PAUSED", "DEAD")}
    ctx.need({n for n, v in prog.enums["body_state"]["enumerators"]} == {"BODY_ST_CREATED", "BODY_ST_RUNNING", "BODY_ST_PAUSED", "BODY_ST_DEAD", "BODY_ST_MAX"}, "enum body_state changed; review the frozen FSM")
    BF = {n: E("BODY_FLAG_" + n) for n in ("PAUSE", "RESURRECT", "RELAX_NESTING")}
    K = lambda fld: ("B", F("body", fld))
    TOPK = ("S", F("body_stack", "top"))
    ex = absint.Explorer(prog, effects=eff, inline=lambda n, d: d.file == BODYC, on_unknown_call=unk_ptr(prog))

    # ---- R7.1 -----------------------------------------------------------------
    tops = ["none", "self-alone", "self-over-other", "other-running-relaxed", "other-running-strict", "other-paused"]
    ops = {"execute": prog.fn("body_execute", BODYC), "pause": prog.fn("body_pause", BODYC),
           "resume": prog.fn("body_resume", BODYC), "end": prog.fn("body_end", BODYC)}
    for op, fn in ops.items():
        for state in ST:
            for (fp, fr) in itertools.product((0, 1), repeat=2):
                for stack in ("none", "this", "other"):
                    for top in tops:
                        # consistency of the abstract state
                        if state in ("CREATED", "DEAD") and (stack != "none" or top.startswith("self")):
                            continue
                        if state in ("RUNNING", "PAUSED") and stack == "none":
                            continue
                        if stack == "this" and top == "none":
                            continue
                        if stack == "other" and top.startswith("self"):
                            continue
                        store = {K("state"): INT(ST[state]),
                                 K("flags"): INT((BF["PAUSE"] if fp else 0) | (BF["RESURRECT"] if fr else 0)),
                                 K("stack"): {"none": NULL, "this": PTR("S"), "other": PTR("S2")}[stack],
                                 K("iteration"): INT(0)}
                        if top == "none":
                            store[TOPK] = NULL
                        elif top == "self-alone":
                            store[TOPK] = PTR("B")
                            store[K("next")] = NULL
                            store[K("prev")] = PTR("B")
                        elif top == "self-over-other":
                            store[TOPK] = PTR("B")
                            store[K("next")] = PTR("O")
                            store[K("prev")] = PTR("O")
                            store[("O", F("body", "next"))] = NULL
                            store[("O", F("body", "prev"))] = PTR("B")
                            store[("O", F("body", "state"))] = INT(ST["PAUSED"])
                            store[("O", F("body", "stack"))] = PTR("S")
                        else:
                            store[TOPK] = PTR("O")
                            store[("O", F("body", "state"))] = INT(ST["RUNNING"] if "running" in top else ST["PAUSED"])
                            store[("O", F("body", "flags"))] = INT(BF["RELAX_NESTING"] if "relaxed" in top else 0)
                            store[("O", F("body", "next"))] = PTR("B") if stack == "this" else NULL
                            store[("O", F("body", "prev"))] = PTR("B") if stack == "this" else PTR("O")
                            store[("O", F("body", "stack"))] = PTR("S")
                            if stack == "this":
                                store[K("next")] = NULL
                                store[K("prev")] = PTR("O")
                        is_top = top.startswith("self")
                        top_running = (top.startswith("other-running")) or (is_top and state == "RUNNING")
                        top_relaxed = top == "other-running-relaxed"
                        if op == "execute":
                            should = (state == "CREATED" or (state == "DEAD" and fr)) and stack == "none" and \
                                (not top_running or top_relaxed)
                            post_state = "RUNNING"
                        elif op == "pause":
                            should = bool(fp) and state == "RUNNING" and stack == "this" and is_top
                            post_state = "PAUSED"
                        elif op == "resume":
                            should = state == "PAUSED" and stack == "this" and is_top
                            post_state = "RUNNING"
                        else:
                            should = state == "RUNNING" and stack == "this" and is_top
                            post_state = "DEAD"
                        outs = ex.run(fn, [PTR("S"), PTR("B")], store)
                        rets = [o for o in outs if o.kind == "ret"]
                        ctx.need(rets and all(o.ret and o.ret[0] == "int" for o in rets),
                                 "body_%s: return value cannot be evaluated" % op)
                        acc = [o for o in rets if o.ret[1] == 0]
                        inst = "%s:%s:pause=%d:resurrect=%d:stack=%s:top=%s" % (op, state, fp, fr, stack, top)
                        if should and not acc:
                            ctx.fail("R7.1", inst, fn.loc(), "documented transition is rejected on every path")
                            continue
                        if not should and acc:
                            ctx.fail("R7.1", inst, fn.loc(), "undocumented transition accepted (body ends in state %s)"
                                     % (acc[0].store.get(K("state")),))
                            continue
                        if not should:
                            ctx.ok("R7.1", inst, fn.loc(), "rejected")
                            continue
                        bad = []
                        for o in acc:
                            if o.store.get(K("state")) != INT(ST[post_state]):
                                bad.append("body state ends as %s, expected %s" % (o.store.get(K("state")), post_state))
                            if op == "execute":
                                if o.store.get(K("stack")) != PTR("S"):
                                    bad.append("body is not bound to the executing thread's stack")
                                if o.store.get(TOPK) != PTR("B"):
                                    bad.append("body is not pushed on top of the stack")
                                if state == "DEAD" and o.store.get(K("iteration")) != INT(1):
                                    bad.append("iteration not incremented on resurrection")
                            elif op == "end":
                                if o.store.get(K("stack")) != NULL:
                                    bad.append("dead body keeps its stack pointer (could never run again / runs twice)")
                                if o.store.get(TOPK) == PTR("B"):
                                    bad.append("dead body stays on top of the stack")
                                if top == "self-over-other" and o.store.get(TOPK) != PTR("O"):
                                    bad.append("the body underneath does not become the top")
                            else:
                                if o.store.get(K("stack")) != PTR("S") or o.store.get(TOPK) != PTR("B"):
                                    bad.append("pause/resume changes stack membership")
                        ctx.check(not bad, "R7.1", inst, fn.loc(), "; ".join(sorted(set(bad))))
    # NULL body is refused by all four
    for op, fn in ops.items():
        outs = ex.run(fn, [PTR("S"), NULL], {})
        ctx.check(not [o for o in outs if o.kind == "ret" and o.ret == INT(0)], "R7.1", op + ":null-body",
                  fn.loc(), "a NULL body is accepted")

    # ---- R7.2 ---------------------------------------------------------------------
    rec = prog.records.get("body")
    ctx.need(rec is not None, "struct body not found")
    allowed_state = {"body_create", "body_execute", "body_pause", "body_resume", "body_end"}
    for fld in rec["fields"]:
        ws = eff.writers_of_field("body", fld["name"])
        outside = sorted({"%s (%s)" % (f.name, f.file) for f, n in ws if f.file != BODYC})
        ctx.check(not outside, "R7.2", "body.%s:written-only-in-body.c" % fld["name"], BODYC,
                  "struct body field %s is written outside body.c by %s" % (fld["name"], outside))
    ws = {f.name for f, n in eff.writers_of_field("body", "state")}
    ctx.check(ws <= allowed_state and ws, "R7.2", "body.state:writers", BODYC,
              "body.state is written by %s; only %s may" % (sorted(ws - allowed_state), sorted(allowed_state)))
    ctx.check(rec["file"] == BODYC, "R7.2", "struct-body-private", "%s:%d" % (rec["file"], rec["line"]),
              "struct body is no longer private to body.c")

    # ---- R7.3 create_body -----------------------------------------------------------
    cb = prog.fn("create_body", TASKC)
    TF = {n: E("TASK_FLAG_" + n) for n in ("PARALLEL", "RESURRECT", "PAUSE", "RELAX_NESTING")}
    flagmap = {"RESURRECT": "RESURRECT", "PAUSE": "PAUSE", "RELAX_NESTING": "RELAX_NESTING"}
    for bits in itertools.product((0, 1), repeat=4):
        tf = sum(TF[n] for n, b in zip(("PARALLEL", "RESURRECT", "PAUSE", "RELAX_NESTING"), bits) if b)
        for nb in (0, 1):
            got = []

            def s_bc(ex_, st, args, f, e, got=got):
                got.append(args[3])
                return [(PTR("NEWBODY"), {})]
            e2 = absint.Explorer(prog, effects=eff, inline=lambda n, d: d.file == TASKC and n == "task_is_parallel",
                                 summaries={"body_create": s_bc})
            outs = e2.run(cb, [PTR("TASK"), INT(1)], {("TASK", F("task", "flags")): INT(tf),
                                                      ("TASK", F("task", "nbodies")): INT(nb)})
            acc = [o for o in outs if o.kind == "ret" and o.ret == PTR("NEWBODY")]
            inst = "create_body:taskflags=%d:nbodies=%d" % (tf, nb)
            if not bits[0] and nb > 0:
                ctx.check(not acc, "R7.3", inst, cb.loc(), "a non-parallel task gets a second body")
                continue
            want = sum(BF[flagmap[n]] for n, b in zip(("PARALLEL", "RESURRECT", "PAUSE", "RELAX_NESTING"), bits)
                       if b and n in flagmap)
            good = bool(acc) and got and all(g == INT(want) for g in got) and \
                all(o.store.get(("TASK", F("task", "nbodies"))) == INT(nb + 1) for o in acc)
            ctx.check(good, "R7.3", inst, cb.loc(),
                      "task flags %d give body flags %s (expected %d) or nbodies is not incremented" % (tf, got, want))

    # ---- per model ---------------------------------------------------------------------
    for model, mchar in (("nosv", "V"), ("nanos6", "6")):
        evfile = "src/emu/%s/event.c" % model
        msp = sp[model]
        # R7.3 creation flags
        ct = prog.fn("create_task", evfile)
        for v in msp["create_values"]:
            got = []

            def s_tc(ex_, st, args, f, e, got=got):
                got.append(args[3])
                return [(INT(0), {})]
            e3 = absint.Explorer(prog, effects=eff, summaries={"task_create": s_tc}, on_unknown_call=unk_ptr(prog))
            store = {("EMU", F("emu", "ev")): PTR("EV"), ("EV", F("emu_ev", "payload_size")): INT(8),
                     ("EV", F("emu_ev", "v")): INT(ord(v)), ("EV", F("emu_ev", "payload")): PTR("PL")}
            args = [PTR("EMU")] + ([INT(ord(v))] if len(ct.params) > 1 else [])
            outs = e3.run(ct, args, store)
            want = sum(TF[n] for n in msp["create_values"][v])
            ctx.check(bool(got) and all(g == INT(want) for g in got), "R7.3",
                      "%s:create_task:%s" % (model, v), ct.loc(),
                      "%s task creation '%s' passes flags %s, documented %s (%d)" %
                      (model, v, got, "|".join(msp["create_values"][v]), want))
        # R7.4 mapping and body-id rule
        opmap = {"x": "task_execute", "e": "task_end", "p": "task_pause", "r": "task_resume"}
        # the function that calls task_execute/... ; entered through the nearest caller whose only
        # parameter is the emulator, so that extra parameters of the static helpers do not matter
        cands = [g for g in prog.fns_in(evfile) if any(g.all_calls_syntactic(n_) for n_ in opmap.values())]
        ctx.need(len(cands) >= 1, "%s: no function calls task_execute/end/pause/resume" % evfile)
        uts = cands[0]
        hops = 0
        while [p_["ctype"] for p_ in uts.params] != ["struct emu *"] and hops < 4:
            cs_ = {c.key: c for (c, n_) in reg.call_sites(uts) if c.file == evfile}
            ctx.need(len(cs_) == 1, "%s: cannot find a stable entry above %s" % (evfile, uts.name))
            uts = list(cs_.values())[0]
            hops += 1
        for v, want_fn in opmap.items():
            for par in ((0, 1) if msp["body_id_rule"] else (0,)):
                for bid in ((0, 1, 2) if msp["body_id_rule"] else (0,)):
                    called = []

                    def mk(name):
                        def s(ex_, st, args, f, e):
                            called.append((name, args))
                            return [(INT(0), {})]
                        return s
                    sums = {n: mk(n) for n in opmap.values()}
                    sums["task_find"] = lambda ex_, st, args, f, e: [(PTR("TASK"), {})]
                    sums["extend_get"] = lambda ex_, st, args, f, e: [(PTR("EXT"), {})]
                    e4 = absint.Explorer(prog, effects=eff, summaries=sums, on_unknown_call=unk_ptr(prog),
                                         inline=lambda n, d: n in ("task_is_parallel", "task_get_id"))
                    store = {("EMU", F("emu", "ev")): PTR("EV"), ("EV", F("emu_ev", "payload_size")): INT(8),
                             ("EV", F("emu_ev", "v")): INT(ord(v)), ("EV", F("emu_ev", "payload")): PTR("PL"),
                             ("PL", F("ovni_ev_payload", "u32") + (0,)): INT(77),
                             ("PL", F("ovni_ev_payload", "u32") + (1,)): INT(bid),
                             ("TASK", F("task", "flags")): INT(TF["PARALLEL"] if par else 0),
                             ("EMU", F("emu", "thread")): PTR("TH"), ("EMU", F("emu", "proc")): PTR("PROC")}
                    outs = e4.run(uts, [PTR("EMU")], store)
                    acc = [o for o in outs if o.kind == "ret" and o.ret == INT(0)]
                    inst = "%s:event-%s:parallel=%d:bodyid=%d" % (model, v, par, bid)
                    if msp["body_id_rule"]:
                        legal = (par and bid > 0) or (not par and bid == 0)
                        if not legal:
                            ctx.check(not acc and not called, "R7.4", inst, uts.loc(),
                                      "body id %d is accepted for a %sparallel task" % (bid, "" if par else "non-"))
                            continue
                        want_bid = bid if par else 1
                    else:
                        want_bid = 1
                    names = {c[0] for c in called}
                    good = bool(acc) and names == {want_fn} and \
                        all(c[1][1] == PTR("TASK") and c[1][2] == INT(want_bid) for c in called) and \
                        all(c[1][0][0] == "ptr" and c[1][0][2] and c[1][0][2][-1][1] == "task_stack" for c in called)
                    ctx.check(good, "R7.4", inst, uts.loc(),
                              "event '%s' calls %s with %s; expected %s(thread's task_stack, task, body %d)" %
                              (v, sorted(names), [c[1][1:] for c in called], want_fn, want_bid))
        # R7.5 channels
        cs_names = msp["channels"]
        fnames = msp["chan_functions"]
        sets = {}
        for role, fname in fnames.items():
            fn = prog.fn(fname, evfile)
            for rank in (-1, 0, 7):
                chans = {}

                def s_cs(ex_, st, args, f, e, chans=chans):
                    a = args[0]
                    if a[0] == "ptr" and a[1] == "CHARR":
                        chans[a[2][0]] = args[1]
                    return [(INT(0), {})]
                sums = {"chan_set": s_cs,
                        "value_int64": lambda ex_, st, args, f, e: [(("val", "i64", args[0]), {})],
                        "value_null": lambda ex_, st, args, f, e: [(("val", "null"), {})],
                        "extend_get": lambda ex_, st, args, f, e: [(PTR("EXT"), {})],
                        "body_get_task": lambda ex_, st, args, f, e: [(PTR("TASK2" if args[0] == PTR("BNEXT") else "TASK"), {})],
                        "body_get_id": lambda ex_, st, args, f, e: [(INT(503), {})]}
                e5 = absint.Explorer(prog, effects=eff, summaries=sums, on_unknown_call=unk_ptr(prog),
                                     field_values={("model_thread", "ch"): PTR("CHARR", (0,))})
                store = {("EMU", F("emu", "thread")): PTR("TH"), ("EMU", F("emu", "proc")): PTR("PROC"),
                         ("PROC", F("proc", "rank")): INT(rank), ("PROC", F("proc", "appid")): INT(504)}
                # TASK is the task that was running (prev), TASK2 the one that runs now: different id and type
                store[("TASK", F("task", "id"))] = INT(401)
                store[("TASK", F("task", "type"))] = PTR("TYPE0")
                store[("TYPE0", F("task_type", "gid"))] = INT(402)
                store[("TASK2", F("task", "id"))] = INT(501)
                store[("TASK2", F("task", "type"))] = PTR("TYPE")
                store[("TYPE", F("task_type", "gid"))] = INT(502)
                params = [p["ctype"] for p in fn.params]
                args = [PTR("EMU")]
                if role == "running":
                    args.append(PTR("BNEXT") if "struct body *" in params else PTR("TASK2"))
                elif role == "switch":
                    if "struct body *" in params:
                        args += [PTR("BPREV"), PTR("BNEXT")]
                    else:
                        args += [PTR("TASK"), PTR("TASK2")]
                outs = e5.run(fn, args, store)
                acc = [o for o in outs if o.kind == "ret" and o.ret == INT(0)]
                ctx.need(acc, "%s: no accepting path in %s" % (model, fname))
                sets[(role, rank)] = dict(chans)
        from ovsa import models as _m
        enums = _m.file_enumerators(prog, "src/emu/%s/" % model)
        idx_of = {nm: enums[en] for nm, en in cs_names.items()}
        want_val = {"taskid": INT(501), "task_type": INT(502), "bodyid": INT(503), "appid": INT(504), "rank": INT(8)}
        for rank in (-1, 0, 7):
            want_val["rank"] = INT(rank + 1)
            expected = {idx_of[nm] for nm in cs_names if not (nm == "rank" and rank < 0)}
            for role in fnames:
                got = sets[(role, rank)]
                inst = "%s:%s:rank=%d:channel-set" % (model, fnames[role], rank)
                ctx.check(set(got) == expected, "R7.5", inst, evfile,
                          "%s touches channels %s, expected %s (%s)" %
                          (fnames[role], sorted(got), sorted(expected), sorted(cs_names)))
                for nm in cs_names:
                    ix = idx_of[nm]
                    if ix not in got:
                        continue
                    inst2 = "%s:%s:rank=%d:%s" % (model, fnames[role], rank, nm)
                    if role == "stopped":
                        ctx.check(got[ix] == ("val", "null"), "R7.5", inst2, evfile,
                                  "channel %s is not nulled when the body stops (gets %s)" % (nm, got[ix]))
                    else:
                        ctx.check(got[ix] == ("val", "i64", want_val[nm]), "R7.5", inst2, evfile,
                                  "channel %s receives %s, expected the %s of the running task (%s)" %
                                  (nm, got[ix], nm, want_val[nm]))

    # ---- R7.4 task_* -> body_* ------------------------------------------------------------------
    for tname, bname in (("task_execute", "body_execute"), ("task_end", "body_end"),
                         ("task_pause", "body_pause"), ("task_resume", "body_resume")):
        fn = prog.fn(tname, TASKC)
        called = []

        def mkb(name):
            def s(ex_, st, args, f, e):
                called.append((name, args))
                return [(INT(0), {})]
            return s
        sums = {n: mkb(n) for n in ("body_execute", "body_end", "body_pause", "body_resume")}
        sums["body_find"] = lambda ex_, st, args, f, e: [(PTR("B"), {})]
        e6 = absint.Explorer(prog, effects=eff, summaries=sums, on_unknown_call=unk_ptr(prog))
        outs = e6.run(fn, [PTR("STK"), PTR("TASK"), INT(1)], {})
        acc = [o for o in outs if o.kind == "ret" and o.ret == INT(0)]
        good = bool(acc) and {c[0] for c in called} == {bname} and \
            all(c[1][0] == PTR("STK", F("task_stack", "body_stack")) and c[1][1] == PTR("B") for c in called)
        ctx.check(good, "R7.4", "%s->%s" % (tname, bname), fn.loc(),
                  "%s calls %s" % (tname, [(c[0], c[1]) for c in called]))
        # a failing body operation fails the task operation
        sums2 = dict(sums)
        sums2[bname] = lambda ex_, st, args, f, e: [(INT(-1), {})]
        e7 = absint.Explorer(prog, effects=eff, summaries=sums2, on_unknown_call=unk_ptr(prog))
        outs = e7.run(fn, [PTR("STK"), PTR("TASK"), INT(1)], {})
        ctx.check(not [o for o in outs if o.kind == "ret" and o.ret == INT(0)], "R7.4",
                  "%s:propagates-%s-failure" % (tname, bname), fn.loc(),
                  "%s succeeds although %s refused the transition" % (tname, bname))


_run_base = run


def run(ctx):
    _run_base(ctx)
    prog = ctx.prog
    ctx.rule("R7.6", "the task channels accept what the life-cycle writes: with the channel properties the model's own "
             "thread spec gives its channels (model_thread_create interpreted with chan.c's chan_init / "
             "chan_prop_set), the switch / running function is accepted by chan.c's own chan_set when the next task "
             "has the same type, application, rank or body number as the one shown; the duplicate table a model "
             "declares is the one its thread channel spec names; the rank shown while a body runs comes from "
             "whichever stream of the process carries it (C15 R15.4: create_proc merges every stream's metadata)")
    from rules import round3
    round3.check_task_channels_rewrite(ctx, "R7.6", spec())
    round3.check_dup_table_on_thread_spec(ctx, "R7.6")
    round3.share(ctx, "R7.6", "C15", lambda i_: i_["rule"] == "R15.4" and i_["inst"].startswith("create_proc:"), "rank-source:",
                 "no thread of the process shows its rank while a task body runs", 1)
    ctx.rule("R7.7", "the task view follows the body that runs after the event: expand_transition_value turns the event "
             "into x, e, p, r, X (execute over a running body) or E (end with a body still running) for all 16 "
             "(event, was running, runs now) combinations, and update_task_channels publishes the current body for x and "
             "r, clears the view for e and p and switches from the previous to the current body for X and E, in both "
             "task models")
    from rules import round8
    round8.check_task_transition_dispatch(ctx, "R7.7")

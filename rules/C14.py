"""C14 — version gating follows semantic versioning (runtime and emulator).

R14.1 the relation itself, exhaustively over {0,1,2}^6 for both siblings
R14.2 every model's probe is model_version_probe on its own spec
R14.3 should_enable / model_version_probe / model_probe return-value flow
R14.4 model_event guards (registered, enabled) and index width
R14.5 every result of version_parse is tested
"""
import itertools

from ovsa import absint, effects, errflow, models
from ovsa.absint import INT, NULL, PTR, TOP

VH = "src/include/version.h"


def F(rec, field):
    return ((rec, field),)


def accept_spec(w, h):
    return w[0] == h[0] and w[1] <= h[1]


def arr_store(root, vals):
    return {(root, (i,)): INT(v) for i, v in enumerate(vals)}


def set_tuple_updates(argptr, vals):
    """Store updates for writing vals into the int[3] pointed to by argptr."""
    if argptr[0] != "ptr":
        return None
    root, path = argptr[1], argptr[2]
    if path and path[-1] == 0:
        path = path[:-1]
    return {(root, path + (i,)): INT(v) for i, v in enumerate(vals)}


def cls(vals):
    if None in vals or not vals:
        return "?"
    if all(v < 0 for v in vals):
        return "neg"
    if all(v == 0 for v in vals):
        return "zero"
    if all(v > 0 for v in vals):
        return "pos"
    return "mixed:%s" % sorted(vals)


def probe_class(prog, eff, script):
    """model_version_probe evaluated on a list of threads whose should_enable results are given by script
    (-1 error / incompatible, 0 not required, 1 required and compatible): class of the values returned."""
    mvp = prog.fn("model_version_probe", "src/emu/model.c")
    SYS = F("emu", "system")
    names = ["T%d" % (i + 1) for i in range(len(script))]

    def s_se(ex_, st, args, f, e):
        t = args[2]
        for nm, r in zip(names, script):
            if t == PTR(nm):
                return [(INT(r), {})]
        return [(TOP, {})]

    def s_parse(ex_, st, args, f, e):
        return [(INT(0), set_tuple_updates(args[1], (1, 0, 0)) or {})]
    e5 = absint.Explorer(prog, effects=eff, summaries={"should_enable": s_se, "version_parse": s_parse},
                         loop_bound=len(script) + 2)
    store = {("EMU", SYS + F("system", "threads")): PTR(names[0]) if names else NULL}
    for i, nm in enumerate(names):
        store[(nm, F("thread", "gnext"))] = PTR(names[i + 1]) if i + 1 < len(names) else NULL
    outs = e5.run(mvp, [PTR("SPEC"), PTR("EMU")], store)
    vals = {o.ret[1] if o.ret and o.ret[0] == "int" else None for o in outs if o.kind == "ret"}
    return cls(vals)


def run(ctx):
    prog = ctx.prog
    ctx.rule("R14.1", "version_is_compatible(want, have) and the open-coded test in ovni_version_check_str accept "
             "exactly when want.major == have.major and want.minor <= have.minor (patch ignored), evaluated on "
             "all 729 triples over {0,1,2}; unparsable / NULL strings are refused")
    ctx.rule("R14.2", "each registered model's probe hook calls model_version_probe with its own model_spec and "
             "returns failure when it fails, enable when it enables, disable when it disables (base model: "
             "always enabled unless failure)")
    ctx.rule("R14.3", "should_enable: requirement absent -> 0, unparsable or incompatible -> negative, compatible "
             "-> positive; model_version_probe: any failing thread -> negative, else enable iff some thread "
             "requires it; model_probe: enabled[i]=1 iff probe>0 or enable_all_models, probe<0 aborts")
    ctx.rule("R14.4", "model_event calls the model hook only if the model is registered and enabled, fails "
             "otherwise, and forwards the hook's failure; the model index is a byte into 256-entry arrays")
    ctx.rule("R14.5", "every call of version_parse has its result tested: a failing parse makes the caller fail")
    eff = effects.Effects(prog)
    dom = (0, 1, 2)

    # ---- R14.1 version_is_compatible ---------------------------------------
    vic = prog.fn("version_is_compatible", VH)
    ex = absint.Explorer(prog, effects=eff)
    n_ok = 0
    for w in itertools.product(dom, repeat=3):
        for h in itertools.product(dom, repeat=3):
            store = {}
            store.update(arr_store("W", w))
            store.update(arr_store("H", h))
            outs = ex.run(vic, [PTR("W", (0,)), PTR("H", (0,))], store)
            rets = {o.ret for o in outs if o.kind == "ret"}
            ctx.need(len(rets) == 1 and all(r and r[0] == "int" for r in rets),
                     "version_is_compatible is not a function of the six numbers: %s" % rets)
            got = list(rets)[0][1] != 0
            inst = "version_is_compatible:want=%d.%d.%d:have=%d.%d.%d" % (w + h)
            ctx.check(got == accept_spec(w, h), "R14.1", inst, vic.loc(),
                      "want %s have %s: returns %s, semantic versioning says %s" %
                      (w, h, "compatible" if got else "incompatible",
                       "compatible" if accept_spec(w, h) else "incompatible"))

    # ---- R14.1 ovni_version_check_str ----------------------------------------
    vcs = prog.fn("ovni_version_check_str", "src/rt/ovni.c")
    # the library's own version, as version_parse would deliver it
    libver = tuple(int(x) for x in prog.info.get("version", "0.0.0").split(".")[:3])

    def run_check(provided, expected, parse_fail=None, arg=PTR("VERSTR")):
        calls = []

        def s_parse(ex_, st, args, f, e):
            which = "provided" if args[0] == PTR("VERSTR") else "expected"
            calls.append(which)
            if parse_fail == which:
                return [(INT(-1), {})]
            upd = set_tuple_updates(args[1], provided if which == "provided" else expected)
            if upd is None:
                return None
            return [(INT(0), upd)]
        e2 = absint.Explorer(prog, effects=eff, summaries={"version_parse": s_parse})
        outs = e2.run(vcs, [arg], {})
        return outs, calls

    for w in itertools.product(dom, repeat=3):
        for h in itertools.product(dom, repeat=3):
            outs, calls = run_check(w, h)
            ctx.need(calls.count("provided") >= 1 and calls.count("expected") >= 1,
                     "ovni_version_check_str no longer parses both the provided and the library version")
            got = any(o.kind in ("exit", "ret") for o in outs)
            inst = "ovni_version_check_str:want=%d.%d.%d:have=%d.%d.%d" % (w + h)
            ctx.check(got == accept_spec(w, h), "R14.1", inst, vcs.loc(),
                      "program wants %s, library is %s: the check %s, semantic versioning says it must %s" %
                      (w, h, "returns" if got else "dies", "return" if accept_spec(w, h) else "die"))
    outs, _ = run_check((1, 0, 0), (1, 0, 0), parse_fail="provided")
    ctx.check(all(o.kind == "die" for o in outs), "R14.1", "ovni_version_check_str:malformed", vcs.loc(),
              "a version string that cannot be parsed is not refused")
    outs, _ = run_check((1, 0, 0), (1, 0, 0), arg=NULL)
    ctx.check(all(o.kind == "die" for o in outs), "R14.1", "ovni_version_check_str:null", vcs.loc(),
              "a NULL version string is not refused")

    # ---- R14.2 probes ----------------------------------------------------------
    ms = models.discover(prog)
    for m in ms:
        inst = "probe:%s" % m.name
        if not m.hooks.get("probe"):
            ctx.fail("R14.2", inst, "%s:%d" % (m.file, m.line), "model has no probe hook: it could never be "
                     "enabled by a requirement")
            continue
        pf = prog.fn(m.hooks["probe"])
        bad = []
        for r in (-1, 0, 1):
            seen = []

            def s_mvp(ex_, st, args, f, e, r=r, seen=seen):
                seen.append(args[0])
                return [(INT(r), {})]
            e3 = absint.Explorer(prog, effects=eff, summaries={"model_version_probe": s_mvp}, loop_bound=2)
            outs = e3.run(pf, [PTR("EMU")], {})
            rets = [o for o in outs if o.kind == "ret"]
            if not seen:
                bad.append("does not call model_version_probe")
                break
            if any(a != PTR(("G", m.file, m.spec_name)) for a in seen):
                bad.append("probes with %s instead of its own spec %s" % (seen[0], m.spec_name))
            vals = {o.ret[1] if o.ret and o.ret[0] == "int" else None for o in rets}
            if None in vals:
                bad.append("returns a value the engine cannot evaluate")
            elif r < 0 and not all(v < 0 for v in vals):
                bad.append("version probe failure is not reported (returns %s)" % sorted(vals))
            elif r > 0 and not all(v > 0 for v in vals):
                bad.append("a required compatible model is not enabled (returns %s)" % sorted(vals))
            elif r == 0 and not all(v == 0 for v in vals):
                if m.name == "ovni" and all(v > 0 for v in vals):
                    pass    # the base model is always enabled (documented)
                else:
                    bad.append("a model no stream requires is enabled (returns %s)" % sorted(vals))
        ctx.check(not bad, "R14.2", inst, pf.loc(), "; ".join(bad))

    # ---- R14.3 should_enable ------------------------------------------------------
    se = prog.fn("should_enable", "src/emu/model.c")

    def run_se(want, have, meta=True, require=True, present=True, parse_ok=True):
        def s_obj(ex_, st, args, f, e):
            return [((PTR("REQ") if require else NULL), {})]

        def s_str(ex_, st, args, f, e):
            return [((PTR("VSTR") if present else NULL), {})]

        def s_parse(ex_, st, args, f, e):
            if not parse_ok:
                return [(INT(-1), {})]
            return [(INT(0), set_tuple_updates(args[1], want) or {})]
        e4 = absint.Explorer(prog, effects=eff, inline=lambda n, d: n == "version_is_compatible",
                             summaries={"json_object_dotget_object": s_obj, "json_object_get_string": s_str,
                                        "version_parse": s_parse})
        store = arr_store("H", have)
        store[("T", F("thread", "meta"))] = PTR("META") if meta else NULL
        outs = e4.run(se, [PTR("H", (0,)), PTR("SPEC"), PTR("T")], store)
        vals = set()
        for o in outs:
            if o.kind == "ret":
                vals.add(o.ret[1] if o.ret and o.ret[0] == "int" else None)
        return vals

    for (name, kw, want_cls, what) in (
            ("absent", dict(present=False), "zero", "a thread that does not require the model must yield 0"),
            ("no-metadata", dict(meta=False), "neg", "missing metadata must be an error"),
            ("no-require-key", dict(require=False), "neg", "missing ovni.require must be an error"),
            ("unparsable", dict(parse_ok=False), "neg", "an unparsable required version must be an error")):
        got = cls(run_se((1, 0, 0), (1, 0, 0), **kw))
        ctx.check(got == want_cls, "R14.3", "should_enable:" + name, se.loc(), "%s (got %s)" % (what, got))
    for w in itertools.product(dom, repeat=3):
        for h in itertools.product(dom, repeat=3):
            got = cls(run_se(w, h))
            want_cls = "pos" if accept_spec(w, h) else "neg"
            ctx.check(got == want_cls, "R14.3", "should_enable:want=%d.%d.%d:have=%d.%d.%d" % (w + h), se.loc(),
                      "stream requires %s, model provides %s: should_enable returns %s, expected %s" %
                      (w, h, got, want_cls))

    # ---- R14.3 model_version_probe ---------------------------------------------------
    mvp = prog.fn("model_version_probe", "src/emu/model.c")
    SYS = F("emu", "system")
    for script in [()] + [(a,) for a in (-1, 0, 1)] + list(itertools.product((-1, 0, 1), repeat=2)) + \
            [(1, 0, -1), (0, 1, 0), (1, 1, -1), (0, 0, 1)]:
        got = probe_class(prog, eff, script)
        want_cls = "neg" if -1 in script else ("pos" if 1 in script else "zero")
        ctx.check(got == want_cls, "R14.3", "model_version_probe:threads=%s" % (list(script),), mvp.loc(),
                  "per-thread results %s: returns %s, expected %s" % (list(script), got, want_cls))
    # a model version that cannot be parsed is an error
    e5 = absint.Explorer(prog, effects=eff, summaries={
        "version_parse": lambda ex_, st, args, f, e: [(INT(-1), {})]}, loop_bound=3)
    outs = e5.run(mvp, [PTR("SPEC"), PTR("EMU")], {("EMU", SYS + F("system", "threads")): NULL})
    vals = {o.ret[1] if o.ret and o.ret[0] == "int" else None for o in outs if o.kind == "ret"}
    ctx.check(cls(vals) == "neg", "R14.3", "model_version_probe:own-version-unparsable", mvp.loc(),
              "model_version_probe does not fail when the model's own version cannot be parsed")

    # ---- R14.3 model_probe ---------------------------------------------------------------
    mp = prog.fn("model_probe", "src/emu/model.c")
    for r in (-1, 0, 1):
        for allm in (0, 1):
            e6 = absint.Explorer(prog, effects=eff, summaries={
                "PROBE": lambda ex_, st, args, f, e, r=r: [(INT(r), {})]}, loop_bound=2, max_paths=100000)
            store = {("MODEL", F("model", "registered") + (0,)): INT(1),
                     ("MODEL", F("model", "spec") + (0,)): PTR("SPEC"),
                     ("MODEL", F("model", "enabled") + (0,)): INT(0),
                     ("SPEC", F("model_spec", "probe")): ("fn", "PROBE"),
                     ("EMU", F("emu", "args") + F("emu_args", "enable_all_models")): INT(allm)}
            for i in range(1, 4):
                store[("MODEL", F("model", "registered") + (i,))] = INT(0)
                store[("MODEL", F("model", "enabled") + (i,))] = INT(0)
            outs = e6.run(mp, [PTR("MODEL"), PTR("EMU")], store)
            rets = [o for o in outs if o.kind == "ret"]
            inst = "model_probe:probe=%d:enable_all=%d" % (r, allm)
            ctx.need(rets, "model_probe: no returning path explored")
            if r < 0:
                ctx.check(all(o.ret and o.ret[0] == "int" and o.ret[1] < 0 for o in rets), "R14.3", inst, mp.loc(),
                          "a failing probe does not abort model_probe")
                continue
            okr = [o for o in rets if o.ret == INT(0)]
            en = {o.store.get(("MODEL", F("model", "enabled") + (0,))) for o in okr}
            want = INT(1) if (r > 0 or allm) else INT(0)
            ctx.check(bool(okr) and en == {want}, "R14.3", inst, mp.loc(),
                      "probe result %d, enable_all_models=%d: enabled[] ends as %s, expected %s" %
                      (r, allm, sorted(en, key=str), want))

    # ---- R14.4 model_event ------------------------------------------------------------------
    me = prog.fn("model_event", "src/emu/model.c")
    for reg in (0, 1):
        for en in (0, 1):
            for hook in (0, -1):
                called = []

                def s_hook(ex_, st, args, f, e, hook=hook, called=called):
                    called.append(1)
                    return [(INT(hook), {})]
                e7 = absint.Explorer(prog, effects=eff, summaries={"EVHOOK": s_hook})
                store = {("MODEL", F("model", "registered") + (86,)): INT(reg),
                         ("MODEL", F("model", "enabled") + (86,)): INT(en),
                         ("MODEL", F("model", "spec") + (86,)): PTR("SPEC"),
                         ("SPEC", F("model_spec", "event")): ("fn", "EVHOOK")}
                outs = e7.run(me, [PTR("MODEL"), PTR("EMU"), INT(86)], store)
                vals = {o.ret[1] if o.ret and o.ret[0] == "int" else None for o in outs if o.kind == "ret"}
                inst = "model_event:registered=%d:enabled=%d:hook=%d" % (reg, en, hook)
                if reg and en:
                    good = bool(called) and cls(vals) == ("zero" if hook == 0 else "neg")
                    ctx.check(good, "R14.4", inst, me.loc(),
                              "enabled model: hook %s, result %s" % ("called" if called else "not called", cls(vals)))
                else:
                    ctx.check(not called and cls(vals) == "neg", "R14.4", inst, me.loc(),
                              "events of a model that is %s are %s" %
                              ("not registered" if not reg else "not enabled",
                               "handled by its hook" if called else "not rejected (result %s)" % cls(vals)))
    # index width
    rec = prog.records.get("model")
    ctx.need(rec is not None, "struct model not found")
    for fld in rec["fields"]:
        if fld["name"] in ("spec", "registered", "enabled"):
            ctx.check(fld.get("count", 0) >= 256, "R14.4", "model.%s:256-entries" % fld["name"],
                      "%s:%d" % (rec["file"], rec["line"]),
                      "model.%s has %s entries but is indexed by the event's model byte" %
                      (fld["name"], fld.get("count")))
    step = prog.fn("emu_step", "src/emu/emu.c")
    sites = step.calls("model_event")
    ctx.need(sites, "emu_step no longer calls model_event")
    for c in sites:
        a = step.nodes[c]["args"][2]
        an = step.nodes[step.strip(a, casts=False)]
        ok = an["k"] == "MemberExpr" and an["field"] == "m" and an.get("rec") == "emu_ev" and \
            (an.get("ct") or an.get("t")) in ("unsigned char", "uint8_t")
        ctx.check(ok, "R14.4", "emu_step:model-index-is-event-byte", step.loc(c),
                  "model_event is indexed by %s, not by the event's unsigned model byte" % step.src(a))

    # ---- R14.5 every version_parse result is tested ----------------------------------------------
    reg_ = errflow.Registry(prog)
    vp = prog.fn("version_parse", VH)
    sites = reg_.call_sites(vp)
    ctx.need(len(sites) >= 4, "only %d call sites of version_parse found" % len(sites))
    for (c, n) in sites:
        ef = errflow.ErrFlow(prog, c, registry=reg_)
        ok, detail = ef.site_propagates(c, n)
        ctx.check(ok, "R14.5", "version_parse@%s#%d" % (c.name, [x for x in c.all_calls_syntactic("version_parse")].index(n)),
                  c.loc(n), "result of version_parse ignored: " + detail)


_run_base = run


def run(ctx):
    _run_base(ctx)
    prog = ctx.prog
    ctx.rule("R14.6", "a refused model version stops the emulation: the failure of model_version_probe is followed call "
             "site by call site (model probe hooks, model_probe, emu_init) to main's exit status")
    from rules import round3
    round3.check_probe_failure_propagates(ctx, "R14.6")
    ctx.rule("R14.7", "version components are decimal: version_parse converts them with base 10")
    from rules import round4
    round4.check_version_decimal(ctx, "R14.7")

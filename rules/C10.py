"""C10 — I/O faults are never silent.

R10.1 every I/O call of libovni has its failure handled: the failing path dies, or returns an
      error that every caller propagates to a die or to the documented warn-only sink
R10.2 the temporary copy of a stream is removed only after a copy whose every step succeeded
R10.3 short and failing writes of the event buffer (same evaluation as C01 R1.3)
"""
import json
import os

from ovsa import absint, effects, errflow
from ovsa.absint import INT, NULL, PTR, TOP
from ovsa.facts import VERIF

OV = "src/rt/ovni.c"
CM = "src/common.c"


def spec():
    with open(os.path.join(VERIF, "spec", "C10.json")) as f:
        return json.load(f)


def fail_value(kind):
    return {"neg": INT(-1), "null": NULL, "zero": INT(0), "eof": INT(-1), "nonzero": INT(1)}[kind]


def run(ctx):
    prog = ctx.prog
    sp = spec()
    eff = effects.Effects(prog)
    IO = sp["io_functions"]            # name -> failure kind
    EXC = sp["exceptions"]             # "function:callee" -> reason
    SINKS = sp["warn_only_sinks"]      # function -> reason
    DESTR = set(sp["destructive"])     # calls that destroy data
    ctx.rule("R10.1", "for every call site of %s in libovni: on every path on which the call fails, the function "
             "dies, or returns failure and every caller does the same up to a die or to a documented warn-only "
             "sink that prints a diagnostic; frozen best-effort exceptions: %s" %
             (sorted(IO), sorted(EXC)))
    ctx.rule("R10.2", "remove() of a stream's temporary file is reachable only on paths where every fread / "
             "fwrite / fclose of its copy was checked and succeeded")
    ctx.rule("R10.3", "write_evbuf dies when write() fails, and after a short write it continues at the first "
             "unwritten byte with the remaining length until nothing remains (no silent loss or corruption of "
             "flushed events)")
    reg = errflow.Registry(prog)

    def unk_default(cal):
        d = prog.decls.get(cal) if cal else None
        if d and d[0]["ret"].rstrip().endswith("*"):
            return [NULL, PTR("ret:" + str(cal))]
        return None

    def macro_const(f, name):
        for n in f.nodes:
            if name in n.get("m", ()) and "v" in n and n["k"] == "IntegerLiteral":
                return n["v"]
        return None

    def explore_failure(f, node, failv, extra=None, entry=None):
        """Outcomes of f on which the call at `node` fails."""
        cal0 = f.nodes[node].get("callee")
        sums = {}
        if cal0 == "stat":
            # stat() is only consulted after mkdir() failed with EEXIST
            ee = macro_const(f, "EEXIST")
            if ee is not None:
                sums["mkdir"] = lambda ex_, st, args, f_, e: [(INT(-1), {("ERRNO", ()): INT(ee)})]

        def unk(cal, args, f_, e):
            if f_ is f and e == node:
                return [failv]
            if extra and cal in extra:
                return extra[cal]
            if cal == "__errno_location":
                # errno is an ordinary object; the failing call is modelled with a hard
                # error (not EEXIST / ENOENT), so errno keeps what the code stored before
                return [PTR("ERRNO")]
            return unk_default(cal)
        # entry given: f is a private helper of entry, interpreted in place (the failing site is inside it)
        ex = absint.Explorer(prog, effects=eff, auto_inline=entry is not None, on_unknown_call=unk,
                             loop_bound=2, max_paths=30000, summaries=sums)
        if cal0 == "fwrite":
            # a short write: fewer items than the (positive) number just read
            nread = ex.sym("nread", 1, 1 << 20)
            sums["fread"] = lambda ex_, st, args, f_, e: [(nread, {})]
        ex.summaries = sums
        top = entry or f
        outs = ex.run(top, [TOP] * len(top.params), {})
        return [o for o in outs if any(ev[0] == "call" and ev[3] == f.key and ev[4] == node for ev in o.events)]

    def handled(f, node, failv, depth=0, extra=None):
        """(ok, detail).  ok when every failing path dies or propagates to die/sink."""
        outs = explore_failure(f, node, failv, extra)
        if not outs:
            return False, "call site not reached by the explorer"
        for o in outs:
            if o.kind == "die":
                continue
            after = False
            diag = False
            for ev in o.events:
                if ev[0] == "call" and ev[3] == f.key and ev[4] == node:
                    after = True
                    continue
                if after and ev[0] == "call" and ev[1] in ("verr", "vdie"):
                    diag = True
            returns_fail = o.kind == "ret" and o.ret is not None and (
                (o.ret[0] == "int" and o.ret[1] != 0) or (o.ret[0] == "null" and f.ret.rstrip().endswith("*")))
            if returns_fail:
                continue
            if f.name in SINKS and diag:
                continue
            return False, "a path on which the call fails ends in %s%s without dying%s" % (
                "return " + str(o.ret) if o.kind == "ret" else "normal return",
                "" if f.ret == "void" else " (success value)",
                "" if diag else " and without a diagnostic")
        # the function reports failure: callers must handle it the same way
        if f.name in SINKS:
            return True, "warn-only sink prints a diagnostic"
        if any(o.kind == "ret" for o in outs):
            if depth > 6:
                return False, "propagation chain too deep"
            sites = reg.call_sites(f)
            sites = [(c, n) for (c, n) in sites if c.file in (OV, CM)]
            if not sites and f.file in (OV, CM) and f.static:
                return False, "%s returns failure but has no caller" % f.name
            for (c, n) in sites:
                ok, detail = handled(c, n, NULL if f.ret.rstrip().endswith("*") else INT(-1), depth + 1)
                if not ok:
                    return False, "%s reports the failure but its caller %s drops it: %s" % (f.name, c.name, detail)
        return True, "all failing paths die or propagate"

    def internal_fail_values(name):
        """Non-success values an internal function can actually return."""
        g = prog.fn(name, required=False)
        if g is None or g.file not in (OV, CM, "src/parson.c"):
            return None
        exg = absint.Explorer(prog, effects=eff, inline=lambda n, d: n in IO and d.file in (OV, CM),
                              on_unknown_call=lambda cal, args, f_, e: unk_default(cal), loop_bound=2,
                              max_paths=30000)
        vals = set()
        for o in exg.run(g, [TOP] * len(g.params), {}):
            if o.kind == "ret" and o.ret is not None:
                if o.ret[0] == "int" and o.ret[1] != 0:
                    vals.add(o.ret)
                elif o.ret[0] == "null":
                    vals.add(NULL)
                elif o.ret[0] not in ("int", "ptr"):
                    return None
        return sorted(vals) or None

    nsites = 0
    for file in (OV, CM):
        for f in prog.fns_in(file):
            counts = {}
            for node in f.calls():
                n = f.nodes[node]
                cal = n.get("callee")
                if cal not in IO:
                    continue
                counts[cal] = counts.get(cal, 0) + 1
                nsites += 1
                inst = "%s:%s#%d" % (f.name, cal, counts[cal])
                key = "%s:%s" % (f.name, cal)
                if key in EXC:
                    ctx.ok("R10.1", inst, f.loc(node), "frozen exception: " + EXC[key], nontrivial=False)
                    continue
                extra = None
                if cal == "fread":
                    # fread returns 0 at end of file and on error alike: the failure is visible
                    # only through ferror()
                    extra = {"ferror": [INT(1)]}
                fvs = internal_fail_values(cal) or [fail_value(IO[cal])]
                ok, detail = True, ""
                for fv in fvs:
                    ok, detail = handled(f, node, fv, extra=extra)
                    if not ok:
                        break
                if cal == "fread" and ok:
                    # the explorer cannot tell EOF from error unless ferror() is consulted
                    called = any(m["k"] == "CallExpr" and m.get("callee") == "ferror" for m in f.nodes)
                    if not called:
                        ok, detail = False, "fread's error case is indistinguishable from end of file: ferror() is never consulted"
                ctx.check(ok, "R10.1", inst, f.loc(node),
                          "failure of %s() is not handled: %s" % (cal, detail))
    ctx.check(nsites >= 18, "R10.1", "io-sites:enumerated", OV, "only %d I/O call sites found" % nsites)

    # parson's file serialiser (used for stream.json)
    js = prog.fn("json_serialize_to_file_pretty", "src/parson.c")
    for node in js.calls():
        cal = js.nodes[node].get("callee")
        if cal in ("fopen", "fputs", "fclose", "fwrite"):
            kind = {"fopen": "null", "fputs": "eof", "fclose": "eof", "fwrite": "zero"}[cal]
            outs = explore_failure(js, node, fail_value(kind))
            good = bool(outs) and all(o.kind == "die" or (o.kind == "ret" and o.ret is not None and o.ret[0] == "int"
                                                          and o.ret[1] != 0) for o in outs)
            ctx.check(good, "R10.1", "json_serialize_to_file_pretty:%s" % cal, js.loc(node),
                      "a failing %s() while writing stream.json is reported as success" % cal)

    # ---- R10.2 ------------------------------------------------------------------------
    mt = prog.fn("move_thread_to_final", OV)
    copy_ops = {"fwrite": ("zero", None), "fclose": ("eof", "out"), "fread": ("zero", None)}
    # the copy may be split among private helpers of move_thread_to_final: sites are looked for in all of them
    # and each failure is followed from move_thread_to_final itself
    priv = prog.helper_closure({mt.name}, OV)
    parts = [g for g in prog.reachable_fns([mt]) if g.file == OV and g.name in priv]
    has_ferror = any(m["k"] == "CallExpr" and m.get("callee") == "ferror" for g in parts for m in g.nodes)
    # which fclose closes the stream opened for writing: by data flow (the FILE* of the fopen whose mode has a
    # 'w'), not by the variable's name
    fclose_mode = {}

    def s_fopen(ex_, st, args, f_, e):
        mode = args[1][1] if len(args) > 1 and args[1][0] == "str" else "?"
        return [(PTR("FILE:" + mode), {})]

    def oc_fclose(ex_, st, f_, e, cal, args):
        if cal == "fclose" and args and args[0][0] == "ptr" and str(args[0][1]).startswith("FILE:"):
            fclose_mode.setdefault((f_.key, e), set()).add(args[0][1][5:])
    exm = absint.Explorer(prog, effects=eff, summaries={"fopen": s_fopen, "fdopen": s_fopen}, on_call=oc_fclose, loop_bound=2, max_paths=30000)
    exm.run(mt, [TOP] * len(mt.params), {})
    for g in parts:
        for node in g.calls():
            cal = g.nodes[node].get("callee")
            if cal not in copy_ops:
                continue
            if cal == "fclose":
                # only the output stream matters for the data: the stream is identified by what fclose is
                # given on the path, see below (the source stream's fclose is a frozen best-effort exception)
                modes = fclose_mode.get((g.key, node), set())
                ctx.need(modes, "cannot tell which stream the fclose at %s closes" % g.loc(node))
                if not any("w" in m_ or "a" in m_ for m_ in modes):
                    continue
            kind = copy_ops[cal][0]
            extra = {"ferror": [INT(1)]} if cal == "fread" else None
            outs = explore_failure(g, node, fail_value(kind), extra, entry=None if g is mt else mt)
            bad = False
            for o in outs:
                after = False
                for ev in o.events:
                    if ev[0] == "call" and ev[3] == g.key and ev[4] == node:
                        after = True
                        continue
                    if after and ev[0] == "call" and ev[1] in DESTR:
                        bad = True
            if cal == "fread" and not has_ferror:
                bad = True
            ctx.check(bool(outs) and not bad, "R10.2", "move_thread_to_final:remove-after-failed-%s" % cal, g.loc(node),
                      "when %s() fails while copying a stream to its final place the temporary (only complete) copy "
                      "is still removed" % cal)

    # after a failed copy the temporary directory keeps the whole stream, metadata included (the relocation
    # loop evaluated on directory orders x failing copies: C09 R9.2's instances with a failing copy)
    from rules import C09 as _c09
    from ovsa.engine import Ctx as _Ctx
    sub9 = _Ctx("C09", prog, ctx.root, "quick")
    from rules.round3 import run_lender as _run_lender
    _run_lender(_c09, sub9, ctx)
    n9 = 0
    for i_ in sub9.instances:
        if i_["rule"] == "R9.2" and "failing=" in i_["inst"] and not i_["inst"].endswith("failing=None"):
            n9 += 1
            if i_["ok"]:
                ctx.ok("R10.2", "relocation-after-failed-copy:" + i_["inst"], i_["where"])
            else:
                ctx.fail("R10.2", "relocation-after-failed-copy:" + i_["inst"], i_["where"], i_["what"] +
                         " (the only complete copy of the stream is split between the two directories)")
    ctx.need(n9 >= 6 or getattr(sub9, "lender_broken", None), "R10.2: only %d relocation instances with a failing copy" % n9)

    # ---- R10.3 ---------------------------------------------------------------------------
    # a short write is an I/O fault too: the loop must resume where the kernel stopped (same evaluation as C01 R1.3)
    from rules.C01 import _check_write_loop
    from rules.rtcommon import buffer_capacity
    wf = prog.fn("write_evbuf", OV)
    _check_write_loop(ctx, prog, eff, buffer_capacity(ctx), wf, rule="R10.3")


_run_base = run


def run(ctx):
    _run_base(ctx)
    prog = ctx.prog
    ctx.rule("R10.4", "relocation never leaves less than it found: move_thread_to_final removes the source only after "
             "the destination was written and closed successfully (C09 R9.2's copy-complete-on-return evaluation)")
    from rules import round3
    round3.share(ctx, "R10.4", "C09", lambda i_: i_["rule"] == "R9.2" and "copy-complete" in i_["inst"], "relocation:",
                 "a failing close of the copy deletes the only complete stream", 1)
    ctx.rule("R10.5", "who may delete a file: in the runtime every remove / unlink / unlinkat / rename lies in "
             "move_thread_to_final (or a private helper only it uses), where R10.2 / R10.4 tie the deletion to a completed "
             "copy; temporary directories go through rmdir, which refuses a directory that still holds a kept stream")
    from rules import round8
    round8.check_only_relocation_deletes_files(ctx, "R10.5")

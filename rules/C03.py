"""C03 — the emulator replays all streams as one time-ordered, loss-free sequence.

R3.1 enumeration-order independence: streams sorted by relative path after loading
R3.2 the heap key: stream_cmp inverts the order of the streams' last clocks (min-heap)
R3.3 the player drops nothing: every stream is stepped, a stepped stream with an event is re-inserted
     before the next pop, an exhausted stream is the only one that leaves
R3.4 time origin chain: corrected clock = event clock + clock offset; delta = clock - first clock;
     the delta reaches the Paraver time through emu_ev -> recorder_advance -> prv_advance
R3.5 the intrusive heap, evaluated on every heap of up to 5 streams with clocks in {1,2,3} plus a fixed
     sample of heaps of 6-8 streams (thorough: all of 6, samples of 7-9) (insert all, pop all) and on the player's pop / re-insert protocol for small stream sets: elements come out in
     non-decreasing clock order, each exactly once.  (Heaps of unbounded size are not decided.)
"""
import itertools

from ovsa import absint, effects
from ovsa.absint import INT, NULL, PTR, TOP, to_lin

PL = "src/emu/player.c"


def F(rec, field):
    return ((rec, field),)


HH = F("stream", "hh")


def check_stream_cmp(ctx, rule):
    """stream_cmp is the heap key: positive / zero / negative exactly when a's last clock is lower / equal / higher,
    on small clocks and symbolically on every pair of 64-bit clocks."""
    prog = ctx.prog
    eff = effects.Effects(prog)
    sc = prog.fn("stream_cmp", PL)
    ex = absint.Explorer(prog, effects=eff, inline=lambda n, d: n == "stream_lastclock")
    for (ca, cb) in ((1, 2), (2, 1), (2, 2), (-5, 7)):
        outs = ex.run(sc, [PTR("SA", HH), PTR("SB", HH)], {("SA", F("stream", "lastclock")): INT(ca),
                                                           ("SB", F("stream", "lastclock")): INT(cb)})
        rets = {o.ret for o in outs if o.kind == "ret"}
        want = 1 if ca < cb else (-1 if ca > cb else 0)
        good = len(rets) == 1 and list(rets)[0][0] == "int" and \
            ((want > 0 and list(rets)[0][1] > 0) or (want < 0 and list(rets)[0][1] < 0) or (want == 0 and list(rets)[0][1] == 0))
        ctx.check(good, rule, "stream_cmp:%d-vs-%d" % (ca, cb), sc.loc(),
                  "stream_cmp gives %s for last clocks %d and %d; the min-heap needs %s" %
                  (sorted(rets, key=str), ca, cb, {1: "positive", 0: "zero", -1: "negative"}[want]))

    # for every pair of 64-bit clocks, not only small ones: a difference narrowed to int loses the sign once
    # two streams are 2^31 ns apart
    for rel, want in (("<", 1), (">", -1), ("==", 0)):
        exs = absint.Explorer(prog, effects=eff, inline=lambda n, d: n == "stream_lastclock")
        A = exs.sym("ca", -2 ** 62, 2 ** 62)
        B = exs.sym("cb", -2 ** 62, 2 ** 62)
        cons = exs.cmp_constraints(rel, 0, {"ca": 1, "cb": -1})
        outs = exs.run(sc, [PTR("SA", HH), PTR("SB", HH)], {("SA", F("stream", "lastclock")): A,
                                                            ("SB", F("stream", "lastclock")): B}, cons=tuple(cons))
        good = bool(outs)
        got = []
        for o in outs:
            if o.kind != "ret":
                continue
            r = o.ret
            got.append(r)
            if r is None or r[0] != "int":
                l = to_lin(r) if r is not None else None
                sgn = None
                if l is not None:
                    if exs.decide_cmp(o.cons, ">", l[0], dict(l[1])) is True:
                        sgn = 1
                    elif exs.decide_cmp(o.cons, "<", l[0], dict(l[1])) is True:
                        sgn = -1
                    elif exs.decide_cmp(o.cons, "==", l[0], dict(l[1])) is True:
                        sgn = 0
            else:
                sgn = (r[1] > 0) - (r[1] < 0)
            if sgn != want:
                good = False
        ctx.check(good, rule, "stream_cmp:any-clocks:a-%s-b" % {"<": "lower", ">": "higher", "==": "equal"}[rel], sc.loc(),
                  "for arbitrary 64-bit last clocks with a %s b stream_cmp returns %s; the min-heap needs a %s result "
                  "for every such pair" % (rel, sorted(set(map(str, got))), {1: "positive", 0: "zero", -1: "negative"}[want]))



def run(ctx):
    prog = ctx.prog
    eff = effects.Effects(prog)
    ctx.rule("R3.1", "trace_load sorts the stream list with cmp_streams (strcmp of the relative paths) after the "
             "directory walk on every successful path")
    ctx.rule("R3.2", "stream_cmp(a, b) is positive / zero / negative exactly when the last clock of a is lower / "
             "equal / higher than that of b (inverted order: the heap's maximum is the earliest stream)")
    ctx.rule("R3.3", "player_init steps every stream of the trace; step_stream inserts a stream in the heap exactly "
             "when stream_step loaded an event (0), returns > 0 for an exhausted stream and < 0 on error; "
             "player_step re-steps the previously returned stream before popping the next one")
    ctx.rule("R3.4", "stream_step sets lastclock = event clock + clock offset; update_clocks sets the first clock "
             "at the first event and deltaclock = lastclock - firstclock; player_step hands (lastclock, deltaclock) "
             "to emu_ev, emu_step advances the recorder with ev->dclock, which reaches prv->time; each stream's "
             "clock offset is that of the loom whose hostname matches the table entry")
    ctx.rule("R3.5", "bounded evaluation of heap.h through stream_cmp: all 363 insertion sequences of 1..5 streams "
             "with clocks in {1,2,3} and a fixed sample of 120 sequences of 6..8 streams (thorough tier: all 729 of 6 "
             "and 450 of 7..9) pop in non-decreasing clock order, each stream once; the player protocol "
             "(pop, step, re-insert) on small stream sets yields the k-way merge")

    # ---- R3.1 ----------------------------------------------------------------------
    tl = prog.fn("trace_load", "src/emu/trace.c")
    cs = prog.fn("cmp_streams", "src/emu/trace.c")
    # evaluated on concrete relative paths (strcmp folded when both strings are known)
    def s_strcmp_c(ex_, st_, a, f, e):
        def sv(x):
            if x[0] == "str":
                return x[1]
            if x[0] == "ptr":
                path = x[2][:-1] if x[2] and x[2][-1] == 0 else x[2]
                v = st_.store.get((x[1], path))
                return v[1] if v and v[0] == "str" else None
            return None
        x, y = sv(a[0]), sv(a[1])
        if x is None or y is None:
            return None
        return [(INT((x > y) - (x < y)), {})]
    for (pa_, pb_) in (("loom.a/proc.1/thread.1", "loom.a/proc.1/thread.2"), ("loom.b/proc.1/thread.1", "loom.a/proc.9/thread.9"),
                       ("loom.a/proc.1/thread.1", "loom.a/proc.1/thread.1"), ("loom.a/proc.1/thread.10", "loom.a/proc.1/thread.1"),
                       ("a", "ab")):
        exc = absint.Explorer(prog, effects=eff, loop_bound=40, summaries={"strcmp": s_strcmp_c})
        outs_c = exc.run(cs, [PTR("SA"), PTR("SB")], {("SA", F("stream", "relpath")): ("str", pa_),
                                                     ("SB", F("stream", "relpath")): ("str", pb_)})
        rets = {o.ret for o in outs_c if o.kind == "ret"}
        want = (pa_ > pb_) - (pa_ < pb_)
        good = len(rets) == 1 and list(rets)[0][0] == "int" and \
            ((list(rets)[0][1] > 0) - (list(rets)[0][1] < 0)) == want
        ctx.check(good, "R3.1", "cmp_streams:%s-vs-%s" % (pa_, pb_), cs.loc(),
                  "cmp_streams gives %s for relative paths '%s' and '%s'; the stream order must be the lexicographic order "
                  "of the relative paths" % (sorted(rets, key=str), pa_, pb_))
    walk_flags = []

    def s_nftw(ex_, st, a, f, e):
        walk_flags.append(a[3] if len(a) > 3 else None)
        return [(INT(0), {("WALKED", ()): INT(1), ("SORTED", ()): INT(0)}), (INT(-1), {})]
    ex = absint.Explorer(prog, effects=eff, auto_inline=False, loop_bound=2, summaries={
        "cmp_streams": lambda ex_, st, a, f, e: [(INT(0), {("SORTED", ()): INT(1)})],
        "nftw": s_nftw,
        "opendir": lambda ex_, st, a, f, e: [(PTR("DIR"), {})], "closedir": lambda ex_, st, a, f, e: [(INT(0), {})],
        "snprintf": lambda ex_, st, a, f, e: [(INT(3), {})], "__builtin___snprintf_chk": lambda ex_, st, a, f, e: [(INT(3), {})]})
    # a list of two streams so that the merge sort of DL_SORT has something to compare
    store = {("TR", F("trace", "streams")): PTR("SA"), ("SA", F("stream", "next")): PTR("SB"),
             ("SB", F("stream", "next")): NULL, ("SA", F("stream", "prev")): PTR("SB"), ("SB", F("stream", "prev")): PTR("SA")}
    outs = ex.run(tl, [PTR("TR"), ("str", "dir")], store)
    acc = [o for o in outs if o.kind == "ret" and o.ret == INT(0)]
    ctx.need(acc, "trace_load: no successful path explored")
    # every stream below the trace directory is visited, also through symbolic links (traces are commonly
    # assembled by linking per-node directories): the walk must not be a physical one (FTW_PHYS = 1 in <ftw.h>)
    ctx.check(walk_flags and all(w is not None and w[0] == "int" and not (w[1] & 1) for w in walk_flags), "R3.1",
              "trace_load:walk-follows-links", tl.loc(),
              "the directory walk is started with flags %s: with FTW_PHYS the streams reached through a symbolic link "
              "are silently left out of the replay" % [str(w) for w in walk_flags])
    # memset(trace) at the start wipes the seeded list; detect the sort by the comparator being reached
    uses_sort = any(n["k"] == "CallExpr" and n.get("callee") == "cmp_streams" and "DL_SORT" in " ".join(n.get("m", []))
                    for n in tl.nodes)
    walk = tl.calls("nftw")
    sorts = [i for i in tl.calls("cmp_streams")]
    ctx.check(uses_sort and walk and sorts and all(tl.can_reach(walk[0], s) for s in sorts) and
              all(not tl.can_reach(s, walk[0]) for s in sorts), "R3.1", "trace_load:sorted-after-walk", tl.loc(),
              "trace_load does not sort the streams by relative path after walking the directory")
    rets0 = [r for r in tl.returns() if tl.val(tl.nodes[r]["val"]) == 0]
    # every successful return is reached only through the sort: the walk dominates it and the
    # block holding the sort loop head lies on the way
    lastsort = max(sorts, key=lambda s: tl.where_up(s)) if sorts else None
    good = bool(rets0) and walk and all(tl.dominates(walk[0], r) for r in rets0)
    sort_head = None
    for i, n in enumerate(tl.nodes):
        if n["k"] in ("DoStmt", "WhileStmt", "ForStmt", "IfStmt") and "DL_SORT" in " ".join(n.get("m", [])):
            w = tl.where_up(n.get("cond", i) if n.get("cond", -1) and n.get("cond", -1) >= 0 else i)
            if w is not None and (sort_head is None or w[0] > sort_head[0]):
                sort_head = w
    ctx.check(good and sort_head is not None and all(tl.dominates(sort_head, r) for r in rets0), "R3.1",
              "trace_load:every-success-passes-sort", tl.loc(),
              "a successful return of trace_load can be reached without going through the stream sort")

    # ---- R3.2 -------------------------------------------------------------------------
    check_stream_cmp(ctx, "R3.2")

    # ---- R3.3 ---------------------------------------------------------------------------
    st = prog.fn("step_stream", PL)
    for (active, sret) in ((1, 0), (1, 1), (1, -1), (0, None)):
        ins = []
        ex = absint.Explorer(prog, effects=eff, summaries={
            "stream_step": lambda ex_, st_, a, f, e, r=sret: [(INT(r if r is not None else 0), {})],
            "heap_insert": lambda ex_, st_, a, f, e, ins=ins: (ins.append(tuple(a)), [(TOP, {})])[1]})
        outs = ex.run(st, [PTR("P"), PTR("S1")], {("S1", F("stream", "active")): INT(active)})
        rets = {o.ret for o in outs if o.kind == "ret"}
        inst = "step_stream:active=%d:stream_step=%s" % (active, sret)
        if active and sret == 0:
            good = rets == {INT(0)} and len(ins) == 1 and ins[0][0] == PTR("P", F("player", "heap")) and \
                ins[0][1] == PTR("S1", HH) and ins[0][2] == ("fn", "stream_cmp")
            ctx.check(good, "R3.3", inst, st.loc(), "a stream with a loaded event is not inserted in the player's heap "
                      "with stream_cmp (insert calls: %s, returns %s)" % (ins, rets))
        elif active and sret == 1 or not active:
            ctx.check(not ins and all(r[0] == "int" and r[1] > 0 for r in rets), "R3.3", inst, st.loc(),
                      "an exhausted stream is inserted or not reported as finished (returns %s)" % (rets,))
        else:
            ctx.check(not ins and all(r[0] == "int" and r[1] < 0 for r in rets), "R3.3", inst, st.loc(),
                      "a failing stream_step is not reported (returns %s)" % (rets,))
    pi = prog.fn("player_init", PL)
    # three streams; each may hold events (0) or be exhausted from the start (1, a thread that never flushed):
    # every stream is stepped whatever its neighbours returned
    for script in itertools.product((0, 1), repeat=3):
        def s_step(ex_, st_, a, f, e, script=script):
            k_ = st_.store.get(("NST", ()), INT(0))[1]
            return [(INT(script[min(k_, 2)]), {("STEPPED", (k_,)): a[1], ("NST", ()): INT(k_ + 1)})]
        ex = absint.Explorer(prog, effects=eff, loop_bound=6, summaries={
            "step_stream": s_step,
            "check_clock_gate": lambda ex_, st_, a, f, e: [(INT(0), {})], "heap_init": lambda ex_, st_, a, f, e: [(TOP, {})]})
        store = {("TR", F("trace", "streams")): PTR("S0"), ("S0", F("stream", "next")): PTR("S1"),
                 ("S1", F("stream", "next")): PTR("S2"), ("S2", F("stream", "next")): NULL}
        outs = [o for o in ex.run(pi, [PTR("PLY"), PTR("TR"), INT(0)], store) if o.kind == "ret" and o.ret == INT(0)]
        ctx.need(outs, "player_init: no successful path")
        got_all = []
        for k, o in enumerate(outs):
            n = o.store.get(("NST", ()), INT(0))[1]
            got_all.append([o.store.get(("STEPPED", (i,))) for i in range(n)])
        ctx.check(all(g == [PTR("S0"), PTR("S1"), PTR("S2")] for g in got_all), "R3.3",
                  "player_init:steps-every-stream:empty=%s" % "".join(map(str, script)), pi.loc(),
                  "with streams that are (0: non-empty, 1: exhausted at once) = %s, player_init steps %s of the 3 streams: "
                  "the events of a stream that is never stepped are lost" % (list(script), got_all))
    ps = prog.fn("player_step", PL)
    for prev in (None, "S1"):
        for sret in (0, 1, -1):
            ex = absint.Explorer(prog, effects=eff, summaries={
                "step_stream": lambda ex_, st_, a, f, e, r=sret: [(INT(r), {})],
                "heap_pop_max": lambda ex_, st_, a, f, e: [(PTR("S2", HH), {})],
                "update_clocks": lambda ex_, st_, a, f, e: [(INT(0), {})], "stream_ev": lambda ex_, st_, a, f, e: [(PTR("OEV"), {})],
                "emu_ev": lambda ex_, st_, a, f, e: [(TOP, {})]})
            outs = ex.run(ps, [PTR("PLY")], {("PLY", F("player", "stream")): PTR(prev) if prev else NULL,
                                             ("PLY", F("player", "lastclock")): INT(5), ("PLY", F("player", "deltaclock")): INT(2)})
            inst = "player_step:previous=%s:restep=%d" % (prev, sret)
            for o in outs:
                names = [ev[1] for ev in o.events if ev[0] == "call" and ev[1] in ("step_stream", "heap_pop_max")]
                if prev is None:
                    good = names == ["heap_pop_max"]
                elif sret < 0:
                    good = names == ["step_stream"] and o.kind == "ret" and o.ret != INT(0)
                else:
                    good = names == ["step_stream", "heap_pop_max"]
                if not good:
                    ctx.fail("R3.3", inst, ps.loc(), "player_step calls %s: the previously returned stream must be "
                             "stepped (and re-inserted) before the next one is popped, and its failure reported" % names)
                    break
            else:
                ctx.ok("R3.3", inst, ps.loc())

    # ---- R3.4 --------------------------------------------------------------------------------
    ss = prog.fn("stream_step", "src/emu/stream.c")
    inl = {f.name for f in prog.fns_in("src/emu/stream.c")} | {"ovni_ev_size", "ovni_payload_size",
                                                              "get_jumbo_payload_size", "ovni_ev_get_clock"}
    ex = absint.Explorer(prog, effects=eff, inline=lambda n, d: n in inl and d.name != "stream_step", loop_bound=2,
                         max_depth=5, symbolic_roots=("BUF",), symbolic_ranges={"unsigned long": (0, 2 ** 61)})
    S = ex.sym("size", 8, 2 ** 31 - 1)
    off = ex.sym("off", 8, 2 ** 31 - 1)
    K = ex.sym("clkoff", -2 ** 60, 2 ** 60)
    store = {("ST", F("stream", "active")): INT(1), ("ST", F("stream", "size")): S, ("ST", F("stream", "offset")): off,
             ("ST", F("stream", "buf")): PTR("BUF", (0,)), ("ST", F("stream", "cur_ev")): NULL,
             ("ST", F("stream", "unsorted")): INT(1), ("ST", F("stream", "lastclock")): INT(0),
             ("ST", F("stream", "clock_offset")): K}
    outs = [o for o in ex.run(ss, [PTR("ST")], store, cons=(((("off", 1), ("size", -1)), -1),))
            if o.kind == "ret" and o.ret == INT(0)]
    ctx.need(outs, "stream_step: no successful path")
    bad = 0
    for o in outs:
        lc = to_lin(o.store.get(("ST", F("stream", "lastclock")), TOP))
        if lc is None:
            bad += 1
            continue
        terms = dict(lc[1])
        clk = [k for k in terms if k.startswith("mem") and "clock" in k]
        if not (lc[0] == 0 and terms.get("clkoff") == 1 and len(clk) == 1 and terms[clk[0]] == 1 and len(terms) == 2):
            bad += 1
    ctx.check(bad == 0, "R3.4", "stream_step:lastclock=clock+offset", ss.loc(),
              "the stream's corrected clock is not 'event clock + clock offset' on %d of %d paths" % (bad, len(outs)))
    uc = prog.fn("update_clocks", PL)
    # the last two: a first event whose corrected clock is exactly 0 is an origin like any other
    for (first, firstclock, last, sclock, want_first, want_delta) in ((1, 0, 0, 100, 100, 0), (0, 100, 100, 130, 100, 30),
                                                                       (0, 100, 130, 130, 100, 30), (1, 0, 0, 0, 0, 0),
                                                                       (0, 0, 0, 250, 0, 250)):
        ex = absint.Explorer(prog, effects=eff, summaries={
            "stream_lastclock": lambda ex_, st_, a, f, e, s=sclock: [(INT(s), {})]})
        outs = [o for o in ex.run(uc, [PTR("PLY"), PTR("S1")], {
            ("PLY", F("player", "first_event")): INT(first), ("PLY", F("player", "firstclock")): INT(firstclock),
            ("PLY", F("player", "lastclock")): INT(last), ("PLY", F("player", "unsorted")): INT(0)})
            if o.kind == "ret" and o.ret == INT(0)]
        g = lambda o, x: o.store.get(("PLY", F("player", x)))
        good = bool(outs) and all(g(o, "firstclock") == INT(want_first) and g(o, "lastclock") == INT(sclock) and
                                  g(o, "deltaclock") == INT(want_delta) and g(o, "first_event") == INT(0) for o in outs)
        ctx.check(good, "R3.4", "update_clocks:first=%d:clock=%d" % (first, sclock), uc.loc(),
                  "after an event at corrected clock %d (first clock %s): firstclock/lastclock/deltaclock = %s" %
                  (sclock, want_first, [(g(o, "firstclock"), g(o, "lastclock"), g(o, "deltaclock")) for o in outs]))
    ex = absint.Explorer(prog, effects=eff, summaries={
        "step_stream": lambda ex_, st_, a, f, e: [(INT(0), {})], "heap_pop_max": lambda ex_, st_, a, f, e: [(PTR("S2", HH), {})],
        "update_clocks": lambda ex_, st_, a, f, e: [(INT(0), {("PLY", F("player", "lastclock")): INT(130),
                                                              ("PLY", F("player", "deltaclock")): INT(30)})],
        "stream_ev": lambda ex_, st_, a, f, e: [(PTR("OEV"), {})], "emu_ev": lambda ex_, st_, a, f, e: [(TOP, {})]})
    outs = ex.run(ps, [PTR("PLY")], {("PLY", F("player", "stream")): NULL})
    good = False
    for o in outs:
        for ev in o.events:
            if ev[0] == "call" and ev[1] == "emu_ev":
                good = ev[2] == (PTR("PLY", F("player", "ev")), PTR("OEV"), INT(130), INT(30))
    ctx.check(good, "R3.4", "player_step:emu_ev(lastclock,deltaclock)", ps.loc(),
              "player_step does not decode the popped stream's event with (lastclock, deltaclock)")
    es = prog.fn("emu_step", "src/emu/emu.c")
    ex = absint.Explorer(prog, effects=eff, summaries={
        "player_step": lambda ex_, st_, a, f, e: [(INT(0), {})], "set_current": lambda ex_, st_, a, f, e: [(INT(0), {("EMU", F("emu", "ev")): PTR("EV")})],
        "recorder_advance": lambda ex_, st_, a, f, e: [(INT(0), {("ADV", ()): a[1]})],
        "model_event": lambda ex_, st_, a, f, e: [(INT(0), {})], "bay_propagate": lambda ex_, st_, a, f, e: [(INT(0), {})]})
    outs = [o for o in ex.run(es, [PTR("EMU")], {("EV", F("emu_ev", "dclock")): INT(77), ("EV", F("emu_ev", "sclock")): INT(1077),
                                                  ("EV", F("emu_ev", "rclock")): INT(5077), ("EV", F("emu_ev", "m")): INT(79)})
            if o.kind == "ret" and o.ret == INT(0)]
    ctx.check(outs and all(o.store.get(("ADV", ())) == INT(77) for o in outs), "R3.4", "emu_step:recorder-gets-dclock",
              es.loc(), "the recorder is advanced with %s instead of the event's delta clock" %
              sorted({str(o.store.get(("ADV", ()))) for o in outs}))
    # the recorder advance must come before the model sees the event
    ordered = all([ev[1] for ev in o.events if ev[0] == "call" and ev[1] in ("recorder_advance", "model_event")] ==
                  ["recorder_advance", "model_event"] for o in outs)
    ctx.check(ordered, "R3.4", "emu_step:advance-before-event", es.loc(),
              "the model handles the event before the Paraver time is advanced to it")
    ra = prog.fn("recorder_advance", "src/emu/recorder.c")
    ex = absint.Explorer(prog, effects=eff, loop_bound=4,
                         inline=lambda n, d: n in ("pvt_advance", "prv_advance"))
    PVH = F("pvt", "hh") + F("UT_hash_handle", "next")
    outs = [o for o in ex.run(ra, [PTR("REC"), INT(77)], {("REC", F("recorder", "pvt")): PTR("PV1"), ("PV1", PVH): PTR("PV2"),
                                                           ("PV2", PVH): NULL,
                                                           ("PV1", F("pvt", "prv") + F("prv", "time")): INT(5),
                                                           ("PV2", F("pvt", "prv") + F("prv", "time")): INT(5)})
            if o.kind == "ret" and o.ret == INT(0)]
    ctx.check(outs and all(o.store.get(("PV1", F("pvt", "prv") + F("prv", "time"))) == INT(77) and
                           o.store.get(("PV2", F("pvt", "prv") + F("prv", "time"))) == INT(77) for o in outs), "R3.4",
              "recorder_advance:every-prv-gets-the-time", ra.loc(), "recorder_advance does not set every trace's time")
    pc = prog.fn("parse_clkoff_entry", "src/emu/system.c")

    # four looms; the 2nd and the 4th are on the host of the table entry (one loom per process: a host with
    # several processes has several looms, and every one of them needs the host's offset)
    # concrete host names (one is a proper prefix of another, one a proper extension), compared by whatever
    # string routine or loop the code uses
    from rules.strutil import FOLD as _FOLD
    ex = absint.Explorer(prog, effects=eff, loop_bound=12, summaries=dict(_FOLD))
    store = {("L1", F("loom", "next")): PTR("L2"), ("L2", F("loom", "next")): PTR("L3"),
             ("L3", F("loom", "next")): PTR("L4"), ("L4", F("loom", "next")): NULL,
             ("ENT", F("clkoff_entry", "median")): INT(42), ("ENT", F("clkoff_entry", "name")): ("str", "node7"),
             ("L1", F("loom", "hostname")): ("str", "node"), ("L2", F("loom", "hostname")): ("str", "node7"),
             ("L3", F("loom", "hostname")): ("str", "node71"), ("L4", F("loom", "hostname")): ("str", "node7")}
    for l in ("L1", "L2", "L3", "L4"):
        store[(l, F("loom", "id"))] = ("str", "loom." + l)
    for l in ("L1", "L2", "L3", "L4"):
        store[(l, F("loom", "clock_offset"))] = INT(0)
    outs = [o for o in ex.run(pc, [PTR("L1"), PTR("ENT")], store) if o.kind == "ret" and o.ret == INT(0)]
    got = sorted({tuple(o.store.get((l, F("loom", "clock_offset"))) for l in ("L1", "L2", "L3", "L4")) for o in outs}, key=str)
    ctx.check(outs and got == [(INT(0), INT(42), INT(0), INT(42))], "R3.4",
              "parse_clkoff_entry:offset-to-matching-hostname", pc.loc(),
              "with looms 2 and 4 of 4 on the entry's host, the looms' clock offsets become %s: the entry's offset must "
              "go to every loom whose hostname matches and to no other" % (got,))
    io = prog.fn("init_offsets", "src/emu/system.c")
    sets = []
    ex = absint.Explorer(prog, effects=eff, loop_bound=4, summaries={
        "clkoff_count": lambda ex_, st_, a, f, e: [(INT(0), {})],
        "system_get_lpt": lambda ex_, st_, a, f, e: [(PTR("LPT"), {})],
        "stream_clkoff_set": lambda ex_, st_, a, f, e, sets=sets: (sets.append(tuple(a)), [(INT(0), {})])[1]})
    ex.run(io, [PTR("SYS"), PTR("TR")], {("TR", F("trace", "streams")): PTR("S1"), ("S1", F("stream", "next")): NULL,
                                         ("LPT", F("lpt", "loom")): PTR("L2"), ("L2", F("loom", "clock_offset")): INT(42),
                                         ("SYS", F("system", "nlooms")): INT(1)})
    ctx.check((PTR("S1"), INT(42)) in sets, "R3.4", "init_offsets:stream-gets-its-loom-offset", io.loc(),
              "a stream does not receive the clock offset of its loom (%s)" % (sets,))
    # every entry of the clock table is applied, whatever its rank column and its position
    parsed = []
    ex = absint.Explorer(prog, effects=eff, loop_bound=6, summaries={
        "clkoff_count": lambda ex_, st_, a, f, e: [(INT(3), {})],
        "clkoff_get": lambda ex_, st_, a, f, e: [(PTR("E%d" % a[1][1]) if a[1][0] == "int" else TOP, {})],
        "parse_clkoff_entry": lambda ex_, st_, a, f, e, parsed=parsed: (parsed.append(a[1]), [(INT(0), {})])[1],
        "system_get_lpt": lambda ex_, st_, a, f, e: [(NULL, {})],
        "stream_clkoff_set": lambda ex_, st_, a, f, e: [(INT(0), {})]})
    st3 = {("TR", F("trace", "streams")): NULL, ("SYS", F("system", "nlooms")): INT(3),
           ("SYS", F("system", "looms")): PTR("L1")}
    for k_ in range(3):
        st3[("E%d" % k_, F("clkoff_entry", "index"))] = INT(k_)
        st3[("E%d" % k_, F("clkoff_entry", "median"))] = INT(4050 + k_)
        st3[("E%d" % k_, F("clkoff_entry", "name"))] = ("str", "host%d" % k_)
    outs3 = [o for o in ex.run(io, [PTR("SYS"), PTR("TR")], st3) if o.kind == "ret" and o.ret == INT(0)]
    ctx.need(outs3, "init_offsets: no successful path with a clock table of three entries")
    miss = [k_ for k_ in range(3) if PTR("E%d" % k_) not in parsed]
    ctx.check(not miss, "R3.4", "init_offsets:every-table-entry-applied", io.loc(),
              "entries %s of a clock table of 3 (rank column 0, 1, 2, all with a non-zero offset) are never handed to "
              "parse_clkoff_entry: the streams of that host are replayed with uncorrected clocks" % miss)

    # ---- R3.5 -------------------------------------------------------------------------------------
    ins = prog.fn("heap_insert", "src/include/heap.h")
    pop = prog.fn("heap_pop_max", "src/include/heap.h")
    exh = absint.Explorer(prog, effects=eff, max_depth=14, loop_bound=16, max_paths=5000,
                          inline=lambda n, d: d.file.endswith("heap.h") or n in ("stream_cmp", "stream_lastclock"))

    def one(fn, args, store):
        outs = exh.run(fn, args, store)
        live = [o for o in outs if o.kind in ("ret", "exit")]
        if len(outs) != 1 or len(live) != 1:
            return None
        return live[0]

    def clk(store, name):
        return store[(name, F("stream", "lastclock"))][1]
    nseq = 0
    import random
    rnd = random.Random(20240917)
    seqs = [keys for n in range(1, 6) for keys in itertools.product((1, 2, 3), repeat=n)]
    if ctx.tier == "thorough":
        seqs += list(itertools.product((1, 2, 3), repeat=6))
        seqs += [tuple(rnd.randint(1, 5) for _ in range(n)) for n in (7, 8, 9) for _ in range(150)]
    else:
        # deeper heaps (three and four levels), a fixed pseudo-random sample
        seqs += [tuple(rnd.randint(1, 4) for _ in range(n)) for n in (6, 7, 8) for _ in range(40)]
    for keys in seqs:
        if True:
            n = len(keys)
            nseq += 1
            store = {("H", F("head_head", "root")): NULL, ("H", F("head_head", "size")): INT(0)}
            for i, k in enumerate(keys):
                store[("S%d" % i, F("stream", "lastclock"))] = INT(k)
            bad = None
            for i in range(n):
                o = one(ins, [PTR("H"), PTR("S%d" % i, HH), ("fn", "stream_cmp")], store)
                if o is None:
                    bad = "heap_insert does not return normally on its single path"
                    break
                store = o.store
            order = []
            if bad is None:
                for i in range(n):
                    o = one(pop, [PTR("H"), ("fn", "stream_cmp")], store)
                    if o is None or o.ret is None or o.ret[0] != "ptr":
                        bad = "heap_pop_max returns %s with %d elements left" % (o and o.ret, n - i)
                        break
                    store = o.store
                    order.append(o.ret[1])
            if bad is None:
                o = one(pop, [PTR("H"), ("fn", "stream_cmp")], store)
                if o is None or o.ret != NULL:
                    bad = "the heap is not empty after popping every element"
                elif sorted(order) != ["S%d" % i for i in range(n)]:
                    bad = "popped %s: not each stream exactly once" % order
                elif [keys[int(x[1:])] for x in order] != sorted(keys):
                    bad = "popped clocks %s are not in non-decreasing order" % [keys[int(x[1:])] for x in order]
            ctx.check(bad is None, "R3.5", "heap:insert-pop:clocks=%s" % ("".join(map(str, keys))), ins.loc(),
                      "streams with last clocks %s inserted in this order: %s" % (list(keys), bad))
    # player protocol: k-way merge of small streams
    cases = [([1, 4], [2, 3], [2]), ([1, 1, 1], [1, 1]), ([5], [1, 2, 3, 4, 6]), ([2, 2], [2, 2], [1, 3]), ([1], [1], [1], [1]),
             ([1, 9], [2, 8], [3, 7], [4, 6], [5, 5], [6, 6]), ([3, 4, 9], [1, 2], [2, 6], [5, 7, 8], [1, 1], [4], [2, 3, 3]),
             tuple([i, i + 8] for i in range(1, 9))]
    for streams in cases:
        store = {("H", F("head_head", "root")): NULL, ("H", F("head_head", "size")): INT(0)}
        pos = [0] * len(streams)
        bad = None
        for i, evs in enumerate(streams):
            store[("S%d" % i, F("stream", "lastclock"))] = INT(evs[0])
            o = one(ins, [PTR("H"), PTR("S%d" % i, HH), ("fn", "stream_cmp")], store)
            if o is None:
                bad = "insert failed"
                break
            store = o.store
        out = []
        prev = None
        while bad is None:
            if prev is not None:
                pos[prev] += 1
                if pos[prev] < len(streams[prev]):
                    store[("S%d" % prev, F("stream", "lastclock"))] = INT(streams[prev][pos[prev]])
                    o = one(ins, [PTR("H"), PTR("S%d" % prev, HH), ("fn", "stream_cmp")], store)
                    if o is None:
                        bad = "re-insert failed"
                        break
                    store = o.store
            o = one(pop, [PTR("H"), ("fn", "stream_cmp")], store)
            if o is None:
                bad = "pop failed"
                break
            store = o.store
            if o.ret == NULL:
                break
            prev = int(o.ret[1][1:])
            out.append((prev, streams[prev][pos[prev]]))
        if bad is None:
            clocks = [c for _, c in out]
            total = sum(len(s) for s in streams)
            if len(out) != total:
                bad = "%d of %d events replayed" % (len(out), total)
            elif clocks != sorted(clocks):
                bad = "events replayed with clocks %s" % clocks
            else:
                for i, evs in enumerate(streams):
                    if [c for s, c in out if s == i] != evs:
                        bad = "events of stream %d replayed as %s" % (i, [c for s, c in out if s == i])
        ctx.check(bad is None, "R3.5", "heap:player-protocol:%s" % "|".join(",".join(map(str, s)) for s in streams),
                  pop.loc(), "pop / step / re-insert over streams %s: %s" % (streams, bad))


_run_base = run


def run(ctx):
    _run_base(ctx)
    prog = ctx.prog
    ctx.rule("R3.6", "the offset applied to a host's streams is the offset column of the clock table: the field that "
             "receives the third conversion of the table parser's sscanf (offset_median in the table ovnisync writes) is "
             "the field parse_clkoff_entry turns into the loom's clock offset (identified by value, not by name)")
    from rules import round4
    round4.check_clock_table_column(ctx, "R3.6")
    ctx.rule("R3.7", "ovnidump replays every event of any loadable trace: it starts the player in unsorted mode, the "
             "emulator in strict mode")
    from rules import round6
    round6.check_dump_player_mode(ctx, "R3.7")

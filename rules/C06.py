"""C06 — view consistency (tracking tables, selectors, mux wiring and protocol).

R6.1 tracking tables are total; CPU tracking is TRACK_TH_RUN everywhere
R6.2 tracking mode -> selector -> state set
R6.3 CPU mux wiring (select = running-thread channel, input gindex = that thread's channel i)
R6.4 mux protocol (cb_select / cb_input) and bay_propagate phase order
R6.5 the CPU muxes' select (running-thread channel) is the unique running thread or null
R6.6 that select is recomputed after every change of a thread's state or CPU (C05 R5.1's instances)
"""
import json
import os

from ovsa import absint, effects, models
from ovsa.absint import INT, NULL, PTR, TOP
from ovsa.facts import VERIF


def F(rec, field):
    return ((rec, field),)


def c04():
    with open(os.path.join(VERIF, "spec", "C04.json")) as f:
        return json.load(f)


def run(ctx):
    prog = ctx.prog
    sp = c04()
    eff = effects.Effects(prog)
    E = prog.enum_val
    ctx.rule("R6.1", "every model's thread and CPU tracking tables have an explicit entry for each channel "
             "(an omitted designator silently means TRACK_TH_ANY) and every CPU entry is TRACK_TH_RUN, the only "
             "mode the CPU multiplexers implement")
    ctx.rule("R6.2", "track_th_input_chan wires ANY to the channel itself, RUN to thread_select_running and ACT "
             "to thread_select_active; those selectors pick input 0 exactly for {running} resp. "
             "{running, cooling, warming} and nothing for null / other states")
    ctx.rule("R6.3", "connect_cpu (model_cpu.c and its twin in ovni/mark.c): the select channel is the CPU's "
             "running-thread channel, there are system.nthreads inputs, input t->gindex is thread t's channel i "
             "for track i")
    ctx.rule("R6.4", "cb_select disables the previously selected input before enabling the new one and writes "
             "the new input's value, or the mux default when none, to the output; cb_input forwards to the same "
             "output; bay_propagate runs dirty callbacks, then emit callbacks, then flushes, then clears the "
             "dirty list")
    ctx.rule("R6.5", "the select of every CPU multiplexer, the CPU's running-thread channel, is set by cpu_update to "
             "the gindex of the running thread when exactly one thread of the CPU is running and to null when none "
             "or several are (evaluated on every list of 0..2 threads in every state, physical and virtual CPUs), so "
             "a CPU row shows the unique running thread's value and nothing / the default otherwise")
    ctx.rule("R6.6", "the select is refreshed whenever it can change: every accepted thread state or affinity change "
             "is followed by a recount (cpu_update) of each CPU involved, and cpu_add/remove/migrate_thread recount "
             "after changing the list (the instances of C05 R5.1, on which the CPU half of view consistency rests)")
    RUN, ACT, ANY = E("TRACK_TH_RUN"), E("TRACK_TH_ACT"), E("TRACK_TH_ANY")

    # ---- R6.6 ----------------------------------------------------------------
    from rules import C05 as _c05
    from ovsa.engine import Ctx as _Ctx
    sub = _Ctx("C05", prog, ctx.root, "quick")
    from rules.round3 import run_lender as _run_lender
    _run_lender(_c05, sub, ctx)
    n66 = 0
    for i_ in sub.instances:
        if i_["rule"] != "R5.1":
            continue
        n66 += 1
        if i_["ok"]:
            ctx.ok("R6.6", "recount:" + i_["inst"], i_["where"])
        else:
            ctx.fail("R6.6", "recount:" + i_["inst"], i_["where"], i_["what"] + " (the CPU's running-thread channel, "
                     "select of its multiplexers, keeps a stale thread)")
    ctx.need(n66 >= 20 or getattr(sub, "lender_broken", None), "R6.6: only %d recount instances" % n66)

    # ---- R6.5 ----------------------------------------------------------------
    from rules.C05 import cpu_update_cases
    thrun = E("CPU_CHAN_THRUN")
    cuf = prog.fn("cpu_update", "src/emu/cpu.c")
    for (tag, virt, states, acc, sets, run_idx, act_idx) in cpu_update_cases(ctx, prog, eff, sp, maxn=2):
        if not acc:
            continue        # rejected configuration (oversubscribed physical CPU): C05 R5.2
        want = ("val", "i64", INT(10 + run_idx[0])) if len(run_idx) == 1 else ("val", "null")
        ctx.check(sets.get(thrun) == want, "R6.5", "cpu_update:" + tag + ":select", cuf.loc(),
                  "with %d running thread(s) the CPU's running-thread channel (select of the CPU muxes) receives %s, "
                  "expected %s" % (len(run_idx), sets.get(thrun), "that thread's gindex" if len(run_idx) == 1 else "null"))

    # ---- R6.1 ----------------------------------------------------------------
    ms = models.discover(prog)
    for m in ms:
        for kind in ("thread", "cpu"):
            cs = models.chan_spec(prog, m, kind)
            if cs is None:
                continue
            where = "%s:%d" % (cs["track_global"]["file"], cs["track_global"]["line"]) if cs["track_global"] else m.file
            for i in range(cs["nch"]):
                inst = "%s:%s:ch%d(%s)" % (m.name, kind, i, cs["names"].get(i))
                ctx.check(i in cs["track_explicit"], "R6.1", inst + ":explicit", where,
                          "no tracking mode is given for channel %s of the %s %s table: it silently becomes "
                          "TRACK_TH_ANY" % (cs["names"].get(i), m.name, kind))
                if kind == "cpu":
                    ctx.check(cs["track"].get(i, ANY) == RUN, "R6.1", inst + ":cpu-run", where,
                              "CPU tracking mode of channel %s is %s; connect_cpu only implements TRACK_TH_RUN"
                              % (cs["names"].get(i), cs["track"].get(i)))
                else:
                    ctx.check(cs["track"].get(i, ANY) in (RUN, ACT, ANY), "R6.1", inst + ":valid-mode", where,
                              "invalid tracking mode %s" % cs["track"].get(i))

    # ---- R6.2 ----------------------------------------------------------------
    # entered through the module's public function (one track, one channel): independent of how track.c
    # splits the work among its static helpers
    tic = prog.fn("track_connect_thread", "src/emu/track.c")
    TRK, INP0 = PTR("TR", (0,)), PTR("INP", (0,))
    for mode, want in ((ANY, None), (RUN, "thread_select_running"), (ACT, "thread_select_active")):
        calls = []

        def mk(name):
            def s(ex, st, args, f, e):
                calls.append((name, tuple(args)))
                return [(INT(0), {})]
            return s
        ex = absint.Explorer(prog, effects=eff, loop_bound=3,
                             summaries={"track_set_select": mk("select"), "track_set_input": mk("input")})
        outs = ex.run(tic, [TRK, INP0, PTR("SEL"), INT(1)], {("TR", (0,) + F("track", "mode")): INT(mode)})
        acc = [o for o in outs if o.kind == "ret" and o.ret == INT(0)]
        inst = "track_connect_thread:mode=%d" % mode
        if want is None:
            good = bool(acc) and not calls and all(o.store.get(("TR", (0,) + F("track", "out"))) == INP0 for o in acc)
            ctx.check(good, "R6.2", inst, tic.loc(), "TRACK_TH_ANY does not follow the input channel directly")
        else:
            sel = [c for c in calls if c[0] == "select"]
            inp = [c for c in calls if c[0] == "input"]
            good = bool(acc) and len(sel) >= 1 and all(c[1][0] == TRK and c[1][1] == PTR("SEL") and
                                                       c[1][2] == ("fn", want) and c[1][3] == INT(1) for c in sel) \
                and len(inp) >= 1 and all(c[1] == (TRK, INT(0), INP0) for c in inp)
            ctx.check(good, "R6.2", inst, tic.loc(),
                      "mode %d wires %s / %s; expected select=%s, one input" % (mode, sel, inp, want))
    outs = absint.Explorer(prog, effects=eff, loop_bound=3).run(tic, [TRK, INP0, PTR("SEL"), INT(1)],
                                                                {("TR", (0,) + F("track", "mode")): INT(E("TRACK_TH_MAX"))})
    ctx.check(not [o for o in outs if o.kind == "ret" and o.ret == INT(0)], "R6.2",
              "track_connect_thread:invalid-mode", tic.loc(), "an invalid tracking mode is accepted")
    names = [e[0] for e in prog.enums["thread_state"]["enumerators"]]
    VT = {n: E(n) for n in ("VALUE_NULL", "VALUE_INT64")}
    for fname, okset in (("thread_select_running", sp["running"]), ("thread_select_active", sp["active"])):
        fn = prog.fn(fname, "src/emu/thread.c")

        def s_get(ex, st, args, f, e):
            return [(PTR("MUXIN", (args[1][1] if args[1][0] == "int" else -1,)), {})]
        ex = absint.Explorer(prog, effects=eff, summaries={"mux_get_input": s_get},
                             inline=lambda n, d: d.file == "src/emu/thread.c", max_depth=4)
        for stname in names + ["null"]:
            if stname == "null":
                val = {F("value", "type"): INT(VT["VALUE_NULL"])}
            else:
                val = {F("value", "type"): INT(VT["VALUE_INT64"]), F("value", "i"): INT(E(stname))}
            outs = ex.run(fn, [PTR("MUX"), val, PTR("OUT")], {("MUX", F("mux", "ninputs")): INT(1),
                                                             ("OUT", ()): ("val", "unset")})
            acc = [o for o in outs if o.kind == "ret" and o.ret == INT(0)]
            inst = "%s:%s" % (fname, stname)
            want = PTR("MUXIN", (0,)) if stname in okset else NULL
            good = bool(acc) and all(o.store.get(("OUT", ())) == want for o in acc)
            ctx.check(good, "R6.2", inst, fn.loc(),
                      "state %s selects %s, expected %s" %
                      (stname, sorted({str(o.store.get(("OUT", ()))) for o in acc}), "input 0" if want != NULL else "nothing"))

    # ---- R6.3 ----------------------------------------------------------------
    nosv = [m for m in ms if m.name == "nosv"][0]
    cps = models.find_spec(prog, nosv, "cpu")
    nch = models.chan_spec(prog, nosv, "cpu")["nch"]
    for (fname, file, kind) in (("connect_cpu", "src/emu/model_cpu.c", "model"),
                                ("connect_cpu_prv", "src/emu/ovni/mark.c", "mark")):
        fn = prog.fn(fname, file)
        calls = []

        def mk2(name):
            def s(ex, st, args, f, e):
                calls.append((name, tuple(args)))
                return [(INT(0), {})]
            return s

        def s_ext(ex, st, args, f, e):
            a = args[0]
            root = a[1] if a[0] == "ptr" else "?"
            return [(PTR("EXT:%s" % root), {})]
        fv = {("model_cpu", "spec"): PTR(("G", cps["file"], cps["name"])),
              ("model_cpu", "track"): PTR("TRACKS", (0,)), ("model_thread", "ch"): PTR("CHS", (0,)),
              ("ovni_mark_emu", "types"): PTR("MT1"), ("UT_hash_handle", "next"): NULL,
              ("thread", "gnext"): NULL, ("ovni_mark_cpu", "track"): PTR("TRACKS", (0,)),
              ("ovni_mark_thread", "channels"): PTR("CHS", (0,))}
        ex = absint.Explorer(prog, effects=eff, loop_bound=60, field_values=fv,
                             inline=lambda n, d: n == "cpu_get_th_chan" or n == "get_model_cpu",
                             summaries={"track_set_select": mk2("select"), "track_set_input": mk2("input"),
                                        "extend_get": s_ext, "prv_register": mk2("prv"),
                                        "track_get_output": lambda ex_, st, args, f, e: [(PTR("OUTCH"), {})]})
        store = {("EMU", F("emu", "system") + F("system", "nthreads")): INT(9),
                 ("EMU", F("emu", "system") + F("system", "threads")): PTR("T1"),
                 ("T1", F("thread", "gindex")): INT(5), ("T1", F("thread", "gnext")): NULL,
                 ("MT1", F("mark_type", "index")): INT(3), ("MT1", F("mark_type", "prvtype")): INT(105),
                 ("MT1", F("mark_type", "hh") + F("UT_hash_handle", "next")): NULL,
                 ("SCPU", F("cpu", "gindex")): INT(2)}
        args = [PTR("EMU"), PTR("SCPU")] + ([INT(ord("V"))] if kind == "model" else [PTR("PRV")])
        outs = ex.run(fn, args, store)
        acc = [o for o in outs if o.kind == "ret" and o.ret == INT(0)]
        if not acc:
            ctx.fail("R6.3", "%s:%s:connects" % (kind, fname), fn.loc(),
                     "%s has no accepting path with the nOS-V CPU channel spec (a tracking mode it refuses?)" % fname)
            continue
        selch = PTR("SCPU", F("cpu", "chan") + (E("CPU_CHAN_THRUN"),))
        idxs = range(nch) if kind == "model" else [3]
        for i in idxs:
            inst = "%s:%s:track%d" % (kind, fname, i)
            trk = PTR("TRACKS", (i,))
            inch = PTR("CHS", (i,))
            sel = [c for c in calls if c[0] == "select" and c[1][0] == trk]
            good_sel = bool(sel) and all(c[1][1] == selch and c[1][2] == NULL and c[1][3] == INT(9) for c in sel)
            ctx.check(good_sel, "R6.3", inst + ":select", fn.loc(),
                      "track %d: select wiring is %s; expected (cpu running-thread channel, default selector, "
                      "nthreads inputs)" % (i, [c[1][1:] for c in sel]))
            inp = [c for c in calls if c[0] == "input" and c[1][0] == (sel[0][1][0] if sel else None)]
            good_in = bool(inp) and all(c[1][1] == INT(5) and c[1][2] == inch for c in inp)
            ctx.check(good_in, "R6.3", inst + ":input", fn.loc(),
                      "track %d: inputs are %s; expected input t->gindex (5) = thread's channel %d" %
                      (i, [c[1][1:] for c in inp], i))
    # default_select: key = gindex with bounds
    ds = prog.fn("default_select", "src/emu/mux.c")
    ex = absint.Explorer(prog, effects=eff)
    for key in (-1, 0, 3, 4, 5):
        val = {F("value", "type"): INT(VT["VALUE_INT64"]), F("value", "i"): INT(key)}
        outs = ex.run(ds, [PTR("MUX"), val, PTR("OUT")], {("MUX", F("mux", "ninputs")): INT(4),
                                                         ("MUX", F("mux", "inputs")): PTR("INS", (0,)),
                                                         ("OUT", ()): ("val", "unset")})
        acc = [o for o in outs if o.kind == "ret" and o.ret == INT(0)]
        inst = "default_select:key=%d:ninputs=4" % key
        if 0 <= key < 4:
            ctx.check(bool(acc) and all(o.store.get(("OUT", ())) == PTR("INS", (key,)) for o in acc), "R6.3", inst,
                      ds.loc(), "key %d does not select input %d" % (key, key))
        else:
            ctx.check(not acc, "R6.3", inst, ds.loc(), "out-of-range key %d is accepted (index past inputs[])" % key)
    outs = ex.run(ds, [PTR("MUX"), {F("value", "type"): INT(VT["VALUE_NULL"])}, PTR("OUT")],
                  {("MUX", F("mux", "ninputs")): INT(4), ("OUT", ()): ("val", "unset")})
    ctx.check(any(o.kind == "ret" and o.ret == INT(0) and o.store.get(("OUT", ())) == NULL for o in outs), "R6.3",
              "default_select:null-key", ds.loc(), "a null key does not select 'no input'")

    # ---- R6.4 cb_select ------------------------------------------------------------
    cbs = prog.fn("cb_select", "src/emu/mux.c")
    for old in (-1, 0):
        for new in (None, 1):
            def s_sel(ex_, st, args, f, e, new=new):
                a = args[2]
                tgt = PTR("INS", (new,)) if new is not None else NULL
                if a[0] != "ptr":
                    return [(INT(0), {})]
                return [(INT(0), {(a[1], a[2]): tgt})]

            def s_read(ex_, st, args, f, e):
                a = args[1]
                if a[0] != "ptr":
                    return [(INT(0), {})]
                return [(INT(0), {(a[1], a[2]): ("val", "read", args[0])})]
            ex = absint.Explorer(prog, effects=eff, summaries={"select_input": s_sel, "chan_read": s_read,
                                                                "chan_set": lambda ex_, st, args, f, e: [(INT(0), {})]})
            store = {("MUX", F("mux", "selected")): INT(old), ("MUX", F("mux", "inputs")): PTR("INS", (0,)),
                     ("MUX", F("mux", "def")): ("val", "default"), ("MUX", F("mux", "output")): PTR("OUTCH"),
                     ("INS", (0,) + F("mux_input", "cb")): PTR("CB0"), ("INS", (1,) + F("mux_input", "cb")): PTR("CB1"),
                     ("INS", (0,) + F("mux_input", "selected")): INT(1 if old == 0 else 0),
                     ("INS", (1,) + F("mux_input", "selected")): INT(0),
                     ("INS", (1,) + F("mux_input", "index")): INT(1),
                     ("INS", (1,) + F("mux_input", "chan")): PTR("INCH1")}
            outs = ex.run(cbs, [PTR("SELCH"), PTR("MUX")], store)
            acc = [o for o in outs if o.kind == "ret" and o.ret == INT(0)]
            inst = "cb_select:old=%s:new=%s" % ("none" if old < 0 else old, "none" if new is None else new)
            bad = []
            if not acc:
                bad.append("no accepting path")
            for o in acc:
                names_ = [(ev[1], ev[2]) for ev in o.events if ev[0] == "call"]
                dis = [i for i, c in enumerate(names_) if c[0] == "bay_disable_cb"]
                ena = [i for i, c in enumerate(names_) if c[0] == "bay_enable_cb"]
                cset = [c for c in names_ if c[0] == "chan_set"]
                if old == 0:
                    if not dis or names_[dis[0]][1] != (PTR("CB0"),):
                        bad.append("previously selected input is not disabled")
                    if o.store.get(("INS", (0,) + F("mux_input", "selected"))) != INT(0):
                        bad.append("old input stays marked selected")
                else:
                    if dis:
                        bad.append("disables an input although none was selected")
                if new is not None:
                    if not ena or names_[ena[0]][1] != (PTR("CB1"),):
                        bad.append("newly selected input is not enabled")
                    if dis and ena and dis[0] > ena[0]:
                        bad.append("new input enabled before the old one is disabled")
                    if o.store.get(("MUX", F("mux", "selected"))) != INT(1):
                        bad.append("mux->selected is not the new input's index")
                    want = ("val", "read", PTR("INCH1"))
                else:
                    if ena:
                        bad.append("enables an input although the selector chose none")
                    if o.store.get(("MUX", F("mux", "selected"))) != INT(-1):
                        bad.append("mux->selected is not reset")
                    want = ("val", "default")
                if not cset or cset[-1][1][0] != PTR("OUTCH") or cset[-1][1][1] != want:
                    bad.append("output receives %s, expected %s" % (cset[-1][1] if cset else None, want))
            ctx.check(not bad, "R6.4", inst, cbs.loc(), "; ".join(sorted(set(bad))))
    cbi = prog.fn("cb_input", "src/emu/mux.c")
    ex = absint.Explorer(prog, effects=eff, summaries={
        "chan_read": lambda ex_, st, args, f, e: [(INT(0), {(args[1][1], args[1][2]): ("val", "read", args[0])})]
        if args[1][0] == "ptr" else [(INT(0), {})],
        "chan_set": lambda ex_, st, args, f, e: [(INT(0), {})]})
    outs = ex.run(cbi, [PTR("INCH"), PTR("INPUT")], {("INPUT", F("mux_input", "output")): PTR("OUTCH")})
    good = False
    for o in outs:
        if o.kind == "ret" and o.ret == INT(0):
            cs_ = [ev[2] for ev in o.events if ev[0] == "call" and ev[1] == "chan_set"]
            good = bool(cs_) and cs_[-1] == (PTR("OUTCH"), ("val", "read", PTR("INCH")))
    ctx.check(good, "R6.4", "cb_input:forwards-to-output", cbi.loc(),
              "cb_input does not forward the changed input value to the mux output")

    # ---- R6.4 bay_propagate -----------------------------------------------------------
    bp = prog.fn("bay_propagate", "src/emu/bay.c")
    for n in (1, 2):
        calls = []

        def mk3(name):
            def s(ex_, st, args, f, e):
                calls.append((name, tuple(args)))
                return [(INT(0), {})]
            return s
        ex = absint.Explorer(prog, effects=eff, loop_bound=5,
                             summaries={"propagate_chan": mk3("prop"), "chan_flush": mk3("flush")})
        store = {("BAY", F("bay", "dirty")): PTR("BC0")}
        for i in range(n):
            store[("BC%d" % i, F("bay_chan", "next"))] = PTR("BC%d" % (i + 1)) if i + 1 < n else NULL
            store[("BC%d" % i, F("bay_chan", "chan"))] = PTR("CH%d" % i)
            store[("BC%d" % i, F("bay_chan", "is_dirty"))] = INT(1)
        outs = ex.run(bp, [PTR("BAY")], store)
        acc = [o for o in outs if o.kind == "ret" and o.ret == INT(0)]
        D, Em = E("BAY_CB_DIRTY"), E("BAY_CB_EMIT")
        want = [("prop", (PTR("BC%d" % i), INT(D))) for i in range(n)] + \
               [("prop", (PTR("BC%d" % i), INT(Em))) for i in range(n)] + \
               [("flush", (PTR("CH%d" % i),)) for i in range(n)]
        bad = []
        if not acc:
            bad.append("no accepting path")
        for o in acc:
            seq = []
            for ev in o.events:
                if ev[0] == "call" and ev[1] == "propagate_chan":
                    seq.append(("prop", ev[2]))
                elif ev[0] == "call" and ev[1] == "chan_flush":
                    seq.append(("flush", ev[2]))
            if seq != want:
                bad.append("phase order is %s" % [(a, [str(x[1:]) for x in b]) for a, b in seq])
            if o.store.get(("BAY", F("bay", "dirty"))) != NULL:
                bad.append("dirty list not cleared")
            if o.store.get(("BAY", F("bay", "state"))) != INT(E("BAY_READY")):
                bad.append("bay does not return to READY")
            for i in range(n):
                if o.store.get(("BC%d" % i, F("bay_chan", "is_dirty"))) != INT(0):
                    bad.append("channel %d stays dirty" % i)
        ctx.check(not bad, "R6.4", "bay_propagate:%d-dirty-channels" % n, bp.loc(), "; ".join(sorted(set(bad))))
    # a failing dirty callback aborts before the emit phase
    ex = absint.Explorer(prog, effects=eff, loop_bound=4, summaries={
        "propagate_chan": lambda ex_, st, args, f, e: [(INT(-1), {})]})
    outs = ex.run(bp, [PTR("BAY")], {("BAY", F("bay", "dirty")): PTR("BC0"), ("BC0", F("bay_chan", "next")): NULL})
    ctx.check(not [o for o in outs if o.kind == "ret" and o.ret == INT(0)], "R6.4", "bay_propagate:callback-failure",
              bp.loc(), "bay_propagate succeeds although a callback failed")
    ctx.rule("R6.7", "the read side of a channel: chan_read yields the value last set / the top of the stack / null for an empty stack, chan_flush clears the dirty mark and remembers that value, value_is_equal compares type and payload (what the multiplexers and the trace writers see); mux_init/mux_set_input register the select callback enabled and the input callbacks disabled and refuse the output as an input; the bay calls exactly the enabled callbacks of a phase, in order, with (channel, argument), and a failing callback fails the propagation")
    from rules import infra
    infra.check_value(ctx, 'R6.7'); infra.check_chan_read(ctx, 'R6.7'); infra.check_mux_setup(ctx, 'R6.7'); infra.check_bay(ctx, 'R6.7')
    ctx.rule("R6.8", "the tracking mode a model declares for a thread channel is the one its shipped Paraver view documents: cfg/thread/<model>/*.cfg select a PRV type and are named '... of the ACTIVE thread' or '... of the RUNNING thread'; the th_track entry of the channel with that type must be TRACK_TH_ACT resp. TRACK_TH_RUN")
    from rules import round3
    round3.check_track_mode_vs_cfg(ctx, 'R6.8')


_run_base = run


def run(ctx):
    _run_base(ctx)
    prog = ctx.prog
    ctx.rule("R6.9", "each thread's tracking multiplexers take that thread's channels and select on that thread's own "
             "state channel (model_thread_connect evaluated on three threads)")
    from rules import round4
    round4.check_thread_tracks_select_own_state(ctx, "R6.9")
    ctx.rule("R6.10", "the idle default of a CPU: the value a CPU's idle track shows without a unique running thread is "
             "the state labelled Resting in nOS-V and Nanos6 alike, not the Progressing a thread starts with")
    from rules import round5
    round5.check_idle_default(ctx, "R6.10")
    ctx.rule("R6.11", "the thread timeline records the output of each channel's tracking multiplexer (every tracking "
             "mode), and track_init keeps the mode it is given")
    from rules import round6
    round6.check_thread_prv_uses_track_output(ctx, "R6.11")
    round6.check_track_init_mode(ctx, "R6.11")

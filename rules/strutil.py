"""Summaries that fold libc string routines when both operands are known strings of the abstract store
(a char array / pointer whose location holds ('str', s), or a literal)."""
from ovsa.absint import INT


def strval(st, x):
    if x[0] == "str":
        return x[1]
    if x[0] == "ptr":
        path = x[2][:-1] if x[2] and x[2][-1] == 0 else x[2]
        v = st.store.get((x[1], path))
        if v is not None and v[0] == "str":
            return v[1]
    return None


def s_strcmp(ex_, st, a, f, e):
    x, y = strval(st, a[0]), strval(st, a[1])
    if x is None or y is None:
        return None
    return [(INT((x > y) - (x < y)), {})]


def s_strncmp(ex_, st, a, f, e):
    x, y = strval(st, a[0]), strval(st, a[1])
    if x is None or y is None or a[2][0] != "int":
        return None
    n = a[2][1]
    return [(INT((x[:n] > y[:n]) - (x[:n] < y[:n])), {})]


def s_memcmp(ex_, st, a, f, e):
    return s_strncmp(ex_, st, a, f, e)


def s_strlen(ex_, st, a, f, e):
    x = strval(st, a[0])
    return None if x is None else [(INT(len(x)), {})]


FOLD = {"strcmp": s_strcmp, "strncmp": s_strncmp, "memcmp": s_memcmp, "strlen": s_strlen}


def byte_store(root, data, prefix=()):
    """Store entries that make `data` (bytes) the content of the byte array at (root, prefix)."""
    return {(root, tuple(prefix) + (k,)): INT(b) for k, b in enumerate(data)}


def s_memchr(ex_, st, a, f, e):
    """memchr over bytes held concretely in the abstract store (see byte_store)."""
    p, c, n = a[0], a[1], a[2]
    if p[0] != "ptr" or c[0] != "int" or n[0] != "int" or not p[2] or not isinstance(p[2][-1], int):
        return None
    base, off = p[2][:-1], p[2][-1]
    for k in range(n[1]):
        v = st.store.get((p[1], base + (off + k,)))
        if v is None or v[0] != "int":
            return None
        if v[1] == (c[1] & 0xff):
            return [(("ptr", p[1], base + (off + k,)), {})]
    return [(("null",), {})]

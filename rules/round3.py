"""Rules added after the third round of seeded changes (infrastructure outside the anchored functions, start-up
and teardown code, multi-thread / multi-loom cases).  Each function takes the rule id under which the calling
property reports it."""
import itertools

from ovsa import absint, effects, errflow
from ovsa.absint import INT, NULL, PTR, TOP

OV = "src/rt/ovni.c"
RT = ("G", OV, "rthread")
RP = ("G", OV, "rproc")
DBG = (("G", "src/common.c", "is_debug_enabled"), ())


def F(rec, field):
    return ((rec, field),)


# ------------------------------------------------------------------------------------------------ runtime

def _rt_store(prog, ready):
    return {(RT, F("ovni_rthread", "ready")): INT(ready), (RT, F("ovni_rthread", "finished")): INT(0),
            (RP, F("ovni_rproc", "st")): INT(prog.enum_val("ST_READY")),
            (RP, F("ovni_rproc", "procdir")): ("str", "DIR"), (RP, F("ovni_rproc", "procdir_final")): ("str", "DIR"),
            (RP, F("ovni_rproc", "move_to_final")): INT(0),
            (RT, F("ovni_rthread", "tid")): INT(5), (RT, F("ovni_rthread", "meta")): PTR("META"),
            (RT, F("ovni_rthread", "evlen")): INT(100), (RT, F("ovni_rthread", "streamfd")): INT(7),
            (RT, F("ovni_rthread", "evbuf")): PTR("EVBUF", (0,))}


def check_reinit_ignored(ctx, rule):
    """A second ovni_thread_init in an initialised thread is documented as ignored: it must not touch the
    thread's stream state (buffer fill, file descriptor, buffer) nor open/create anything."""
    prog = ctx.prog
    eff = effects.Effects(prog)
    ti = prog.fn("ovni_thread_init", OV)
    io = []

    def mk(name, ret):
        def s(ex_, st, a, f, e):
            io.append(name)
            return [(ret, {})]
        return s
    ex = absint.Explorer(prog, effects=eff, loop_bound=2, max_depth=5, inline=lambda n, d: d.file == OV,
                         summaries={"open": mk("open", INT(9)), "malloc": mk("malloc", PTR("NEWBUF", (0,))),
                                    "mkdir": mk("mkdir", INT(0)), "mkpath": mk("mkpath", INT(0)),
                                    "write": mk("write", TOP), "json_value_init_object": mk("json", PTR("NEWMETA"))})
    store = _rt_store(prog, 1)
    outs = ex.run(ti, [INT(5)], store)
    ctx.need(outs, "ovni_thread_init cannot be evaluated on an initialised thread")
    watched = [(RT, F("ovni_rthread", x)) for x in ("evlen", "streamfd", "evbuf", "ready", "finished")]
    bad = []
    for o in outs:
        if o.kind == "die":
            continue            # refusing loudly is not silent corruption
        for k in watched:
            if o.store.get(k) != store[k]:
                bad.append("%s becomes %s" % (k[1][0][1], o.store.get(k)))
    ctx.check(not bad and not io, rule, "ovni_thread_init:repeated-init-ignored", ti.loc(),
              "ovni_thread_init on an already initialised thread %s%s: events buffered or written so far are lost "
              "or overwritten" % ("; ".join(sorted(set(bad))), ("; it calls %s" % sorted(set(io))) if io else ""))


def check_stream_open_flags(ctx, rule):
    """The stream file is opened for writing from offset 0: O_APPEND would put header and events after whatever a
    previous run left in the file."""
    prog = ctx.prog
    eff = effects.Effects(prog)
    ti = prog.fn("ovni_thread_init", OV)
    flags = []

    def s_open(ex_, st, a, f, e):
        flags.append((a[1] if len(a) > 1 else TOP, f.loc(e)))
        return [(INT(9), {})]
    ex = absint.Explorer(prog, effects=eff, loop_bound=2, max_depth=5, max_paths=60000,
                         summaries={"open": s_open, "malloc": lambda ex_, st, a, f, e: [(PTR("EVB", (0,)), {})],
                                    "write": lambda ex_, st, a, f, e: [(a[2] if len(a) > 2 else TOP, {})],
                                    "mkdir": lambda ex_, st, a, f, e: [(INT(0), {})],
                                    "mkpath": lambda ex_, st, a, f, e: [(INT(0), {})]})
    ex.run(ti, [INT(5)], _rt_store(prog, 0))
    ctx.need(flags, "no open() reached from ovni_thread_init")
    O_ACC, O_WRONLY, O_RDWR, O_CREAT, O_APPEND = 3, 1, 2, 0o100, 0o2000
    for fl, where in sorted(set(flags), key=str):
        ctx.need(fl[0] == "int", "open() flags are not a constant at %s" % where)
        v = fl[1]
        good = (v & O_ACC) in (O_WRONLY, O_RDWR) and (v & O_CREAT) and not (v & O_APPEND)
        ctx.check(good, rule, "stream:open-flags", where,
                  "the event stream is opened with flags %#o: it must be created, writable and written from offset 0 "
                  "(no O_APPEND), otherwise the file is not exactly header + events" % v)
        ctx.check(bool(v & 0o1000), rule, "stream:open-truncates", where,
                  "the event stream is opened with flags %#o, without O_TRUNC: when a previous run left a longer stream "
                  "at the same path (same trace directory, loom, pid and tid) its events remain after this run's" % v)


def check_clock_source(ctx, rule):
    """Event clocks and the library's own flush markers must not decrease inside a stream: the clock ovni_clock_now
    reads is the one ovni_proc_init selects, and that one must be a clock POSIX/Linux define as monotonic (the
    wall clock can be stepped backwards)."""
    prog = ctx.prog
    eff = effects.Effects(prog)
    pi = prog.fn("ovni_proc_init", OV)
    cn = prog.fn("ovni_clock_now", OV)
    MONO = {1: "CLOCK_MONOTONIC", 4: "CLOCK_MONOTONIC_RAW", 7: "CLOCK_BOOTTIME"}
    ex = absint.Explorer(prog, effects=eff, loop_bound=2, max_depth=3, opaque={"create_proc_dir"},
                         summaries={"strlen": lambda ex_, st, a, f, e: [(INT(4), {})]})
    store = {(RP, F("ovni_rproc", "st")): INT(prog.enum_val("ST_UNINIT")), (RP, F("ovni_rproc", "clockid")): ("val", "unset")}
    outs = [o for o in ex.run(pi, [INT(1), ("str", "loom"), INT(10)], store) if o.kind in ("ret", "exit")]
    ctx.need(outs, "ovni_proc_init: no returning path")
    ids = {o.store.get((RP, F("ovni_rproc", "clockid"))) for o in outs}
    ctx.need(all(v is not None and v[0] == "int" for v in ids), "ovni_proc_init: the clock id is not a constant (%s)" % ids)
    used = []

    def s_cg(ex_, st, a, f, e):
        used.append(a[0])
        return [(INT(0), {})]
    for v in sorted(ids, key=str):
        ex2 = absint.Explorer(prog, effects=eff, loop_bound=2, max_depth=4, inline=lambda n, d: d.file == OV,
                              summaries={"clock_gettime": s_cg})
        del used[:]
        ex2.run(cn, [], {(RP, F("ovni_rproc", "clockid")): v})
        ctx.need(used, "ovni_clock_now does not reach clock_gettime")
        bad = [u for u in used if not (u[0] == "int" and u[1] in MONO)]
        ctx.check(not bad, rule, "clock-source:monotonic", pi.loc(),
                  "ovni_clock_now reads clock id %s (ovni_proc_init selects %s): only %s never go backwards, so event "
                  "and flush-marker clocks of a stream could decrease" %
                  (sorted({str(u) for u in bad}), v[1], "/".join(MONO.values())))


# ------------------------------------------------------------------------------------------------ channel layer

CHANC = "src/emu/chan.c"
VNULL = ("val", "null")


def VI(x):
    return ("val", "i64", INT(x))


def _chan_summaries():
    """struct value is an opaque token; chan.c itself is interpreted."""
    def s_veq(ex_, st, args, f, e):
        def ld(a):
            if a[0] != "ptr":
                return None
            v = st.store.get((a[1], a[2]))
            if v is not None:
                return v
            if (a[1], ("zeroinit",)) in st.store or any(k[0] == a[1] and k[1][:len(a[2])] == a[2] for k in st.store):
                return VNULL
            return None
        x, y = ld(args[0]), ld(args[1])
        if x is None or y is None or x[0] != "val" or y[0] != "val":
            return None
        return [(INT(1 if x == y else 0), {})]

    def s_memset(ex_, st, args, f, e):
        a = args[0]
        if a[0] != "ptr" or args[1] != INT(0):
            return None
        upd = {}
        for k in list(st.store):
            if k[0] == a[1] and k[1][:len(a[2])] == a[2] and len(k[1]) > len(a[2]):
                upd[k] = INT(0)
        upd[(a[1], a[2] + (("chan", "zeroed"),))] = INT(1)
        return [(TOP, upd)]
    return {"value_int64": lambda ex_, st, a, f, e: [(("val", "i64", a[0]), {})],
            "value_null": lambda ex_, st, a, f, e: [(VNULL, {})],
            "value_is_equal": s_veq, "memset": s_memset, "__builtin___memset_chk": s_memset,
            "value_str": lambda ex_, st, a, f, e: [(("str", "v"), {})],
            "vsnprintf": lambda ex_, st, a, f, e: [(INT(5), {})],
            "__builtin___vsnprintf_chk": lambda ex_, st, a, f, e: [(INT(5), {})]}


def chan_explorer(prog, eff, files=(), extra=None, loop_bound=12, max_depth=5, opaque=()):
    sums = _chan_summaries()
    sums.update(extra or {})
    fs = (CHANC,) + tuple(files)
    return absint.Explorer(prog, effects=eff, summaries=sums, loop_bound=loop_bound, max_depth=max_depth, opaque=opaque,
                           inline=lambda n, d: d.file in fs and n not in sums and n not in opaque)


def chan_defaults(prog, store, root, path, nprop=None):
    """A channel nobody touched yet: clean, no callback, last value null."""
    nprop = nprop if nprop is not None else prog.enum_val("CHAN_MAXPROP")
    for pi in range(nprop):
        store.setdefault((root, path + F("chan", "prop") + (pi,)), INT(0))
    store.setdefault((root, path + F("chan", "is_dirty")), INT(0))
    store.setdefault((root, path + F("chan", "dirty_cb")), NULL)
    store.setdefault((root, path + F("chan", "last_value")), VNULL)
    store.setdefault((root, path + F("chan", "data") + F("chan_data", "value")), VNULL)


def chan_flush(store):
    """What chan_flush does at the end of a propagation, on every dirty channel of the store."""
    out = dict(store)
    for k, v in store.items():
        if k[1] and k[1][-1] == ("chan", "is_dirty") and v == INT(1):
            base = k[1][:-1]
            out[k] = INT(0)
            cur = store.get((k[0], base + F("chan", "data") + F("chan_data", "value")))
            if cur is not None:
                out[(k[0], base + F("chan", "last_value"))] = cur
    return out


def check_cpu_recount_accepted(ctx, rule):
    """cpu_update is run after every state or affinity change, also when nothing it publishes changes (a paused
    thread joins, a third thread runs on the virtual CPU): with the channel properties cpu_init_end sets, a
    recount that republishes the same TID/PID/count must be accepted by chan.c's own chan_set."""
    prog = ctx.prog
    eff = effects.Effects(prog)
    CPUC = "src/emu/cpu.c"
    cie, cu = prog.fn("cpu_init_end", CPUC), prog.fn("cpu_update", CPUC)
    ex = chan_explorer(prog, eff, files=(CPUC,), opaque={"set_name"})
    store = {DBG: INT(0), ("CPU", F("cpu", "gindex")): INT(0), ("CPU", F("cpu", "loom")): PTR("LOOM"),
             ("CPU", F("cpu", "is_virtual")): INT(1)}
    outs = [o for o in ex.run(cie, [PTR("CPU")], store) if o.kind == "ret" and o.ret == INT(0)]
    ctx.need(outs, "cpu_init_end: no successful path")
    base = {k: v for k, v in outs[0].store.items() if k[0] == "CPU"}
    base[DBG] = INT(0)
    nch = prog.enum_val("CPU_CHAN_MAX")
    for ci in range(nch):
        chan_defaults(prog, base, "CPU", F("cpu", "chan") + (ci,))
    S = {n: prog.enum_val("TH_ST_" + n) for n in ("RUNNING", "PAUSED", "COOLING", "WARMING")}
    HT = F("thread", "cpu_next")
    HP = F("thread", "cpu_prev")
    lists = [(), ("PAUSED",), ("RUNNING",), ("RUNNING", "PAUSED"), ("RUNNING", "RUNNING"), ("RUNNING", "RUNNING", "RUNNING"),
             ("COOLING",), ("COOLING", "WARMING"), ("RUNNING", "COOLING")]

    def with_threads(st0, states):
        st = dict(st0)
        n = len(states)
        st[("CPU", F("cpu", "threads"))] = PTR("T0") if n else NULL
        st[("CPU", F("cpu", "nthreads"))] = INT(n)
        for i, s in enumerate(states):
            t = "T%d" % i
            st[(t, F("thread", "state"))] = INT(S[s])
            st[(t, F("thread", "tid"))] = INT(100 + i)
            st[(t, F("thread", "gindex"))] = INT(i)
            st[(t, F("thread", "proc"))] = PTR("P")
            st[(t, HT)] = PTR("T%d" % (i + 1)) if i + 1 < n else NULL
            st[(t, HP)] = PTR("T%d" % (i - 1)) if i else PTR("T%d" % (n - 1))
        st[("P", F("proc", "pid"))] = INT(7)
        return st
    n_ = 0
    for before in lists:
        o1 = [o for o in ex.run(cu, [PTR("CPU")], with_threads(base, before)) if o.kind == "ret"]
        if not o1 or any(o.ret != INT(0) for o in o1):
            n_ += 10
            ctx.fail(rule, "cpu-recount:first:%s" % "+".join(before or ("none",)), cu.loc(),
                     "the first count of a virtual CPU with threads %s is refused by the channel layer (%s)" %
                     (list(before), sorted({str(o.ret) for o in o1})))
            continue
        flushed = chan_flush({k: v for k, v in o1[0].store.items() if k[0] == "CPU" or k == DBG})
        for after in lists:
            # one thread joins, leaves or changes state: lists that differ in at most one position / one element
            if abs(len(after) - len(before)) > 1:
                continue
            if len(after) == len(before) and sum(1 for a, b in zip(after, before) if a != b) > 1:
                continue
            if len(after) != len(before):
                lo, hi = (after, before) if len(after) < len(before) else (before, after)
                if list(hi[:len(lo)]) != list(lo):
                    continue
            o2 = [o for o in ex.run(cu, [PTR("CPU")], with_threads(flushed, after)) if o.kind == "ret"]
            n_ += 1
            ctx.check(bool(o2) and all(o.ret == INT(0) for o in o2), rule,
                      "cpu-recount:%s->%s" % ("+".join(before or ("none",)), "+".join(after or ("none",))), cu.loc(),
                      "on a virtual CPU whose threads go from %s to %s the recount is refused by the channel layer "
                      "(cpu_update returns %s with the channel properties cpu_init_end sets): a legal trace is rejected" %
                      (list(before), list(after), sorted({str(o.ret) for o in o2})))
    ctx.need(n_ >= 20, "only %d recount cases evaluated" % n_)


def model_thread_channels(prog, eff, model):
    """Interpret model_thread_create for the model's own thread spec on a one-thread system, with chan.c's
    chan_init / chan_prop_set: returns (store, root of the channel array, number of channels)."""
    setup = "src/emu/%s/setup.c" % model
    specs = [g for (fl, nm), g in prog.globals.items() if fl == setup and "struct model_thread_spec" in g.get("type", "")
             and g.get("def")]
    if len(specs) != 1:
        return None
    mtc = prog.fn("model_thread_create", "src/emu/model_thread.c")
    roots = []

    def s_calloc(ex_, st, a, f, e):
        nm = "ALLOC%d" % len(roots)
        roots.append((nm, a[0], a[1]))
        return [(PTR(nm, (0,)) if not (a[0] == INT(1)) else PTR(nm), {(nm, ("zeroinit",)): INT(1)})]
    def s_malloc(ex_, st, a, f, e):
        csz_ = prog.records.get("chan", {}).get("size")
        if a[0][0] == "int" and csz_ and a[0][1] % csz_ == 0 and a[0][1] // csz_ > 1:
            return s_calloc(ex_, st, [INT(a[0][1] // csz_), INT(csz_)], f, e)
        return s_calloc(ex_, st, [INT(1), a[0]], f, e)
    ex = chan_explorer(prog, eff, files=("src/emu/model_thread.c",), loop_bound=16,
                       extra={"calloc": s_calloc, "malloc": s_malloc, "bay_register": lambda ex_, st, a, f, e: [(INT(0), {})],
                              "track_init": lambda ex_, st, a, f, e: [(INT(0), {})],
                              "extend_set": lambda ex_, st, a, f, e: [(TOP, {})]})
    store = {DBG: INT(0), ("EMU", F("emu", "system") + F("system", "threads")): PTR("STH"),
             ("STH", F("thread", "gnext")): NULL, ("STH", F("thread", "gindex")): INT(0)}
    outs = [o for o in ex.run(mtc, [PTR("EMU"), PTR(("G", setup, specs[0]["name"]))], store) if o.kind == "ret" and o.ret == INT(0)]
    if not outs:
        return None
    st = outs[0].store
    # the channel array is the allocation of nch elements of sizeof(struct chan)
    csz = prog.records.get("chan", {}).get("size")
    arr = [r for r in roots if r[2] == INT(csz)] if csz else []
    if len(arr) != 1 or arr[0][1][0] != "int":
        return None
    return st, arr[0][0], arr[0][1][1]


def check_task_channels_rewrite(ctx, rule, spec):
    """The task channels are rewritten when a body starts over another one (nested tasks, inline tasks): the new
    task may have the same type, application, rank or body number as the one shown.  With the channel properties
    model_thread_create gives the model's channels, chan.c's own chan_set must accept each role function
    (running / stopped / switch) when the values it publishes equal the ones already there, wherever the
    role function may legally repeat them."""
    prog = ctx.prog
    eff = effects.Effects(prog)
    from ovsa import models as _m
    n_ = 0
    for model in ("nanos6", "nosv"):
        msp = spec[model] if model in spec else None
        ctx.need(msp is not None and "chan_functions" in msp, "no channel spec for %s" % model)
        got = model_thread_channels(prog, eff, model)
        ctx.need(got is not None, "%s: model_thread_create cannot be evaluated with the model's thread spec" % model)
        st0, arr, nch = got
        evfile = "src/emu/%s/event.c" % model
        enums = _m.file_enumerators(prog, "src/emu/%s/" % model)
        base = {k: v for k, v in st0.items() if k[0] == arr}
        base[DBG] = INT(0)
        for ci in range(nch):
            chan_defaults(prog, base, arr, (ci,))
            base.setdefault((arr, (ci,) + F("chan", "type")), INT(prog.enum_val("CHAN_SINGLE")))
        base.update({("EMU", F("emu", "thread")): PTR("TH"), ("EMU", F("emu", "proc")): PTR("PROC"),
                     ("PROC", F("proc", "rank")): INT(3), ("PROC", F("proc", "appid")): INT(504)})
        for t, tid in (("TASK", 501), ("TASK2", 777)):
            base[(t, F("task", "id"))] = INT(tid)
            base[(t, F("task", "type"))] = PTR("TYPE")
        base[("TYPE", F("task_type", "gid"))] = INT(502)
        role = "switch" if "switch" in msp["chan_functions"] else "running"
        fn = prog.fn(msp["chan_functions"][role], evfile)
        sums = {"extend_get": lambda ex_, st, a, f, e: [(PTR("EXT"), {})],
                "body_get_task": lambda ex_, st, a, f, e: [(PTR("TASK2" if a[0] == PTR("BNEXT") else "TASK"), {})],
                "body_get_id": lambda ex_, st, a, f, e: [(INT(1), {})]}
        ex = chan_explorer(prog, eff, extra=sums)
        ex.field_values = {("model_thread", "ch"): PTR(arr, (0,))}
        params = [p["ctype"] for p in fn.params]
        args = [PTR("EMU")]
        if role == "switch":
            args += [PTR("BPREV"), PTR("BNEXT")] if "struct body *" in params else [PTR("TASK"), PTR("TASK2")]
        else:
            args.append(PTR("BNEXT") if "struct body *" in params else PTR("TASK2"))
        # what a previous task of the same type, application, rank and body number left in the channels
        o1 = [o for o in ex.run(fn, args, dict(base)) if o.kind == "ret"]
        ctx.need(o1 and all(o.ret == INT(0) for o in o1), "%s: %s cannot be evaluated on fresh channels" % (model, fn.name))
        shown = chan_flush({k: v for k, v in o1[0].store.items() if k[0] == arr or k in base})
        # another task (other id) of the same type / app / rank / body number follows
        for t in ("TASK", "TASK2"):
            shown[(t, F("task", "id"))] = INT(shown[(t, F("task", "id"))][1] + 1000)
        o2 = [o for o in ex.run(fn, args, shown) if o.kind == "ret"]
        n_ += 1
        ctx.check(bool(o2) and all(o.ret == INT(0) for o in o2), rule, "%s:%s:same-type-app-rank-again" % (model, fn.name), fn.loc(),
                  "%s is refused by the channel layer (returns %s) when the next task has the same type, application, "
                  "rank or body number as the one shown, with the channel properties the model's thread spec gives "
                  "its channels: a legal nested / consecutive task history is rejected" %
                  (fn.name, sorted({str(o.ret) for o in o2})))
    ctx.need(n_ == 2, "task channel rewrite: %d models evaluated" % n_)


def check_stream_cursor_owner(ctx, rule):
    """Which events of a stream are delivered is decided by the stream reader alone: only stream.c may move the
    read cursor or end a stream (active / offset / size / cur_ev).  Code elsewhere that deactivates a stream
    drops its events without any error."""
    prog = ctx.prog
    eff = effects.Effects(prog)
    SC = "src/emu/stream.c"
    n_ = 0
    for fld in ("active", "offset", "size", "cur_ev"):
        ws = eff.writers_of_field("stream", fld)
        ctx.need(ws, "struct stream.%s has no writer" % fld)
        out = sorted({"%s (%s)" % (f.name, f.loc(n)) for f, n in ws if f.file != SC})
        n_ += len(ws)
        ctx.check(not out, rule, "stream.%s:written-only-by-the-reader" % fld, SC,
                  "struct stream.%s is written outside stream.c by %s: the events of a stream can be dropped or "
                  "replayed without the reader noticing" % (fld, out))
    ctx.need(n_ >= 5, "only %d writes of the stream cursor found" % n_)


def check_set_sort_criteria(ctx, rule):
    """The rank information of every loom is collected whatever the order of the looms: set_sort_criteria is
    evaluated on 1..3 looms with every combination of (has ranks / has none); loom_set_rank_min must be applied
    to each loom and sort_by_rank is set exactly when all have ranks."""
    prog = ctx.prog
    eff = effects.Effects(prog)
    callers = [f for f in prog.fns_in("src/emu/system.c") if any(True for _ in f.calls("loom_set_rank_min"))]
    ctx.need(len(callers) == 1 and [p["ctype"] for p in callers[0].params] == ["struct system *"],
             "cannot find the function of system.c that collects the looms' rank information (callers of "
             "loom_set_rank_min: %s)" % [f.name for f in callers])
    entry = callers[0]
    n_ = 0
    for n in (1, 2, 3):
        for have in itertools.product((0, 1), repeat=n):
            visited = []

            def s_rm(ex_, st, a, f, e, have=have):
                l = a[0]
                visited.append(l[1] if l[0] == "ptr" else None)
                k = int(l[1][1:]) if l[0] == "ptr" and str(l[1]).startswith("L") else 0
                return [(INT(0), {(l[1], F("loom", "rank_enabled")): INT(have[k])})]
            ex = absint.Explorer(prog, effects=eff, loop_bound=n + 2, summaries={"loom_set_rank_min": s_rm})
            store = {DBG: INT(0), ("SYS", F("system", "looms")): PTR("L0"), ("SYS", F("system", "sort_by_rank")): INT(0)}
            for i in range(n):
                store[("L%d" % i, F("loom", "next"))] = PTR("L%d" % (i + 1)) if i + 1 < n else NULL
                store[("L%d" % i, F("loom", "rank_enabled"))] = INT(0)
            outs = [o for o in ex.run(entry, [PTR("SYS")], store) if o.kind == "ret" and o.ret == INT(0)]
            want = 1 if all(have) else 0
            got = sorted({str(o.store.get(("SYS", F("system", "sort_by_rank")))) for o in outs})
            n_ += 1
            good = bool(outs) and sorted(set(visited)) == ["L%d" % i for i in range(n)] and got == [str(INT(want))]
            ctx.check(good, rule, "set_sort_criteria:looms-with-ranks=%s" % "".join(map(str, have)), entry.loc(),
                      "with looms that (1) have / (0) lack rank information = %s: rank information is collected for %s "
                      "of the %d looms and sort_by_rank becomes %s (expected every loom, %d): the order of processes "
                      "and rows would depend on the order of the looms" %
                      (list(have), sorted(set(v for v in visited if v)), n, got, want))
    ctx.need(n_ == 14, "set_sort_criteria: %d cases" % n_)


def check_probe_failure_propagates(ctx, rule):
    """A model that refuses the version a stream requires makes the emulator fail: the failure of
    model_version_probe is followed call site by call site up to main's exit status."""
    prog = ctx.prog
    main = prog.fn("main", "src/emu/ovniemu.c")
    mvp = prog.fn("model_version_probe", "src/emu/model.c")
    ef = errflow.ErrFlow(prog, main)
    drops = ef.propagates(mvp)
    n_ = 0
    for (g, c, where, ok, detail) in ef.checked_sites:
        n_ += 1
        ctx.check(ok, rule, "probe-failure:%s->%s" % (g, c), where,
                  "a refused model version (failure of %s) is dropped in %s: %s; the trace would be emulated although "
                  "a required model version is incompatible or malformed" % (g, c, detail))
    for (c, n, detail) in drops:
        if n is None:
            ctx.fail(rule, "probe-failure:%s:unreached" % c.name, c.loc(), detail)
    ctx.need(n_ >= 8, "only %d call sites between model_version_probe and main" % n_)


def check_ring_per_stream(ctx, rule):
    """ovnisort's look-back window holds pointers into the stream being sorted: when the next stream is started
    the window must be empty, otherwise a region that belongs at the very start of a stream is placed relative to
    events of the previous stream.  process_trace is evaluated on two streams of ordinary events; at the first
    step of the second stream the window must hold no event."""
    prog = ctx.prog
    eff = effects.Effects(prog)
    SO = "src/emu/ovnisort.c"
    pt = prog.fn("process_trace", SO)
    HDR = F("ovni_ev", "header")
    seen = []

    def s_step(ex_, st, a, f, e):
        s = a[0][1] if a[0][0] == "ptr" else "?"
        k = st.store.get(("STEP", (s,)), INT(0))[1]
        if s == "S1" and k == 0:
            heads = {kk: v for kk, v in st.store.items() if kk[1] and kk[1][-1] == ("ring", "head")}
            tails = {kk: v for kk, v in st.store.items() if kk[1] and kk[1][-1] == ("ring", "tail")}
            held = sorted(str(v[1]) for kk, v in st.store.items() if v and v[0] == "ptr" and str(v[1]).startswith("EV:S0")
                          and kk[0] == "RINGEV")
            seen.append((list(heads.values()), list(tails.values()), held, f.loc(e)))
        nev = 2
        if k < nev:
            return [(INT(0), {("STEP", (s,)): INT(k + 1), (s, F("stream", "cur")): PTR("EV:%s:%d" % (s, k))})]
        return [(INT(1), {("STEP", (s,)): INT(k + 1)})]

    def s_ev(ex_, st, a, f, e):
        s = a[0][1] if a[0][0] == "ptr" else "?"
        return [(st.store.get((s, F("stream", "cur")), TOP), {})]
    ex = absint.Explorer(prog, effects=eff, loop_bound=6, max_depth=5, max_paths=20000,
                         summaries={"stream_step": s_step, "stream_ev": s_ev, "open": lambda ex_, st, a, f, e: [(INT(5), {})],
                                    "close": lambda ex_, st, a, f, e: [(INT(0), {})],
                                    "malloc": lambda ex_, st, a, f, e: [(PTR("RINGEV", (0,)), {})],
                                    "free": lambda ex_, st, a, f, e: [(TOP, {})],
                                    "stream_allow_unsorted": lambda ex_, st, a, f, e: [(TOP, {})]})
    store = {DBG: INT(0), (("G", SO, "operation_mode"), ()): INT(prog.enum_val("SORT")),
             (("G", SO, "max_look_back"), ()): INT(4),
             ("TR", F("trace", "streams")): PTR("S0"), ("S0", F("stream", "next")): PTR("S1"), ("S1", F("stream", "next")): NULL,
             ("S0", F("stream", "obspath")): ("str", "a"), ("S1", F("stream", "obspath")): ("str", "b")}
    for s in ("S0", "S1"):
        for k in range(2):
            r = "EV:%s:%d" % (s, k)
            store[(r, HDR + F("ovni_ev_header", "model"))] = INT(ord("O"))
            store[(r, HDR + F("ovni_ev_header", "category"))] = INT(ord("H"))
            store[(r, HDR + F("ovni_ev_header", "value"))] = INT(ord("x"))
    outs = ex.run(pt, [PTR("TR")], store)
    ctx.need(seen, "process_trace: the second stream is never stepped (%d outcomes)" % len(outs))
    bad = []
    for heads, tails, held, where in seen:
        if len(heads) != 1 or len(tails) != 1:
            ctx.broken("cannot find the look-back ring (heads %s, tails %s)" % (heads, tails))
        if heads[0] != tails[0]:
            bad.append("head %s, tail %s" % (heads[0], tails[0]))
    ctx.check(not bad, rule, "ovnisort:window-empty-at-stream-start", pt.loc(),
              "when the second stream is started the look-back window still holds events of the first one (%s): a "
              "region that belongs at the start of the stream is placed among another stream's events" %
              "; ".join(sorted(set(bad))))


def check_gate_skips_exhausted(ctx, rule):
    """A stream that holds only its header has no current event: after player_init it is inactive and
    stream_ev() has nothing to give.  The clock-gate test must not read an event of such a stream."""
    prog = ctx.prog
    eff = effects.Effects(prog)
    ccg = prog.fn("check_clock_gate", "src/emu/player.c")
    n_ = 0
    for act in ((1, 0), (0, 1), (0, 0), (1, 0, 1)):
        touched = []

        def s_ev(ex_, st, a, f, e, act=act):
            s = a[0][1] if a[0][0] == "ptr" else None
            k = int(s[1:]) if s and s.startswith("S") else 0
            if not act[k]:
                return [(NULL, {})]
            return [(PTR("OEV"), {})]

        def s_clk(ex_, st, a, f, e):
            if len(a) > 1 and a[1] == NULL:
                touched.append(("stream_evclock(NULL)", a[0][1] if a[0][0] == "ptr" else None))
            return [(INT(10 ** 15), {})]
        ex = absint.Explorer(prog, effects=eff, loop_bound=6, summaries={
            "stream_evclock": s_clk, "stream_ev": s_ev,
            "llabs": lambda ex_, st, a, f, e: [(INT(abs(a[0][1])), {})] if a[0][0] == "int" else None})
        store = {DBG: INT(0), ("TR", F("trace", "streams")): PTR("S0")}
        for i, on in enumerate(act):
            store[("S%d" % i, F("stream", "next"))] = PTR("S%d" % (i + 1)) if i + 1 < len(act) else NULL
            store[("S%d" % i, F("stream", "active"))] = INT(on)
        outs = [o for o in ex.run(ccg, [PTR("TR")], store) if o.kind == "ret"]
        n_ += 1
        ctx.check(bool(outs) and all(o.ret == INT(0) for o in outs) and not touched, rule,
                  "check_clock_gate:active=%s" % "".join(map(str, act)), ccg.loc(),
                  "with streams (1: has a first event, 0: header only) = %s the clock-gate test %s: a NULL event is "
                  "dereferenced (crash) on a trace with an empty stream" %
                  (list(act), ("reads " + ", ".join(sorted({"%s of %s" % t for t in touched}))) if touched else
                   "returns %s" % sorted({str(o.ret) for o in outs})))
    ctx.need(n_ == 4, "clock gate: %d cases" % n_)


def check_byte_indexed_tables(ctx, rule):
    """Tables indexed with a byte taken from the trace (model, category or value of an event: any of 0..255)
    hold 256 entries, unless the index is compared against a bound first.  The index is followed through local
    copies and through parameters (every call site must pass a byte)."""
    import re
    prog = ctx.prog
    BYTE = ("unsigned char", "uint8_t")
    reg = errflow.Registry(prog)

    def strip(f, i):
        while f.nodes[i]["k"] in ("ImplicitCastExpr", "ParenExpr", "CStyleCastExpr") and f.nodes[i]["c"]:
            n = f.nodes[i]
            if n["k"] == "CStyleCastExpr" and n.get("t") not in ("int", "unsigned int", "long", "size_t", "unsigned long"):
                break
            i = n["c"][0]
        return i

    def assigned_elsewhere(f, name, dl):
        for n in f.nodes:
            if n["k"] in ("BinaryOperator", "CompoundAssignOperator") and n.get("op", "").endswith("=") and \
                    n.get("op") not in ("==", "!=", "<=", ">="):
                l = f.nodes[strip(f, n["c"][0])]
                if l["k"] == "DeclRefExpr" and l.get("name") == name and l.get("dl") == dl:
                    return True
            if n["k"] == "UnaryOperator" and n.get("op") in ("++", "--"):
                l = f.nodes[strip(f, n["c"][0])]
                if l["k"] == "DeclRefExpr" and l.get("name") == name and l.get("dl") == dl:
                    return True
        return False

    def byte_valued(f, i, depth=0):
        i = strip(f, i)
        n = f.nodes[i]
        if n.get("ct") in BYTE or n.get("t") in BYTE:
            return True
        if n["k"] == "DeclRefExpr" and n.get("dk") == "local":
            for d in f.nodes:
                if d["k"] == "DeclStmt":
                    for dd in d["decls"]:
                        if dd["name"] == n["name"] and dd.get("dl") == n.get("dl") and dd.get("init") is not None:
                            return byte_valued(f, dd["init"], depth) and not assigned_elsewhere(f, n["name"], n.get("dl"))
            return False
        if n["k"] == "DeclRefExpr" and n.get("dk") == "param" and depth < 2:
            idx = [k for k, p in enumerate(f.params) if p["name"] == n["name"]]
            if not idx or assigned_elsewhere(f, n["name"], n.get("dl")):
                return False
            sites = reg.call_sites(f)
            if not sites:
                return False
            return all(len(c.nodes[s]["args"]) > idx[0] and byte_valued(c, c.nodes[s]["args"][idx[0]], depth + 1)
                       for c, s in sites)
        return False

    def guarded(f, i):
        i = strip(f, i)
        n = f.nodes[i]
        key = (n.get("name"), n.get("dl")) if n["k"] == "DeclRefExpr" else (n.get("rec"), n.get("field"))
        for m in f.nodes:
            if m["k"] == "BinaryOperator" and m.get("op") in ("<", "<=", ">", ">="):
                for c in m["c"]:
                    for d in f.descendants(c):
                        x = f.nodes[d]
                        k2 = (x.get("name"), x.get("dl")) if x["k"] == "DeclRefExpr" else \
                            ((x.get("rec"), x.get("field")) if x["k"] == "MemberExpr" else None)
                        if k2 == key:
                            return True
        return False
    seen = {}
    for f in prog.functions.values():
        if not f.file.startswith("src/emu/") and not f.file.startswith("src/include/"):
            continue
        for i, n in enumerate(f.nodes):
            if n["k"] != "ArraySubscriptExpr":
                continue
            b = f.nodes[n["c"][0]]
            ty = b.get("from") if b["k"] == "ImplicitCastExpr" and b.get("ck") == "ArrayToPointerDecay" else None
            m = re.match(r"^[^\[]*\[(\d+)\]", ty or "")
            if not m:
                continue
            if not byte_valued(f, n["c"][1]):
                continue
            cnt = int(m.group(1))
            bb = f.nodes[strip(f, b["c"][0])]
            while bb["k"] == "ArraySubscriptExpr":
                bb = f.nodes[strip(f, f.nodes[bb["c"][0]]["c"][0] if f.nodes[bb["c"][0]]["k"] == "ImplicitCastExpr" else bb["c"][0])]
            what = "%s.%s" % (bb.get("rec"), bb.get("field")) if bb["k"] == "MemberExpr" else bb.get("name", "?")
            ok = cnt >= 256 or guarded(f, n["c"][1])
            key = (what, f.name)
            if key in seen and seen[key][0] <= ok:
                continue
            seen[key] = (ok, f.loc(i), cnt)
    ctx.need(len(seen) >= 3, "only %d tables indexed by an event byte found" % len(seen))
    for (what, fn), (ok, where, cnt) in sorted(seen.items()):
        ctx.check(ok, rule, "byte-index:%s:in:%s" % (what, fn), where,
                  "%s has %d entries but %s indexes it with an unchecked byte read from the trace (0..255): a model / "
                  "event byte of %d or more reads or writes outside the table" % (what, cnt, fn, cnt))


def check_lpt_table_access(ctx, rule):
    """system.lpt has one slot per stream of the trace but only the streams that are threads get an entry (the
    rest stay zeroed: no loom, no thread).  Only the function that builds the table may index it; everybody
    else goes through system_get_lpt(stream), which answers NULL for a stream without entry."""
    prog = ctx.prog
    eff = effects.Effects(prog)
    ws = eff.writers_of_field("system", "lpt")
    ctx.need(ws, "struct system.lpt has no writer")
    builders = set()
    for f, n in ws:
        builders |= prog.helper_closure({f.name}, f.file)
    users = {}
    for f in prog.functions.values():
        if not f.file.startswith("src/emu/"):
            continue
        for i, n in enumerate(f.nodes):
            if n["k"] == "MemberExpr" and n.get("rec") == "system" and n.get("field") == "lpt":
                # passing the pointer to free() is not an access to its entries
                anc = [f.nodes[a] for a in f.ancestors(i)][:4]
                if any(a["k"] == "CallExpr" and a.get("callee") == "free" for a in anc):
                    continue
                users.setdefault(f.name, f.loc(i))
    ctx.need(users, "struct system.lpt is never used")
    for name, where in sorted(users.items()):
        ctx.check(name in builders, rule, "system.lpt:indexed-by:%s" % name, where,
                  "%s indexes system.lpt directly; the table is sparse (streams that are not threads have a zeroed "
                  "slot whose loom / stream pointers are NULL), so a trace with such a stream makes it dereference "
                  "NULL; system_get_lpt(stream) is the accessor that knows" % name)


def check_dup_table_on_thread_spec(ctx, rule):
    """A model states which of its channels may be written twice with the same value in its duplicate table; only
    the thread channel spec makes that effective (model_thread's init_chan reads ch_dup, the CPU side gets its
    values through multiplexers).  Sibling agreement: when the model's CPU spec names a duplicate table, the
    thread spec of the same model names the same one."""
    prog = ctx.prog
    n_ = 0
    bydir = {}
    for (fl, nm), g in prog.globals.items():
        if g.get("def") and "struct model_chan_spec" in g.get("type", "") and fl.startswith("src/emu/"):
            bydir.setdefault(fl, []).append(g)
    for fl, gs in sorted(bydir.items()):
        specs = {}
        for g in gs:
            init = g.get("init") or {}
            fields = init.get("fields", {}) if isinstance(init, dict) else {}
            trk = fields.get("track", {}).get("name", "")
            dup = fields.get("ch_dup", {}).get("name") if isinstance(fields.get("ch_dup"), dict) else None
            specs[g["name"]] = (dup, trk, g.get("line"))
        # which spec is the thread one: the one referenced by the model_thread_spec of the file
        th = [g2 for (f2, n2), g2 in prog.globals.items() if f2 == fl and g2.get("def") and "struct model_thread_spec" in g2.get("type", "")]
        if len(th) != 1:
            continue
        tname = ((th[0].get("init") or {}).get("fields", {}).get("chan") or {}).get("name")
        if tname not in specs:
            continue
        n_ += 1
        tdup = specs[tname][0]
        others = sorted({d for nm, (d, t, l) in specs.items() if nm != tname and d})
        good = all(d == tdup for d in others)
        ctx.check(good, rule, "dup-table:%s" % fl.split("/")[2], "%s:%s" % (fl, specs[tname][2]),
                  "the model's other channel spec names the duplicate table %s but its thread channel spec %s names %s: "
                  "the thread channels refuse the repeated values the model says are legal (nested identical regions, "
                  "consecutive tasks of one type) and listed events are rejected" % (others, tname, tdup or "none"))
    ctx.need(n_ >= 6, "only %d models with a thread channel spec found" % n_)


def check_sort_outputs_rewritable(ctx, rule):
    """Two CPUs can change in the same instant, so a row of the breakdown can be written X -> Y -> X inside one
    propagation.  With the properties sort_init gives the output channels, chan.c's own chan_set must make each
    of these writes effective: the row ends at X, the last value written."""
    prog = ctx.prog
    eff = effects.Effects(prog)
    SORTC = "src/emu/sort.c"
    si = prog.fn("sort_init", SORTC)
    cs = prog.fn("chan_set", CHANC)
    roots = []

    def s_calloc(ex_, st, a, f, e):
        nm = "SALLOC%d" % len(roots)
        roots.append((nm, a[0], a[1]))
        return [(PTR(nm, (0,)), {(nm, ("zeroinit",)): INT(1)})]
    ex = chan_explorer(prog, eff, files=(SORTC,), extra={"calloc": s_calloc, "bay_register": lambda ex_, st, a, f, e: [(INT(0), {})]})
    outs = [o for o in ex.run(si, [PTR("SORT"), PTR("BAY"), INT(2), ("str", "s")], {DBG: INT(0)}) if o.kind == "ret" and o.ret == INT(0)]
    ctx.need(outs, "sort_init: no successful path")
    csz = prog.records.get("chan", {}).get("size")
    arr = [r for r in roots if r[2] == INT(csz)]
    ctx.need(len(arr) == 1, "sort_init: cannot find the output channel array")
    arr = arr[0][0]
    base = {k: v for k, v in outs[0].store.items() if k[0] == arr}
    base[DBG] = INT(0)
    chan_defaults(prog, base, arr, (0,))
    base.setdefault((arr, (0,) + F("chan", "type")), INT(prog.enum_val("CHAN_SINGLE")))
    ex2 = chan_explorer(prog, eff)
    DV = (arr, (0,) + F("chan", "data") + F("chan_data", "value"))
    LV = (arr, (0,) + F("chan", "last_value"))
    for seq, label in (((5, 9, 5), "X-Y-X"), ((5, 9), "X-Y"), ((5, 5), "X-X"), ((0, 7, 0), "0-Y-0")):
        st = dict(base)
        st[LV] = VI(seq[0])
        st[DV] = VI(seq[0])
        ok = True
        for v in seq[1:]:
            o = [x for x in ex2.run(cs, [PTR(arr, (0,)), VI(v)], st) if x.kind == "ret"]
            if not o or any(x.ret != INT(0) for x in o) or len({x.store.get(DV) for x in o}) != 1:
                ok = False
                break
            st = {k: vv for k, vv in o[0].store.items() if k[0] == arr or k == DBG}
        got = st.get(DV)
        ctx.check(ok and got == VI(seq[-1]), rule, "sort-output:writes:%s" % label, si.loc(),
                  "an output row that held %d and is written %s in one propagation ends with %s (%s): with the "
                  "properties sort_init sets, a write is refused or silently dropped and the row keeps a stale value" %
                  (seq[0], " then ".join(map(str, seq[1:])), got, "accepted" if ok else "chan_set fails"))


def check_breakdown_schedule(ctx, rule):
    """Glitch freedom of the breakdown wiring under the patch bay's schedule.

    The bay processes dirty channels first-in first-out and runs a channel's callbacks once, when it is reached
    (bay_propagate; R6.4 / R6.7 decide that protocol and the multiplexer callbacks on the code).  When the running
    thread of a CPU changes, the CPU's tracked channels of a model become dirty in the order model_cpu's
    connect loop created their multiplexers: ascending channel index.  mux0 (subsystem / task type -> tr) must
    have produced its final output before mux1 (tr / idle -> tri) reads it, and tri must be final when the sort
    module reads it: otherwise the breakdown row keeps a stale value while cpu.prv is right.

    The wiring (select and input channels of mux0 / mux1, sort input) and the channel indices are taken from the
    code (connect_cpu of the model's breakdown.c, the model's channel enum); the schedule is then evaluated
    for every combination of old and new (subsystem, task type, idle) values over {null, task body, other} x
    {null, a type} x {null, progressing, other}: the value the sort module reads must be the documented one."""
    prog = ctx.prog
    eff = effects.Effects(prog)
    from ovsa import models as _m
    n_ = 0
    for model in ("nosv", "nanos6"):
        file = "src/emu/%s/breakdown.c" % model
        enums = _m.file_enumerators(prog, "src/emu/%s/" % model)
        cc = prog.fn("connect_cpu", file)
        calls = []

        def mk(name):
            def s(ex_, st, args, f, e):
                calls.append((name, tuple(args)))
                return [(INT(0), {})]
            return s
        ex = absint.Explorer(prog, effects=eff, summaries={
            "mux_init": mk("init"), "mux_set_input": mk("input"), "mux_set_default": mk("default"),
            "value_int64": lambda ex_, st, a, f, e: [(("val", "i64", a[0]), {})]},
            field_values={("model_cpu", "track"): PTR("TRK", (0,))})
        outs = [o for o in ex.run(cc, [PTR("BAY"), PTR("MCPU")], {}) if o.kind == "ret" and o.ret == INT(0)]
        ctx.need(outs, "%s: connect_cpu cannot be evaluated" % model)
        inits = [c[1] for c in calls if c[0] == "init"]
        ctx.need(len(inits) == 2, "%s: connect_cpu creates %d multiplexers (2 expected)" % (model, len(inits)))

        def track_index(p):
            # &mcpu->m.track[i].ch
            if p[0] == "ptr" and p[1] == "TRK" and p[2] and isinstance(p[2][0], int):
                return p[2][0]
            return None
        muxes = {}
        for a in inits:
            muxes[a[0]] = dict(select=a[2], out=a[3], fn=a[4][1] if a[4][0] == "fn" else None, inputs={}, default=VNULL)
        for c in calls:
            if c[0] == "input" and c[1][0] in muxes and c[1][1][0] == "int":
                muxes[c[1][0]]["inputs"][c[1][1][1]] = c[1][2]
            if c[0] == "default" and c[1][0] in muxes:
                muxes[c[1][0]]["default"] = c[1][1]
        # mux1 is the one fed by the other's output (whatever the select functions are called)
        ms_ = list(muxes.values())
        m1 = [m for m in ms_ if any(o is not m and o["out"] in m["inputs"].values() for o in ms_)]
        m0 = [m for m in ms_ if m not in m1]
        ctx.need(len(m0) == 1 and len(m1) == 1, "%s: cannot identify mux0 / mux1 from the wiring" % model)
        m0, m1 = m0[0], m1[0]
        tr, tri = m0["out"], m1["out"]
        # roles of the tracked channels, from the wiring itself (R20.1 checks that wiring against the documentation)
        ss_ch, tt_ch, idle_ch = m0["inputs"].get(0), m0["inputs"].get(1), m1["inputs"].get(1)
        idx = {"ss": track_index(ss_ch) if ss_ch else None, "tt": track_index(tt_ch) if tt_ch else None,
               "idle": track_index(idle_ch) if idle_ch else None}
        ctx.need(None not in idx.values() and m1["inputs"].get(0) == tr and m0["select"] == ss_ch and m1["select"] == idle_ch,
                 "%s: unexpected breakdown wiring (R20.1 reports the details)" % model)
        BODY, PROG, UNK = enums["ST_TASK_BODY"], enums["ST_PROGRESSING"], m0["default"]
        order = sorted(("ss", "tt", "idle"), key=lambda r: idx[r])
        chan_of = {"ss": ss_ch, "tt": tt_ch, "idle": idle_ch}

        def sel_tr(vals):
            ss, tt = vals[ss_ch], vals[tt_ch]
            if ss == VI(BODY) and tt != VNULL:
                return 1
            if ss == VNULL:
                return None
            return 0

        def sel_idle(vals):
            return 0 if vals[idle_ch] == VI(PROG) else 1

        def expected(v):
            if sel_idle(v) == 1:
                return v[idle_ch]
            k = sel_tr(v)
            return UNK if k is None else v[m0["inputs"][k]]

        def settle(v):
            """A consistent quiescent state for the tracked values v."""
            st = dict(v)
            k0 = sel_tr(st)
            st[tr] = UNK if k0 is None else st[m0["inputs"][k0]]
            k1 = sel_idle(st)
            st[tri] = st[m1["inputs"][k1]]
            return st, {"m0": -1 if k0 is None else k0, "m1": k1}

        def wave(old, new, changed):
            vals, selected = settle(old)
            dirty, isd = [], set()

            def cset(ch, v):
                vals[ch] = v
                if ch not in isd:
                    isd.add(ch)
                    dirty.append(ch)
            for r in changed:
                cset(chan_of[r], new[chan_of[r]])
            read_by_sort = None
            pos = 0
            while pos < len(dirty):
                ch = dirty[pos]
                pos += 1
                # callbacks in registration order: the select callback (registered by mux_init), then the input
                # callback of the input that was enabled when this channel was reached
                for (mx, name, sfn) in ((m0, "m0", sel_tr), (m1, "m1", sel_idle)):
                    did_select = False
                    if mx["select"] == ch:
                        k = sfn(vals)
                        selected[name] = -1 if k is None else k
                        cset(mx["out"], mx["default"] if k is None else vals[mx["inputs"][k]])
                        did_select = True
                    k = selected[name]
                    if k >= 0 and mx["inputs"][k] == ch and not did_select:
                        cset(mx["out"], vals[ch])
                    elif k >= 0 and mx["inputs"][k] == ch and did_select:
                        # the input callback enabled by this very select is appended behind it and runs too
                        cset(mx["out"], vals[ch])
                if ch == tri:
                    read_by_sort = vals[tri]
            return read_by_sort, vals

        SS = (VNULL, VI(BODY), VI(BODY + 1))
        TT = (VNULL, VI(4242))
        ID = (VNULL, VI(PROG), VI(PROG + 1))
        bad = []
        ncase = 0
        for o3 in itertools.product(SS, TT, ID):
            old = {ss_ch: o3[0], tt_ch: o3[1], idle_ch: o3[2]}
            for n3 in itertools.product(SS, TT, ID):
                new = {ss_ch: n3[0], tt_ch: n3[1], idle_ch: n3[2]}
                ncase += 1
                got, vals = wave(old, new, order)
                want = expected(new)
                # the sort module is only told when tri becomes dirty; an unchanged, never-dirty tri keeps the old row
                if got is None:
                    got = settle(old)[0][tri]
                if got != want:
                    bad.append((o3, n3, got, want))
        n_ += 1
        names = {VNULL: "null", VI(BODY): "task-body", VI(BODY + 1): "other-ss", VI(4242): "type", VI(PROG): "progressing",
                 VI(PROG + 1): "not-progressing"}

        def show(t):
            return "(%s)" % ", ".join(names.get(x, str(x)) for x in t)
        ctx.check(not bad, rule, "%s:running-thread-change:order=%s" % (model, "<".join(order)), cc.loc(),
                  "when the running thread of a CPU changes, the CPU's tracked channels become dirty in the order %s "
                  "(channel indices %s); in %d of %d (old, new) value combinations the sort module reads a stale tri "
                  "value, e.g. old (subsystem, type, idle) = %s, new = %s: the breakdown row gets %s, expected %s. "
                  "mux1's select (idle) is processed before mux0 has produced its output" %
                  (" then ".join(order), {r: idx[r] for r in order}, len(bad), ncase,
                   show(bad[0][0]) if bad else "", show(bad[0][1]) if bad else "",
                   names.get(bad[0][2], bad[0][2]) if bad else "", names.get(bad[0][3], bad[0][3]) if bad else ""))
    ctx.need(n_ == 2, "breakdown schedule: %d models" % n_)


# ------------------------------------------------------------------------------------------------ sharing

_SUB = {}


def sub_instances(ctx, prop):
    """The instances another property's rules produce on this tree (evaluated once per process)."""
    key = (prop, ctx.root)
    if key not in _SUB:
        import importlib
        from ovsa.engine import Ctx as _Ctx
        mod = importlib.import_module("rules." + prop)
        sub = _Ctx(prop, ctx.prog, ctx.root, "quick")
        # the borrowed rules are the lending property's own (base) rules; its borrowed ones are not re-borrowed,
        # which also keeps two properties that lend to each other from recursing
        run_lender(mod, sub, ctx)
        _SUB[key] = sub.instances
        _BROKEN[key] = getattr(sub, "lender_broken", None)
    return _SUB[key]


_BROKEN = {}


def run_lender(mod, sub, ctx):
    """Run the lending property's own rules in a sub-context.  If they cannot be evaluated on this tree that is the
    lender's own exit 2, not the borrower's: the borrower keeps what was evaluated and notes the rest."""
    from ovsa.facts import AnalysisBroken as _AB
    try:
        getattr(mod, "_run_base", mod.run)(sub)
    except _AB as e:
        sub.lender_broken = str(e)
        ctx.note("rules borrowed from %s could not all be evaluated: %s" % (sub.prop, e))


def share(ctx, rule, prop, pred, prefix, because, minimum):
    """Report under `rule` the instances of property `prop` selected by pred(instance)."""
    n = 0
    for i_ in sub_instances(ctx, prop):
        if not pred(i_):
            continue
        n += 1
        if i_["ok"]:
            ctx.ok(rule, prefix + i_["inst"], i_["where"])
        else:
            ctx.fail(rule, prefix + i_["inst"], i_["where"], i_["what"] + " (" + because + ")")
    if n < minimum and _BROKEN.get((prop, ctx.root)):
        return n            # the lender reports its own analysis break
    ctx.need(n >= minimum, "%s: only %d shared instances of %s" % (rule, n, prop))
    return n


def check_track_mode_vs_cfg(ctx, rule):
    """The Paraver configurations shipped in cfg/thread/ name each thread view after the threads it shows ("... of
    the ACTIVE thread", "... of the RUNNING thread") and select it by its PRV type.  The tracking mode the model
    declares for the channel of that type must be the one the view's name documents."""
    import glob
    import os
    import re
    prog = ctx.prog
    from ovsa import models as _m
    RUN, ACT = prog.enum_val("TRACK_TH_RUN"), prog.enum_val("TRACK_TH_ACT")
    bytype = {}
    for m in _m.discover(prog):
        cs = _m.chan_spec(prog, m, "thread")
        if cs is None:
            continue
        for i, t in cs["type"].items():
            bytype[t] = (m.name, cs["names"].get(i), cs["track"].get(i),
                         "%s:%d" % (cs["track_global"]["file"], cs["track_global"]["line"]) if cs["track_global"] else m.file)
    n_ = 0
    for path in sorted(glob.glob(os.path.join(ctx.root, "cfg", "thread", "*", "*.cfg"))):
        txt = open(path, errors="replace").read()
        ty = re.findall(r"^window_filter_module evt_type 1 (\d+)\s*$", txt, re.M)
        lab = re.findall(r'^window_filter_module evt_type_label 1 "([^"]*)"', txt, re.M)
        if len(ty) != 1 or len(lab) != 1:
            continue
        t = int(ty[0])
        want = ACT if lab[0].endswith("of the ACTIVE thread") else (RUN if lab[0].endswith("of the RUNNING thread") else None)
        if want is None or t not in bytype:
            continue
        model, chname, mode, where = bytype[t]
        n_ += 1
        rel = os.path.relpath(path, ctx.root)
        ctx.check(mode == want, rule, "track-mode:%s:%s:type%d" % (model, chname, t), where,
                  "the shipped view %s shows PRV type %d as '%s', but %s declares tracking mode %s for that channel "
                  "(%d = running only, %d = running, cooling or warming): the thread timeline hides or shows the value "
                  "in other states than documented" % (rel, t, lab[0], model, mode, RUN, ACT))
    ctx.need(n_ >= 10, "only %d shipped thread views could be related to a model channel" % n_)

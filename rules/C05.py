"""C05 — CPU occupancy.

R5.1 every accepted state / affinity change is followed by a recount of each affected CPU
R5.2 + R5.3 + R5.4 cpu_update evaluated on all thread lists up to length 3: counts, the
     oversubscription guard, and what each CPU channel receives
"""
import itertools
import json
import os

from ovsa import absint, effects
from ovsa.absint import INT, NULL, PTR, TOP
from ovsa.facts import VERIF

EVFILE = "src/emu/ovni/event.c"
THFILE = "src/emu/thread.c"
CPUC = "src/emu/cpu.c"


def F(rec, field):
    return ((rec, field),)


def c04():
    with open(os.path.join(VERIF, "spec", "C04.json")) as f:
        return json.load(f)


def cpu_update_cases(ctx, prog, eff, sp, maxn=3):
    """cpu_update evaluated on every list of 0..maxn threads in every state, physical and virtual CPU.
    Yields (tag, is_virtual, states, accepting outcomes, {channel index: value set}, running idx, active idx).
    Thread i has tid 1000+i, gindex 10+i, process pid 2000+i.  (Shared with C06 R6.5.)"""
    E = prog.enum_val
    names = [e[0] for e in prog.enums["thread_state"]["enumerators"]]
    cu = prog.fn("cpu_update", CPUC)

    def s_val(ex, st, args, f, e):
        return [(("val", "i64", args[0]), {})]

    def s_null(ex, st, args, f, e):
        return [(("val", "null"), {})]
    for virt in (0, 1):
        for n in range(0, maxn + 1):
            for states in itertools.product(names, repeat=n):
                store = {("CPU", F("cpu", "is_virtual")): INT(virt),
                         ("CPU", F("cpu", "threads")): PTR("T0") if n else NULL}
                for i, s in enumerate(states):
                    t = "T%d" % i
                    store[(t, F("thread", "state"))] = INT(E(s))
                    store[(t, F("thread", "tid"))] = INT(1000 + i)
                    store[(t, F("thread", "gindex"))] = INT(10 + i)
                    store[(t, F("thread", "proc"))] = PTR("P%d" % i)
                    store[("P%d" % i, F("proc", "pid"))] = INT(2000 + i)
                    store[(t, F("thread", "cpu_next"))] = PTR("T%d" % (i + 1)) if i + 1 < n else NULL
                sets = {}

                def s_cs(ex, st, args, f, e, sets=sets):
                    a = args[0]
                    if a[0] == "ptr" and a[1] == "CPU" and a[2] and a[2][0] == ("cpu", "chan"):
                        sets[a[2][1]] = args[1]
                    return [(INT(0), {})]
                ex = absint.Explorer(prog, effects=eff, loop_bound=maxn + 3, inline=lambda n_, d: d.file == CPUC and n_ != "cpu_update",
                                     summaries={"chan_set": s_cs, "value_int64": s_val, "value_null": s_null})
                outs = ex.run(cu, [PTR("CPU")], store)
                rets = [o for o in outs if o.kind == "ret"]
                ctx.need(rets and all(o.ret and o.ret[0] == "int" for o in rets), "cpu_update: cannot evaluate")
                acc = [o for o in rets if o.ret[1] == 0]
                run_idx = [i for i, s in enumerate(states) if s in sp["running"]]
                act_idx = [i for i, s in enumerate(states) if s in sp["active"]]
                tag = "%s:[%s]" % ("virtual" if virt else "physical", ",".join(s[6:] for s in states))
                yield tag, virt, states, acc, sets, run_idx, act_idx


def run(ctx):
    prog = ctx.prog
    sp = c04()
    eff = effects.Effects(prog)
    E = prog.enum_val
    ctx.rule("R5.1", "on every accepting path of the thread life-cycle and affinity handlers, each change of a "
             "thread's state or CPU is followed by a recount (cpu_update, or cpu_add/remove/migrate_thread which "
             "must themselves reach cpu_update) of every CPU whose occupants changed, after the change")
    ctx.rule("R5.2", "cpu_update, evaluated on every list of 0..3 threads in every state, for physical and "
             "virtual CPUs: rejects exactly when more than one thread is running on a physical CPU")
    ctx.rule("R5.4", "on accepted configurations the CPU channels receive: NRUN the number of running threads; "
             "TID, PID, THRUN the tid / process pid / gindex of the unique running thread and null otherwise; "
             "THACT the gindex of the unique active thread (running, cooling or warming) and null otherwise")
    names = [e[0] for e in prog.enums["thread_state"]["enumerators"]]
    cu = prog.fn("cpu_update", CPUC)

    def s_val(ex, st, args, f, e):
        return [(("val", "i64", args[0]), {})]

    def s_null(ex, st, args, f, e):
        return [(("val", "null"), {})]
    CH = {n: E("CPU_CHAN_" + n) for n in ("NRUN", "PID", "TID", "THRUN", "THACT")}

    # ---- R5.2 / R5.4 -------------------------------------------------------------
    if True:
        if True:
            for (tag, virt, states, acc, sets, run_idx, act_idx) in cpu_update_cases(ctx, prog, eff, sp, maxn=4 if ctx.tier == "thorough" else 3):
                over = len(run_idx) > 1 and not virt
                if over:
                    ctx.check(not acc, "R5.2", tag + ":oversubscribed", cu.loc(),
                              "a physical CPU with %d running threads is accepted" % len(run_idx))
                    continue
                if not acc:
                    ctx.fail("R5.2", tag + ":accepted", cu.loc(),
                             "a legal configuration (%d running on a %s CPU) is rejected" %
                             (len(run_idx), "virtual" if virt else "physical"))
                    continue
                ctx.ok("R5.2", tag + ":accepted", cu.loc())
                want = {CH["NRUN"]: ("val", "i64", INT(len(run_idx)))}
                if len(run_idx) == 1:
                    i = run_idx[0]
                    want[CH["TID"]] = ("val", "i64", INT(1000 + i))
                    want[CH["PID"]] = ("val", "i64", INT(2000 + i))
                    want[CH["THRUN"]] = ("val", "i64", INT(10 + i))
                else:
                    want[CH["TID"]] = want[CH["PID"]] = want[CH["THRUN"]] = ("val", "null")
                want[CH["THACT"]] = ("val", "i64", INT(10 + act_idx[0])) if len(act_idx) == 1 else ("val", "null")
                bad = []
                for nm, ix in CH.items():
                    if sets.get(ix) != want[ix]:
                        bad.append("%s receives %s, expected %s" % (nm, sets.get(ix), want[ix]))
                ctx.check(not bad, "R5.4", tag + ":channels", cu.loc(), "; ".join(bad))

    # ---- R5.1: the list operations reach the recount -------------------------------------
    RECOUNT = ("cpu_update",)
    for fname in ("cpu_add_thread", "cpu_remove_thread"):
        fn = prog.fn(fname, CPUC)
        for present in (0, 1):
            seen = []

            def s_cu(ex, st, args, f, e, seen=seen):
                seen.append(args[0])
                return [(INT(0), {})]
            ex = absint.Explorer(prog, effects=eff, loop_bound=4, inline=lambda n, d: d.file == CPUC,
                                 summaries={"cpu_update": s_cu})
            store = {("CPU", F("cpu", "threads")): PTR("TH") if present else NULL,
                     ("CPU", F("cpu", "nthreads")): INT(present),
                     ("TH", F("thread", "cpu_next")): NULL, ("TH", F("thread", "cpu_prev")): PTR("TH")}
            outs = ex.run(fn, [PTR("CPU"), PTR("TH")], store)
            acc = [o for o in outs if o.kind == "ret" and o.ret == INT(0)]
            inst = "%s:thread-%s" % (fname, "present" if present else "absent")
            legal = (fname == "cpu_add_thread") != bool(present)
            if not legal:
                ctx.check(not acc, "R5.1", inst, fn.loc(),
                          "%s accepts a thread that is %s on the CPU" % (fname, "already" if present else "not"))
                continue
            good = bool(acc) and seen and all(a == PTR("CPU") for a in seen)
            for o in acc:
                want_head = PTR("TH") if fname == "cpu_add_thread" else NULL
                if o.store.get(("CPU", F("cpu", "threads"))) != want_head:
                    good = False
                idx_list = [i for i, ev in enumerate(o.events) if ev[0] == "store" and ev[1] == ("CPU", F("cpu", "threads"))]
                idx_upd = [i for i, ev in enumerate(o.events) if ev[0] == "call" and ev[1] == "cpu_update"]
                if not idx_upd or (idx_list and idx_upd[-1] < idx_list[-1]):
                    good = False
            ctx.check(good, "R5.1", inst, fn.loc(),
                      "%s does not update the CPU's thread list and then recount that CPU" % fname)
    mig = prog.fn("cpu_migrate_thread", CPUC)
    calls = []

    def mk(name):
        def s(ex, st, args, f, e):
            calls.append((name, tuple(args)))
            return [(INT(0), {})]
        return s
    ex = absint.Explorer(prog, effects=eff, summaries={"cpu_remove_thread": mk("remove"), "cpu_add_thread": mk("add")})
    outs = ex.run(mig, [PTR("OLD"), PTR("TH"), PTR("NEW")], {})
    good = any(o.kind == "ret" and o.ret == INT(0) for o in outs) and \
        ("remove", (PTR("OLD"), PTR("TH"))) in calls and ("add", (PTR("NEW"), PTR("TH"))) in calls
    ctx.check(good, "R5.1", "cpu_migrate_thread:remove-old-add-new", mig.loc(),
              "cpu_migrate_thread does %s" % calls)

    # ---- R5.1: handlers ---------------------------------------------------------------------
    def unk(cal, args, f, e):
        d = prog.decls.get(cal) if cal else None
        if cal == "loom_get_cpu":
            return [NULL, PTR("NEWCPU")]
        if cal in ("proc_find_thread", "loom_find_thread"):
            return [NULL, PTR("RTH")]
        if d and d[0]["ret"].rstrip().endswith("*"):
            return [NULL, PTR("ret:" + cal)]
        return None
    ex = absint.Explorer(prog, effects=eff, inline=lambda n, d: d.file in (EVFILE, THFILE), on_unknown_call=unk,
                         summaries={"value_int64": s_val, "value_null": s_null})
    pre_thread = prog.fn("pre_thread", EVFILE)
    KS = ("TH", F("thread", "state"))
    KC = ("TH", F("thread", "cpu"))
    recounts = {"cpu_update": (0,), "cpu_add_thread": (0,), "cpu_remove_thread": (0,), "cpu_migrate_thread": (0, 2)}

    def check_path(o, thobj, cpu_before):
        """After the last change of thobj's state/cpu there must be a recount of
        the CPU(s) involved, seeing the new state."""
        evs = o.events
        last_state = max([i for i, ev in enumerate(evs) if ev[0] == "store" and ev[1] == (thobj, F("thread", "state"))],
                         default=None)
        cpu_after = o.store.get((thobj, F("thread", "cpu")))
        affected = set()
        if last_state is not None:
            affected |= {c for c in (cpu_before, cpu_after) if c and c[0] == "ptr"}
        if cpu_before != cpu_after:
            affected |= {c for c in (cpu_before, cpu_after) if c and c[0] == "ptr"}
        problems = []
        for c in affected:
            idx = [i for i, ev in enumerate(evs) if ev[0] == "call" and ev[1] in recounts and
                   any(ai < len(ev[2]) and ev[2][ai] == c for ai in recounts[ev[1]])]
            if not idx:
                problems.append("CPU %s is never recounted" % (c[1],))
            elif last_state is not None and idx[-1] < last_state:
                problems.append("CPU %s is recounted before the state change, not after" % (c[1],))
        return problems

    for v, evs in sp["events"].items():
        for stname in evs["from"]:
            store = {("EMU", F("emu", "thread")): PTR("TH"), ("EMU", F("emu", "ev")): PTR("EV"),
                     ("EV", F("emu_ev", "v")): INT(ord(v)), KS: INT(E(stname)),
                     KC: PTR("CPU0") if sp["states"][stname]["cpu"] else NULL,
                     ("TH", F("thread", "tid")): INT(4242)}
            outs = ex.run(pre_thread, [PTR("EMU")], store)
            acc = [o for o in outs if o.kind == "ret" and o.ret == INT(0)]
            inst = "%s:%s" % (evs["name"], stname)
            if not acc:
                # the documented transition is refused: that is C04's finding (R4.1); nothing is recounted on a
                # path that does not exist, so there is nothing for this rule to decide here
                ctx.note("R5.1 %s: no accepting path (the transition is refused; see C04 R4.1)" % inst)
                skipped_r51 = True
                continue
            probs = []
            for o in acc:
                probs += check_path(o, "TH", store[KC])
            ctx.check(not probs, "R5.1", inst, pre_thread.loc(), "; ".join(sorted(set(probs))))
    # affinity
    for (fname, thobj) in (("pre_affinity_set", "TH"), ("pre_affinity_remote", "RTH")):
        fn = prog.fn(fname, EVFILE)
        for stname in names:
            for has_cpu in (0, 1):
                store = {("EMU", F("emu", "thread")): PTR("TH"), ("EMU", F("emu", "ev")): PTR("EV"),
                         ("EV", F("emu_ev", "payload_size")): INT(4 if thobj == "TH" else 8),
                         ("EV", F("emu_ev", "payload")): PTR("PL"),
                         (thobj, F("thread", "state")): INT(E(stname)),
                         (thobj, F("thread", "cpu")): PTR("CPU0") if has_cpu else NULL,
                         (thobj, F("thread", "is_active")): INT(1 if stname in sp["active"] else 0),
                         (thobj, F("thread", "tid")): INT(4242)}
                outs = ex.run(fn, [PTR("EMU")], store)
                acc = [o for o in outs if o.kind == "ret" and o.ret == INT(0)]
                inst = "%s:%s:%s" % (fname, stname, "cpu" if has_cpu else "nocpu")
                if not has_cpu:
                    ctx.check(not acc, "R5.1", inst, fn.loc(), "affinity change accepted for a thread without CPU")
                    continue
                probs = []
                for o in acc:
                    after = o.store.get((thobj, F("thread", "cpu")))
                    if after == PTR("CPU0"):
                        # the event names another CPU (NEWCPU) than the one the thread is on (CPU0): accepting it
                        # without moving the thread leaves the CPU rows on the old CPU
                        probs.append("the event is accepted but the thread stays bound to its old CPU although another "
                                     "CPU was requested")
                        continue
                    if after != PTR("NEWCPU"):
                        probs.append("thread ends bound to %s" % (after,))
                    probs += check_path(o, thobj, PTR("CPU0"))
                ctx.check(not probs, "R5.1", inst, fn.loc(), "; ".join(sorted(set(probs))),
                          )


    # ---- R5.5 ---------------------------------------------------------------
    ctx.rule("R5.5", "the CPU a thread is bound to is the one the event names: events give logical CPU indices, and "
             "loom_init_end's index table maps index i to the CPU whose logical index is i whatever the order of the "
             "CPU list (C15 R15.4's evaluation); with the channel properties cpu_init_end sets, a recount that "
             "republishes unchanged NRUN / TID / PID values (a paused thread joins, a third thread runs on the virtual "
             "CPU) is accepted by chan.c's own chan_set")
    from rules import round3
    round3.share(ctx, "R5.5", "C15", lambda i_: i_["rule"] == "R15.4" and i_["inst"].startswith("loom_init_end:"),
                 "index-table:", "threads are bound to, and counted on, the wrong CPU", 8)
    round3.check_cpu_recount_accepted(ctx, "R5.5")


_run_base = run


def run(ctx):
    _run_base(ctx)
    prog = ctx.prog
    ctx.rule("R5.6", "a refused recount fails the event: the failure of cpu_update (oversubscription, a refused channel "
             "write) is followed from every place that recounts - cpu_add/remove/migrate_thread, the life-cycle and "
             "affinity handlers - to main's exit status")
    from rules import round4
    round4.check_cpu_update_failure_propagates(ctx, "R5.6")
    ctx.rule("R5.7", "the CPU rows carry PID, TID and the running count under the PRV types the shipped CPU views select "
             "for those labels (cfg/cpu/*/*.cfg); the CPU names of the affinity view are keyed gindex + 1 (C13 R13.8)")
    from rules import round6
    round6.check_cpu_prv_types_vs_cfg(ctx, "R5.7")
    round6.share(ctx, "R5.7", "C13", lambda i_: i_["rule"] == "R13.2" and i_["inst"].startswith("cpu-affinity"), "affinity-label:",
                 "each thread's CPU value is labelled with another CPU's name", 1)
    ctx.rule("R5.8", "a thread that is moved shows its new CPU whatever its state: thread_set_cpu / thread_migrate_cpu "
             "publish the CPU's global index on every accepting path, for an active and for a paused thread")
    from rules import round4
    round4.check_affinity_value_is_gindex(ctx, "R5.8")
    ctx.rule("R5.9", "the CPU rows follow a thread through every state in which it may move: the affinity handlers admit "
             "active threads by the cached is_active flag, which thread_set_state must raise for running, cooling and "
             "warming alike (C04 R4.3's evaluation of thread_set_state on every state); with a state left out an OAs "
             "of a legal history is refused instead of being followed by the CPU rows")
    round4.share(ctx, "R5.9", "C04", lambda i_: i_["rule"] == "R4.3" and i_["inst"].startswith("thread_set_state:TH_ST_"),
                 "flags:", "an affinity change of a thread in that state is refused or misses the CPU rows", 6)

"""C02 — traces produced through correct API use are valid and accepted.

R2.1 the automatic flush is not re-entrant (markers stay paired, non-nested, clock-monotonic)
R2.2 clocks carried by the library's own events are emitted in sampling order
R2.3 OF[ is always immediately followed by OF]
R2.4 metadata completeness = writer/reader key agreement
R2.5 the emulator walks streams with the writer's own size function
R2.6 the reader does not refuse what the writer legitimately produces: an event whose clock equals or exceeds
     the previous one of its stream (and of the previous stream) is accepted
"""
from ovsa import absint, effects
from ovsa.absint import INT, NULL, PTR, TOP

from rules.rtcommon import EVLEN, F, OV, RP, RT, RtExplorer, _s, buffer_capacity, walk_buffer
from rules.C01 import describe

GETTERS = {"json_object_dotget_string": "string", "json_object_dotget_number": "number",
           "json_object_dotget_array": "array", "json_object_dotget_object": "object",
           "json_object_dotget_value": "value", "json_object_get_value": "value",
           "json_object_get_string": "string", "json_object_get_number": "number",
           "json_object_dotget_boolean": "boolean"}
SETTERS = {"json_object_dotset_string": "string", "json_object_dotset_number": "number",
           "json_object_dotset_value": "value", "json_object_dotset_boolean": "boolean",
           "json_object_set_number": "number", "json_object_set_string": "string",
           "json_object_set_value": "value"}


def run(ctx):
    prog = ctx.prog
    eff = effects.Effects(prog)
    cap = buffer_capacity(ctx)
    ctx.rule("R2.1", "in ovni_ev_add and ovni_ev_add_jumbo the buffer is flushed at most once per call and never "
             "while the OF[ OF] markers of that flush are being appended (the nested flush condition is "
             "infeasible for every evlen / event size)")
    ctx.rule("R2.2", "the clocks stored in the library's own events follow the order in which they were sampled: "
             "clock(OF[) <= clock(OF]) and both are sampled after the caller sampled the user event's clock")
    ctx.rule("R2.3", "every path that appends OF[ appends OF] as the very next event")
    ctx.rule("R2.4", "every metadata key the emulator requires (a missing value makes the reader fail) is written "
             "by libovni on every path of thread init/free with a compatible JSON type; optional reader keys "
             "are written by some libovni path")
    ctx.rule("R2.5", "for every event stream_step accepts, the distance it advances equals the size the "
             "runtime's ovni_ev_size (single definition) gives for the same bytes, so reader and writer tile the "
             "stream identically")

    ctx.rule("R2.6", "stream_step refuses a complete event on clock grounds only when its corrected clock is "
             "strictly lower than the previous one of the stream (equal clocks, which a coarse clock or one sample "
             "stamped on two events produce, are accepted); update_clocks accepts equal and increasing clocks "
             "across streams")

    rt = RtExplorer(ctx, cap)
    ex = rt.ex
    hdr = F("ovni_ev", "header")

    def explore(fname, args, extra=None):
        from ovsa.facts import AnalysisBroken
        st = rt.base_store()
        st.update(extra or {})
        fn = prog.fn(fname, OV)
        try:
            outs = ex.run(fn, args, st)
        except AnalysisBroken as e:
            if "path explosion" not in str(e):
                raise
            ctx.fail("R2.1", "%s:exploration-terminates" % fname, fn.loc(),
                     "the flush / marker recursion does not terminate in the abstract exploration")
            ex.paths = 0
            return fn, [], st
        return fn, [o for o in outs if o.kind in ("ret", "exit")], st

    cases = [("ovni_ev_add", [PTR("EV")], {("EV", hdr + F("ovni_ev_header", "flags")): ex.sym("flags", 0, 15)}),
             ("ovni_ev_add_jumbo", [PTR("EV"), PTR("BUF"), ex.sym("bufsize", 0, 2 ** 32 - 1)],
              {("EV", hdr + F("ovni_ev_header", "flags")): ex.sym("jflags", 0, 15)}),
             ("ovni_flush", [], {})]
    for fname, args, extra in cases:
        fn, outs, st0 = explore(fname, args, extra)
        reentrant = False
        bad_pair = []
        bad_clock = []
        nflushpaths = 0
        for o in outs:
            probs, app = walk_buffer(rt, o, st0[EVLEN])
            desc = describe(app)
            if desc.count("flush") > 1:
                reentrant = True
            if "flush" in desc:
                nflushpaths += 1
            # pairing
            evs = [a for a in app if a[0] == "append"]
            names = [d for d in desc if d != "flush"]
            for i, nm in enumerate(names):
                if nm == "OF[" and (i + 1 >= len(names) or names[i + 1] != "OF]"):
                    bad_pair.append(">".join(desc))
                if nm == "OF]" and (i == 0 or names[i - 1] != "OF["):
                    bad_pair.append(">".join(desc))
            # clocks of consecutive library events
            lib = [(a[1], a[2], a[3]) for a in evs if a[1] in ("OF[", "OF]")]
            for (m1, c1, d1), (m2, c2, d2) in zip(lib, lib[1:]):
                if c1 is None or c2 is None or rt.le(d2["cons"], c1, c2) is not True:
                    bad_clock.append("%s(clock %s) is followed by %s(clock %s)" %
                                     (m1, _s(c1) if c1 else c1, m2, _s(c2) if c2 else c2))
            # the user's event carries a clock sampled before the call, the markers clocks sampled inside it:
            # in the buffer the user's event must precede the markers of the flush it triggered
            seen_marker = None
            for nm in names:
                if nm in ("OF[", "OF]"):
                    seen_marker = nm
                elif nm == "user-event" and seen_marker:
                    bad_clock.append("the user's event (clock sampled by the caller before the call) is stored after "
                                     "%s (clock sampled during the call)" % seen_marker)
        if outs:
            what = ""
            if reentrant:
                what = ("while the OF[ OF] markers of an automatic flush are appended the buffer can be full "
                        "again: the flush re-enters, giving nested markers OF[ OF[ OF] OF] with a clock that goes "
                        "back (an event as large as the buffer minus less than two marker events)")
            ctx.check(not reentrant, "R2.1", "%s:flush-not-reentrant" % fname, fn.loc(), what)
            ctx.check(not bad_pair, "R2.3", "%s:markers-paired" % fname, fn.loc(),
                      "marker sequence %s" % sorted(set(bad_pair))[:3])
            ctx.check(not bad_clock, "R2.2", "%s:marker-clocks-ordered" % fname, fn.loc(),
                      "; ".join(sorted(set(bad_clock))[:3]))
            ctx.check(nflushpaths >= 1, "R2.1", "%s:flush-arm-explored" % fname, fn.loc(), "no flushing path explored")

    ctx.rule("R2.7", "every thread's streams and metadata pass only through storage private to that thread (thread-local or "
             "automatic): no function reachable from the tracing API writes a shared static object other than the "
             "process state (same analysis as C11 R11.1)")
    from rules.rtcommon import private_storage_rule
    private_storage_rule(ctx, "R2.7", "streams and metadata")
    ctx.rule("R2.8", "clocks cannot go backwards at their source and the emulator's merge does not misorder them: "
             "ovni_clock_now reads the clock ovni_proc_init selects, which must be one POSIX / Linux define as monotonic "
             "(the wall clock can be stepped back); stream_cmp, the key of the player's heap, orders every pair of "
             "64-bit clocks correctly (C03 R3.2's evaluation: a narrowed difference rejects valid traces whose "
             "streams are seconds apart)")
    from rules import round3
    round3.check_clock_source(ctx, "R2.8")
    from rules.C03 import check_stream_cmp
    check_stream_cmp(ctx, "R2.8")

    # ---- R2.4 -----------------------------------------------------------------------
    # writer side: literal keys set in libovni (formats normalised at the first '%')
    writer = {}
    for f in prog.fns_in(OV):
        for i, n in enumerate(f.nodes):
            if n["k"] == "CallExpr" and n.get("callee") in SETTERS and len(n["args"]) >= 2:
                key = _literal_key(f, n["args"][1])
                if key is None:
                    continue
                writer.setdefault(key, []).append((SETTERS[n["callee"]], f.name, f.loc(i)))
    ctx.need(len(writer) >= 10, "only %d literal metadata keys written by libovni found" % len(writer))
    wkeys = set(writer)
    wprefix = {k[:-1] if k.endswith(".") else k for k in wkeys}
    # keys written on every successful path of thread init / free
    always, wpaths = _always_written(ctx, prog, eff)
    # reader side
    nread = 0
    for f in prog.functions.values():
        if not f.file.startswith("src/emu/") or f.file == "src/emu/ovni/mark.c":
            continue
        for i, n in enumerate(f.nodes):
            if n["k"] != "CallExpr" or n.get("callee") not in GETTERS or len(n["args"]) < 2:
                continue
            a = f.nodes[f.strip(n["args"][1])]
            if a["k"] != "StringLiteral":
                continue
            key = a["s"]
            if not (key.startswith("ovni.") or key == "version" or key in ("index", "phyid")):
                continue
            nread += 1
            kind = GETTERS[n["callee"]]
            inst = "reader:%s@%s" % (key, f.name)
            wk = key if key in wkeys else (key + "." if key + "." in wkeys else None)
            if wk is None:
                ctx.fail("R2.4", inst, f.loc(i), "the emulator reads metadata key '%s' which libovni never writes" % key)
                continue
            wkinds = {w[0] for w in writer[wk]}
            compatible = kind in wkinds or kind == "value" or "value" in wkinds or \
                (wk.endswith(".") and kind == "object")
            ctx.check(compatible, "R2.4", inst + ":type", f.loc(i),
                      "key '%s' is read as %s but written as %s" % (key, kind, sorted(wkinds)))
            mandatory = _reader_requires(prog, eff, f, i, kind)
            if mandatory:
                okw = key in always or wk in always
                if not okw:
                    # required only together with another key read by the same function: the writer
                    # must then write it on every path on which it writes that other key
                    others = set()
                    for j, m in enumerate(f.nodes):
                        if j != i and m["k"] == "CallExpr" and m.get("callee") in GETTERS and len(m["args"]) >= 2:
                            b = f.nodes[f.strip(m["args"][1])]
                            if b["k"] == "StringLiteral" and b["s"] != key:
                                others.add(b["s"])
                    for r in others:
                        pr = [ks for ks in wpaths if r in ks]
                        if pr and all(key in ks for ks in pr):
                            okw = True
                ctx.check(okw, "R2.4", inst + ":always-written", f.loc(i),
                          "the emulator fails without '%s' but libovni does not write it on every path of "
                          "thread initialisation / finalisation (nor together with a key it accompanies)" % key)
    ctx.check(nread >= 12, "R2.4", "reader:sites", "src/emu", "only %d literal metadata reads found" % nread)

    # ---- R2.5 -------------------------------------------------------------------------------
    defs = prog.by_name.get("ovni_ev_size", [])
    ctx.check(len(defs) == 1 and defs[0].file == OV, "R2.5", "ovni_ev_size:single-definition", OV,
              "ovni_ev_size is defined in %s" % [d.file for d in defs])
    ss = prog.fn("stream_step", "src/emu/stream.c")
    # the reader's step equals the writer's event size: evaluated on symbolic event bytes
    from ovsa.absint import to_lin
    inl = {f.name for f in prog.fns_in("src/emu/stream.c")} | {"ovni_ev_size", "ovni_payload_size",
                                                              "get_jumbo_payload_size", "ovni_ev_get_clock"}
    # the property is about events the runtime can write: a jumbo's size field never exceeds the event buffer
    # (what the reader does with larger, corrupt sizes is C12 / C19's business)
    ex5 = absint.Explorer(prog, effects=eff, inline=lambda n, d: n in inl and d.name != "stream_step",
                          loop_bound=2, max_depth=5, symbolic_roots=("BUF",),
                          symbolic_ranges={"unsigned int": (0, cap), "uint32_t": (0, cap)})
    S = ex5.sym("size", 8, 2 ** 31 - 1)
    off = ex5.sym("off", 8, 2 ** 31 - 1)
    store = {("ST", F("stream", "active")): INT(1), ("ST", F("stream", "size")): S,
             ("ST", F("stream", "offset")): off, ("ST", F("stream", "buf")): PTR("BUF", (0,)),
             ("ST", F("stream", "cur_ev")): NULL, ("ST", F("stream", "unsorted")): INT(0)}
    outs1 = [o for o in ex5.run(ss, [PTR("ST")], store, cons=(((("off", 1), ("size", -1)), -1),))
             if o.kind == "ret" and o.ret == INT(0)]
    evs = prog.fn("ovni_ev_size", OV)
    npairs, bad = 0, []
    for o1 in outs1:
        cur = o1.store.get(("ST", F("stream", "cur_ev")))
        off1 = o1.store.get(("ST", F("stream", "offset")))
        for osz in ex5.run(evs, [cur], o1.store, cons=o1.cons):
            if osz.kind != "ret" or osz.ret is None or to_lin(osz.ret) is None:
                bad.append("the writer's size function gives %s on an event stream_step accepted" % (osz.ret,))
                continue
            for o2 in ex5.run(ss, [PTR("ST")], osz.store, cons=osz.cons):
                if o2.kind != "ret":
                    continue
                new = o2.store.get(("ST", F("stream", "offset")))
                ln, l1, le = to_lin(new), to_lin(off1), to_lin(osz.ret)
                if ln is None:
                    bad.append("the step is not a function of the event bytes")
                    continue
                t = dict(ln[1])
                for k, c in l1[1].items():
                    t[k] = t.get(k, 0) - c
                for k, c in le[1].items():
                    t[k] = t.get(k, 0) - c
                npairs += 1
                if ex5.decide_cmp(o2.cons, "==", ln[0] - l1[0] - le[0], {k: c for k, c in t.items() if c}) is not True:
                    bad.append("stream_step advances by a different amount than ovni_ev_size gives for the same bytes")
    ctx.check(npairs > 0 and not bad, "R2.5", "stream_step:step-equals-writer-size", ss.loc(),
              "; ".join(sorted(set(bad))) or "nothing explored")
    # ---- R2.6 -------------------------------------------------------------------------------
    ex6 = absint.Explorer(prog, effects=eff, inline=lambda n, d: n in inl and d.name != "stream_step",
                          loop_bound=2, max_depth=5, symbolic_roots=("BUF",),
                          symbolic_ranges={"unsigned long": (0, 2 ** 61)})
    S6 = ex6.sym("size", 8, 2 ** 31 - 1)
    off6 = ex6.sym("off", 8, 2 ** 31 - 1)
    L6 = ex6.sym("lastclock", -2 ** 61, 2 ** 61)
    K6 = ex6.sym("clkoff", -2 ** 60, 2 ** 60)
    store6 = {("ST", F("stream", "active")): INT(1), ("ST", F("stream", "size")): S6,
              ("ST", F("stream", "offset")): off6, ("ST", F("stream", "buf")): PTR("BUF", (0,)),
              ("ST", F("stream", "cur_ev")): NULL, ("ST", F("stream", "unsorted")): INT(0),
              ("ST", F("stream", "lastclock")): L6, ("ST", F("stream", "clock_offset")): K6}
    outs6 = ex6.run(ss, [PTR("ST")], store6, cons=(((("off", 1), ("size", -1)), -1),))
    rej = [o for o in outs6 if o.kind == "ret" and o.ret is not None and o.ret[0] == "int" and o.ret[1] < 0]
    ctx.need(rej, "stream_step: no rejecting path explored")
    nclock, unjust = 0, []
    for o in rej:
        for (key, c) in o.cons:
            t = dict(key)
            if "lastclock" not in t or abs(t["lastclock"]) != 1:
                continue
            # orient the form as (corrected clock - lastclock)
            if t["lastclock"] == 1:
                t = {k: -v for k, v in t.items()}
            nclock += 1
            # the rejection is justified only if clock - lastclock < 0 on this path
            if ex6.decide_cmp(o.cons, ">=", 0, t) is not False:
                unjust.append("an event whose corrected clock is not lower than the previous one of its stream "
                              "(for instance equal to it) is refused")
    ctx.check(nclock >= 1 and not unjust, "R2.6", "stream_step:equal-clock-accepted", ss.loc(),
              "; ".join(sorted(set(unjust))) or "no clock-based rejection found")
    uc = prog.fn("update_clocks", "src/emu/player.c")
    for (last, sclock) in ((10, 10), (10, 11)):
        exu = absint.Explorer(prog, effects=eff, summaries={
            "stream_lastclock": lambda ex_, st, args, f, e, s_=sclock: [(INT(s_), {})]})
        outsu = exu.run(uc, [PTR("PL"), PTR("S1")], {("PL", F("player", "first_event")): INT(0),
                                                     ("PL", F("player", "lastclock")): INT(last),
                                                     ("PL", F("player", "unsorted")): INT(0),
                                                     ("PL", F("player", "firstclock")): INT(0)})
        acc = [o for o in outsu if o.kind == "ret" and o.ret == INT(0)]
        ctx.check(bool(acc), "R2.6", "update_clocks:last=%d:next=%d" % (last, sclock), uc.loc(),
                  "a legal step between streams (clock %d after %d) is refused" % (sclock, last))

    # threads of a program start at different times: streams whose first events are seconds or minutes apart
    # are accepted; the gate (one hour, the unit the function's own diagnostic uses) only refuses hours
    ccg = prog.fn("check_clock_gate", "src/emu/player.c")
    for (label, delta, want_ok) in (("same", 0, True), ("1s", 10 ** 9, True), ("1min", 60 * 10 ** 9, True),
                                    ("59min", 59 * 60 * 10 ** 9, True), ("3h", 3 * 3600 * 10 ** 9, False)):
        for sign in (1, -1):
            def s_clk(ex_, st, a, f, e, delta=delta, sign=sign):
                return [(INT(10 ** 15 + (sign * delta if a[0] == PTR("S1") else 0)), {})]
            exg = absint.Explorer(prog, effects=eff, loop_bound=5, summaries={
                "stream_evclock": s_clk, "stream_ev": lambda ex_, st, a, f, e: [(PTR("OEV"), {})],
                "llabs": lambda ex_, st, a, f, e: [(INT(abs(a[0][1])), {})] if a[0][0] == "int" else None})
            store = {("TR", F("trace", "streams")): PTR("S0"), ("S0", F("stream", "next")): PTR("S1"),
                     ("S1", F("stream", "next")): NULL, ("S0", F("stream", "active")): INT(1),
                     ("S1", F("stream", "active")): INT(1)}
            outsg = [o for o in exg.run(ccg, [PTR("TR")], store) if o.kind == "ret"]
            acc = [o for o in outsg if o.ret == INT(0)]
            inst = "check_clock_gate:second-stream-%s-%s" % (label, "later" if sign > 0 else "earlier")
            if want_ok:
                ctx.check(bool(acc) and len(acc) == len(outsg), "R2.6", inst, ccg.loc(),
                          "a trace whose second stream starts %s %s than the first is refused as a 'large clock gate'" %
                          (label, "later" if sign > 0 else "earlier"))
            else:
                ctx.check(bool(outsg) and not acc, "R2.6", inst, ccg.loc(),
                          "streams starting %s apart are accepted without a clock offset table" % label)

    # nobody in the emulator decodes the size nibble on its own
    own = []
    for f in prog.functions.values():
        if not f.file.startswith("src/emu/"):
            continue
        for i, n in enumerate(f.nodes):
            if n["k"] == "MemberExpr" and n.get("rec") == "ovni_ev_header" and n["field"] == "flags":
                par = f.parent(f.parent(i)) if f.parent(i) is not None else None
                if par is not None and f.nodes[par]["k"] == "BinaryOperator" and f.nodes[par].get("op") == "&":
                    other = [c for c in f.nodes[par]["c"] if f.val(c) is not None]
                    if other and f.val(other[0]) == 0x0f:
                        own.append("%s (%s)" % (f.name, f.loc(i)))
    ctx.check(not own, "R2.5", "emu:no-private-size-decoding", "src/emu",
              "the emulator decodes the payload size nibble itself in %s" % own)


def _literal_key(f, arg):
    """Literal key of a setter call: a string literal, or a local buffer filled by
    snprintf(buf, n, "format", ...) in the same function (normalised at '%')."""
    a = f.nodes[f.strip(arg)]
    if a["k"] == "StringLiteral":
        return a["s"]
    if a["k"] == "DeclRefExpr":
        fmts = []
        for j, n in enumerate(f.nodes):
            if n["k"] == "CallExpr" and n.get("callee") in ("snprintf", "__builtin___snprintf_chk"):
                d = f.nodes[f.strip(n["args"][0])]
                if d["k"] == "DeclRefExpr" and d["name"] == a["name"]:
                    for x in n["args"][1:]:
                        xn = f.nodes[f.strip(x)]
                        if xn["k"] == "StringLiteral":
                            fmts.append(xn["s"])
                            break
        # the format closest before the call is not needed: report the most specific prefix
        if fmts:
            best = max(fmts, key=len)
            return best.split("%")[0] if "%" in best else best
    return None


def _always_written(ctx, prog, eff):
    """Keys set on every successful path of ovni_thread_init (with the metadata
    helpers inlined) or of ovni_thread_free."""
    allpaths = []
    result = set()
    for fname, inl in (("ovni_thread_init", ("thread_metadata_init", "thread_metadata_populate",
                                              "ovni_thread_require")),
                       ("ovni_thread_free", ("set_thread_rank", "set_thread_cpus"))):
        fn = prog.fn(fname, OV)

        def s_ok(ex_, st, args, f, e):
            return [(INT(0), {})]
        sums = {k: s_ok for k in SETTERS}
        sums["json_value_get_object"] = lambda ex_, st, args, f, e: [(PTR("META"), {})]
        sums["json_value_init_object"] = lambda ex_, st, args, f, e: [(PTR("METAV"), {})]
        sums["version_parse"] = s_ok
        ex = absint.Explorer(prog, effects=eff, inline=lambda n, d: n in inl, summaries=sums, loop_bound=2)
        store = {(RT, F("ovni_rthread", "ready")): INT(0 if fname == "ovni_thread_init" else 1),
                 (RT, F("ovni_rthread", "finished")): INT(0),
                 (RP, F("ovni_rproc", "st")): INT(prog.enum_val("ST_READY"))}
        outs = [o for o in ex.run(fn, [TOP] if fn.params else [], store) if o.kind in ("ret", "exit")]
        # ignore the "already initialised" early return
        outs = [o for o in outs if any(ev[0] == "call" and ev[1] in SETTERS for ev in o.events)]
        ctx.need(outs, "%s: no path writing metadata explored" % fname)
        keys_per_path = []
        for o in outs:
            ks = set()
            for ev in o.events:
                if ev[0] == "call" and ev[1] in SETTERS and len(ev[2]) >= 2:
                    k = ev[2][1]
                    if k[0] == "str":
                        ks.add(k[1])
                    else:
                        f2 = prog.functions[ev[3]]
                        lk = _literal_key(f2, f2.nodes[ev[4]]["args"][1])
                        if lk:
                            ks.add(lk)
            keys_per_path.append(ks)
        result |= set.intersection(*keys_per_path)
        allpaths.extend(keys_per_path)
    return result, allpaths


def _reader_requires(prog, eff, f, node, kind):
    """Does the enclosing function fail on every path when this getter finds nothing?"""
    missing = {"string": NULL, "array": NULL, "object": NULL, "value": NULL, "number": INT(0), "boolean": INT(-1)}[kind]

    def unk(cal, args, f_, e):
        if f_ is f and e == node:
            return [missing]
        d = prog.decls.get(cal) if cal else None
        if d and d[0]["ret"].rstrip().endswith("*"):
            return [NULL, PTR("ret:" + cal)]
        return None
    ex = absint.Explorer(prog, effects=eff, auto_inline=False, on_unknown_call=unk, loop_bound=2,
                         max_paths=20000)
    outs = ex.run(f, [TOP] * len(f.params), {})
    hit = [o for o in outs if any(ev[0] == "call" and ev[3] == f.key and ev[4] == node for ev in o.events)]
    if not hit:
        return False
    for o in hit:
        if o.kind == "die":
            continue
        if o.kind == "ret" and o.ret is not None and ((o.ret[0] == "int" and o.ret[1] != 0) or
                                                      (o.ret[0] == "null" and f.ret.rstrip().endswith("*"))):
            continue
        return False
    return True


_run_base = run


def run(ctx):
    _run_base(ctx)
    prog = ctx.prog
    ctx.rule("R2.9", "the emulator accepts the markers where the runtime puts them, and the clock table it is given: "
             "OF[ and OF] follow the event that filled the buffer, whatever it was, so the ovni model must accept them "
             "in every thread state, the dead one included; a clock table entry is matched to looms by the exact host "
             "name (C03 R3.4's evaluation on names that are prefixes of each other)")
    from rules import round4
    round4.check_flush_markers_any_state(ctx, "R2.9")
    round4.share(ctx, "R2.9", "C03", lambda i_: i_["rule"] == "R3.4" and i_["inst"].startswith("parse_clkoff_entry:"), "clock-table:",
                 "a valid trace of hosts named node1 and node10 is rejected", 1)
    ctx.rule("R2.10", "the emulator accepts the versions a conformant program writes: version_is_compatible ignores the "
             "patch number and accepts a lower or equal minor (C14 R14.1's exhaustive evaluation of the emulator-side "
             "sibling)")
    from rules import round5
    round5.share(ctx, "R2.10", "C14", lambda i_: i_["rule"] == "R14.1" and i_["inst"].startswith("version_is_compatible"),
                 "version:", "a trace whose required model version is compatible is rejected", 50)
    ctx.rule("R2.11", "a trace written by this runtime is readable by whoever follows the documented format: same "
             "layout rule as C01 R1.11 (a lost `packed` keeps all tools of the tree consistent with each other and "
             "changes every stream)")
    from rules import round6
    round6.check_wire_layout(ctx, "R2.11")
    ctx.rule("R2.12", "relocation through OVNI_TMPDIR leaves a complete stream whatever its size: move_thread_to_final is "
             "evaluated against a model of stdio (a read returns what is left, at most the chunk; end-of-file shows only "
             "after a short read) on sources of 0 bytes, below one chunk, exactly one, two and three chunks and a chunk "
             "plus a rest: it returns 0, passes every byte once to fwrite and removes the source; the destination is "
             "opened truncating (C01 R1.12's evaluation)")
    from rules import round8
    round8.check_copy_all_sizes(ctx, "R2.12")
    round8.check_final_copy_truncates(ctx, "R2.12")

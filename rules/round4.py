"""Rules added after the fourth round of seeded changes (code no earlier round had touched: clkoff.c,
model_thread.c, track.c, ring helpers of ovnisort, the event printer, thread affinity values, ...)."""
import itertools
import re

from ovsa import absint, effects, errflow
from ovsa.absint import INT, NULL, PTR, TOP
from rules.round3 import DBG, F, RP, RT, OV, VI, VNULL, chan_explorer, share


def check_flush_markers_any_state(ctx, rule):
    """The runtime puts the OF[ / OF] markers of an automatic flush after the event that triggered it - also after
    the thread's last event (OHe).  The ovni model must accept them in every thread state."""
    prog = ctx.prog
    eff = effects.Effects(prog)
    me = prog.fn("model_ovni_event", "src/emu/ovni/event.c")
    names = [n for n, v in prog.enums["thread_state"]["enumerators"] if n.startswith("TH_ST_")]
    n_ = 0
    for stn in names:
        stv = prog.enum_val(stn)
        running = int(stn == "TH_ST_RUNNING")
        active = int(stn in ("TH_ST_RUNNING", "TH_ST_COOLING", "TH_ST_WARMING"))
        for v in "[]":
            ex = absint.Explorer(prog, effects=eff, loop_bound=3, max_depth=4,
                                 inline=lambda n, d: d.file == "src/emu/ovni/event.c",
                                 summaries={"chan_set": lambda ex_, st, a, f, e: [(INT(0), {})],
                                            "extend_get": lambda ex_, st, a, f, e: [(PTR("OTH"), {})],
                                            "value_int64": lambda ex_, st, a, f, e: [(("val", "i64", a[0]), {})],
                                            "value_null": lambda ex_, st, a, f, e: [(VNULL, {})]})
            store = {DBG: INT(0), ("EMU", F("emu", "ev")): PTR("EV"), ("EMU", F("emu", "thread")): PTR("TH"),
                     ("EV", F("emu_ev", "m")): INT(ord("O")), ("EV", F("emu_ev", "c")): INT(ord("F")),
                     ("EV", F("emu_ev", "v")): INT(ord(v)), ("EV", F("emu_ev", "dclock")): INT(1000),
                     ("EV", F("emu_ev", "payload_size")): INT(0), ("EV", F("emu_ev", "has_payload")): INT(0),
                     ("TH", F("thread", "state")): INT(stv), ("TH", F("thread", "is_running")): INT(running),
                     ("TH", F("thread", "is_active")): INT(active), ("TH", F("thread", "is_out_of_cpu")): INT(0),
                     ("TH", F("thread", "tid")): INT(7), ("OTH", F("ovni_thread", "flush_start")): INT(900)}
            outs = [o for o in ex.run(me, [PTR("EMU")], store) if o.kind == "ret"]
            n_ += 1
            ctx.check(bool(outs) and all(o.ret == INT(0) for o in outs), rule, "OF%s:accepted-in:%s" % (v, stn), me.loc(),
                      "the flush marker OF%s from a thread in state %s is refused (returns %s): the runtime emits the markers "
                      "after the event that filled the buffer, whatever that event was (the last one, OHe, included), so a "
                      "conformant trace is rejected" % (v, stn, sorted({str(o.ret) for o in outs})))
    ctx.need(n_ >= 10, "flush markers: %d cases" % n_)


def check_clock_table_column(ctx, rule):
    """The clock offset table (written by ovnisync: rank, hostname, offset_median, offset_mean, offset_std) gives the
    offset to apply in its third column.  The field that receives the third conversion of the table parser's sscanf
    must be the field parse_clkoff_entry turns into the loom's clock offset."""
    prog = ctx.prog
    eff = effects.Effects(prog)
    CK = "src/emu/clkoff.c"
    third = []
    for f in prog.fns_in(CK):
        for i in f.calls():
            n = f.nodes[i]
            if n.get("callee") in ("sscanf", "__isoc99_sscanf", "fscanf", "__isoc99_fscanf") and len(n["args"]) >= 7:
                a = f.nodes[f.strip(n["args"][4])]
                if a["k"] == "UnaryOperator" and a.get("op") == "&":
                    a = f.nodes[f.strip(a["c"][0])]
                if a["k"] == "MemberExpr":
                    third.append((a.get("rec"), a["field"], f.loc(i)))
    ctx.need(len(third) == 1, "cannot find the five-field sscanf of the clock offset table (%s)" % third)
    rec, fld, where = third[0]
    pc = prog.fn("parse_clkoff_entry", "src/emu/system.c")
    nums = [fl["name"] for fl in prog.records[rec]["fields"] if fl["type"] in ("double", "float", "int64_t", "long")]
    ctx.need(len(nums) >= 3, "struct %s has %d numeric fields" % (rec, len(nums)))
    from rules.strutil import FOLD
    ex = absint.Explorer(prog, effects=eff, loop_bound=4, summaries=dict(FOLD))
    store = {DBG: INT(0), ("L1", F("loom", "next")): NULL, ("L1", F("loom", "hostname")): ("str", "h"),
             ("L1", F("loom", "clock_offset")): INT(0), ("L1", F("loom", "id")): ("str", "loom.h"),
             ("ENT", F(rec, "name")): ("str", "h")}
    for k, nm in enumerate(nums):
        store[("ENT", F(rec, nm))] = INT(1000 + k)
    outs = [o for o in ex.run(pc, [PTR("L1"), PTR("ENT")], store) if o.kind == "ret" and o.ret == INT(0)]
    ctx.need(outs, "parse_clkoff_entry: no successful path")
    got = {o.store.get(("L1", F("loom", "clock_offset"))) for o in outs}
    used = [nm for k, nm in enumerate(nums) if got == {INT(1000 + k)}]
    ctx.need(len(used) == 1, "cannot tell which field of struct %s becomes the loom's offset (%s)" % (rec, got))
    ctx.check(used[0] == fld, rule, "clock-table:third-column-is-the-offset", where,
              "the table parser stores the third column (offset_median in the table ovnisync writes) into %s.%s, but "
              "the loom's clock offset is taken from %s.%s: every stream of the host is shifted by another column's value" %
              (rec, fld, rec, used[0]))


def check_cpu_update_failure_propagates(ctx, rule):
    """An oversubscribed physical CPU is refused by cpu_update; that refusal must reach main's exit status from
    every place that recounts (add / remove / migrate, the life-cycle and affinity handlers)."""
    prog = ctx.prog
    main = prog.fn("main", "src/emu/ovniemu.c")
    cu = prog.fn("cpu_update", "src/emu/cpu.c")
    ef = errflow.ErrFlow(prog, main)
    drops = ef.propagates(cu)
    n_ = 0
    for (g, c, where, ok, detail) in ef.checked_sites:
        n_ += 1
        ctx.check(ok, rule, "recount-failure:%s->%s" % (g, c), where,
                  "the failure of %s (an oversubscribed physical CPU, a refused channel write) is dropped in %s: %s; the "
                  "trace is accepted with two running threads on one CPU" % (g, c, detail))
    for (c, n, detail) in drops:
        if n is None:
            ctx.fail(rule, "recount-failure:%s:unreached" % c.name, c.loc(), detail)
    ctx.need(n_ >= 12, "only %d call sites between cpu_update and main" % n_)


def check_thread_tracks_select_own_state(ctx, rule):
    """Each thread's tracking multiplexers select on that thread's own state channel: model_thread_connect is
    evaluated on a system of three threads."""
    prog = ctx.prog
    eff = effects.Effects(prog)
    mtc = prog.fn("model_thread_connect", "src/emu/model_thread.c")
    calls = []

    def s_tct(ex_, st, a, f, e):
        calls.append(tuple(a))
        return [(INT(0), {})]
    ex = absint.Explorer(prog, effects=eff, loop_bound=6,
                         summaries={"track_connect_thread": s_tct, "model_pvt_connect_thread": lambda ex_, st, a, f, e: [(INT(0), {})],
                                    "extend_get": lambda ex_, st, a, f, e: [(PTR("MTH:%s" % (a[0][1] if a[0][0] == "ptr" else "?")), {})]})
    store = {DBG: INT(0), ("EMU", F("emu", "system") + F("system", "threads")): PTR("T0"),
             ("SPEC", F("model_thread_spec", "model")): PTR("MODEL"), ("MODEL", F("model_spec", "model")): INT(ord("V")),
             ("SPEC", F("model_thread_spec", "chan")): PTR("CSPEC"), ("CSPEC", F("model_chan_spec", "nch")): INT(3)}
    for i in range(3):
        t = "T%d" % i
        store[(t, F("thread", "gnext"))] = PTR("T%d" % (i + 1)) if i < 2 else NULL
        m = "MTH:%s" % t
        store[(m, F("model_thread", "track"))] = PTR("TRK:%s" % t, (0,))
        store[(m, F("model_thread", "ch"))] = PTR("CH:%s" % t, (0,))
        store[(m, F("model_thread", "spec"))] = PTR("SPEC")
    outs = [o for o in ex.run(mtc, [PTR("EMU"), PTR("SPEC")], store) if o.kind == "ret" and o.ret == INT(0)]
    ctx.need(outs and len(calls) >= 3, "model_thread_connect: %d successful paths, %d track connections" % (len(outs), len(calls)))
    STATE = prog.enum_val("TH_CHAN_STATE")
    bad = []
    seen = set()
    for a in calls:
        trk = a[0]
        t = str(trk[1])[4:] if trk[0] == "ptr" and str(trk[1]).startswith("TRK:") else None
        seen.add(t)
        want = PTR(t, F("thread", "chan") + (STATE,)) if t else None
        if t is None or a[2] != want or a[1] != PTR("CH:%s" % t, (0,)):
            bad.append("tracks of %s: channels %s, select %s" % (t, a[1], a[2]))
    ctx.check(not bad and seen == {"T0", "T1", "T2"}, rule, "model_thread_connect:select-is-own-state", mtc.loc(),
              "with three threads the tracking multiplexers are connected as %s; each thread's tracks must take that "
              "thread's channels and select on that thread's own state channel, otherwise the rows of the other threads "
              "follow the first thread's state" % ("; ".join(bad) or sorted(seen)))


def check_final_thread_dir(ctx, rule):
    """With relocation every thread is moved into its own final directory <final procdir>/thread.<tid>: two
    threads of a process must not share one (the second would overwrite a stream already marked finished)."""
    prog = ctx.prog
    eff = effects.Effects(prog)
    ti = prog.fn("ovni_thread_init", OV)

    def strval2(st, a):
        if a[0] == "str":
            return a[1]
        if a[0] == "int":
            return a[1]
        if a[0] == "ptr":
            path = a[2][:-1] if a[2] and a[2][-1] == 0 else a[2]
            v = st.store.get((a[1], path))
            if v and v[0] == "str":
                return v[1]
        return None

    def s_snprintf2(ex_, st, args, f, e):
        fmt = strval2(st, args[2]) if len(args) > 2 else None
        vals = [strval2(st, a) for a in args[3:]]
        d = args[0]
        if fmt is None or any(v is None for v in vals) or d[0] != "ptr":
            return None
        try:
            out = fmt % tuple(vals)
        except Exception:
            return None
        path = d[2][:-1] if d[2] and d[2][-1] == 0 else d[2]
        return [(INT(len(out)), {(d[1], path): ("str", out)})]
    made = []

    def s_mk(ex_, st, a, f, e):
        made.append(strval2(st, a[0]))
        return [(INT(0), {})]
    ex = absint.Explorer(prog, effects=eff, loop_bound=2, max_depth=5, max_paths=60000,
                         summaries={"snprintf": s_snprintf2, "__builtin___snprintf_chk": s_snprintf2,
                                    "open": lambda ex_, st, a, f, e: [(INT(9), {})],
                                    "json_serialize_to_file_pretty": lambda ex_, st, a, f, e: [(INT(0), {})],
                                    "malloc": lambda ex_, st, a, f, e: [(PTR("EVB", (0,)), {})],
                                    "write": lambda ex_, st, a, f, e: [(a[2] if len(a) > 2 else TOP, {})],
                                    "mkdir": s_mk, "mkpath": s_mk})
    store = {(RP, F("ovni_rproc", "procdir")): ("str", "TMP"), (RP, F("ovni_rproc", "procdir_final")): ("str", "FINAL"),
             (RP, F("ovni_rproc", "move_to_final")): INT(1), (RP, F("ovni_rproc", "pid")): INT(77),
             (RP, F("ovni_rproc", "st")): INT(prog.enum_val("ST_READY")),
             (RT, F("ovni_rthread", "ready")): INT(0), (RT, F("ovni_rthread", "finished")): INT(0),
             (RT, F("ovni_rthread", "meta")): PTR("META")}
    outs = [o for o in ex.run(ti, [INT(5)], store) if o.kind in ("ret", "exit")]
    ctx.need(outs, "ovni_thread_init: no returning path")
    fin = {strval2_store(o.store, (RT, F("ovni_rthread", "thdir_final"))) for o in outs}
    tmp = {strval2_store(o.store, (RT, F("ovni_rthread", "thdir"))) for o in outs}
    ctx.need(None not in fin and None not in tmp, "cannot resolve the thread directories (%s, %s)" % (fin, tmp))
    ctx.check(fin == {"FINAL/thread.5"} and tmp == {"TMP/thread.5"}, rule, "thread-dirs:named-after-the-tid", ti.loc(),
              "thread 5 of process 77 gets the temporary directory %s and the final directory %s; both must be "
              "<procdir>/thread.5, otherwise the threads of a process are relocated over each other" % (sorted(tmp), sorted(fin)))


def check_thread_files_private(ctx, rule):
    """Every file a tracing thread creates or writes lives under its own directory <procdir>/thread.<tid>/: a path
    shared by the threads of a process (a common temporary name, for instance) lets concurrent threads overwrite
    each other's files.  The paths reaching open / fopen / the JSON serialiser / rename from ovni_thread_init and
    ovni_attr_flush are evaluated for thread 5 of process 77."""
    prog = ctx.prog
    eff = effects.Effects(prog)

    def strval2(st, a):
        if a[0] == "str":
            return a[1]
        if a[0] == "int":
            return a[1]
        if a[0] == "ptr":
            path = a[2][:-1] if a[2] and a[2][-1] == 0 else a[2]
            v = st.store.get((a[1], path))
            if v and v[0] == "str":
                return v[1]
        return None

    def s_snprintf2(ex_, st, args, f, e):
        fmt = strval2(st, args[2]) if len(args) > 2 else None
        vals = [strval2(st, a) for a in args[3:]]
        d = args[0]
        if fmt is None or any(v is None for v in vals) or d[0] != "ptr":
            return None
        try:
            out = fmt % tuple(vals)
        except Exception:
            return None
        path = d[2][:-1] if d[2] and d[2][-1] == 0 else d[2]
        return [(INT(len(out)), {(d[1], path): ("str", out)})]
    paths = []

    def rec(which, ret):
        def s_(ex_, st, a, f, e):
            for k in which:
                if k < len(a):
                    paths.append((strval2(st, a[k]), f.loc(e)))
            return [(ret, {})]
        return s_
    sums = {"snprintf": s_snprintf2, "__builtin___snprintf_chk": s_snprintf2,
            "open": rec((0,), INT(9)), "fopen": rec((0,), PTR("FILE")), "creat": rec((0,), INT(9)),
            "json_serialize_to_file_pretty": rec((1,), INT(0)), "rename": rec((0, 1), INT(0)),
            "malloc": lambda ex_, st, a, f, e: [(PTR("EVB", (0,)), {})],
            "write": lambda ex_, st, a, f, e: [(a[2] if len(a) > 2 else TOP, {})],
            "mkdir": lambda ex_, st, a, f, e: [(INT(0), {})], "mkpath": lambda ex_, st, a, f, e: [(INT(0), {})]}
    store = {(RP, F("ovni_rproc", "procdir")): ("str", "DIR"), (RP, F("ovni_rproc", "procdir_final")): ("str", "DIR"),
             (RP, F("ovni_rproc", "move_to_final")): INT(0), (RP, F("ovni_rproc", "pid")): INT(77),
             (RP, F("ovni_rproc", "st")): INT(prog.enum_val("ST_READY")),
             (RT, F("ovni_rthread", "ready")): INT(0), (RT, F("ovni_rthread", "finished")): INT(0),
             (RT, F("ovni_rthread", "meta")): PTR("META"), (RT, F("ovni_rthread", "tid")): INT(5)}
    ex = absint.Explorer(prog, effects=eff, loop_bound=2, max_depth=5, max_paths=60000, summaries=sums)
    o1 = [o for o in ex.run(prog.fn("ovni_thread_init", OV), [INT(5)], store) if o.kind in ("ret", "exit")]
    st2 = dict(store)
    st2[(RT, F("ovni_rthread", "ready"))] = INT(1)
    o2 = [o for o in ex.run(prog.fn("ovni_attr_flush", OV), [], st2) if o.kind in ("ret", "exit")]
    ctx.need(o1 and o2 and len(paths) >= 2, "cannot evaluate the files a thread writes (%d paths)" % len(paths))
    ctx.need(all(p is not None for p, w in paths), "cannot resolve a path a thread writes: %s" % [w for p, w in paths if p is None])
    for p, w in sorted(set(paths)):
        ctx.check("/thread.5/" in p + "/", rule, "thread-file:%s" % p, w,
                  "thread 5 of process 77 writes %s, which is not under its own directory DIR/thread.5/: all threads of the "
                  "process share that path and overwrite each other's file when they run concurrently" % p)


def strval2_store(store, key):
    v = store.get(key)
    return v[1] if v and v[0] == "str" else None


def check_affinity_value_is_gindex(ctx, rule):
    """The thread's CPU-affinity row prints the CPU's global index (+1 through PRV_NEXT) and the PCF labels are
    keyed by global index + 1 (cpu_add_to_pcf_type): every function that binds a thread to a CPU must publish
    cpu->gindex, not another number of the CPU."""
    prog = ctx.prog
    eff = effects.Effects(prog)
    TH = "src/emu/thread.c"
    CPUCH = prog.enum_val("TH_CHAN_CPU")
    n_ = 0
    for name, has_cpu_before in (("thread_set_cpu", False), ("thread_migrate_cpu", True)):
        fn = prog.fn(name, TH)
        for active in (1, 0):
            ex = absint.Explorer(prog, effects=eff, inline=lambda n, d: n == "cpu_get_phyid",
                                 summaries={"chan_set": lambda ex_, st, a, f, e: [(INT(0), {})],
                                            "value_int64": lambda ex_, st, a, f, e: [(("val", "i64", a[0]), {})],
                                            "value_null": lambda ex_, st, a, f, e: [(VNULL, {})]})
            store = {DBG: INT(0), ("TH", F("thread", "cpu")): PTR("OLD") if has_cpu_before else NULL,
                     ("TH", F("thread", "tid")): INT(7), ("TH", F("thread", "gindex")): INT(0),
                     ("TH", F("thread", "is_active")): INT(active), ("TH", F("thread", "is_running")): INT(active),
                     ("CPU", F("cpu", "gindex")): INT(3), ("CPU", F("cpu", "phyid")): INT(9), ("CPU", F("cpu", "index")): INT(5)}
            outs = [o for o in ex.run(fn, [PTR("TH"), PTR("CPU")], store) if o.kind == "ret" and o.ret == INT(0)]
            n_ += 1
            want = (PTR("TH", F("thread", "chan") + (CPUCH,)), VI(3))
            per_path = [[tuple(ev[2][:2]) for ev in o.events if ev[0] == "call" and ev[1] == "chan_set"] for o in outs]
            ctx.check(bool(outs) and all(pp == [want] for pp in per_path), rule,
                      "%s:publishes-gindex%s" % (name, "" if active else ":thread-not-active"), fn.loc(),
                      "%s (thread %s) on a CPU with global index 3, logical index 5 and physical id 9 writes %s on its "
                      "accepting paths; the affinity channel must receive the global index 3 on every one of them (the value "
                      "labelled in the .pcf is gindex + 1; a paused thread that is moved must show its new CPU too)" %
                      (name, "active" if active else "paused", [[(str(a), str(b)) for a, b in pp] for pp in per_path]))
    lab = prog.fn("cpu_add_to_pcf_type", "src/emu/cpu.c")
    got = []

    def s_pv(ex_, st, a, f, e):
        got.append(a[1])
        return [(PTR("PV"), {})]
    ex = absint.Explorer(prog, effects=eff, summaries={"pcf_add_value": s_pv})
    ex.run(lab, [PTR("CPU"), PTR("TYPE")], {("CPU", F("cpu", "gindex")): INT(3), ("CPU", F("cpu", "phyid")): INT(9)})
    ctx.check(got == [INT(4)], rule, "cpu_add_to_pcf_type:label-key-is-gindex+1", lab.loc(),
              "the affinity label of the CPU with global index 3 is keyed %s, expected 4" % [str(x) for x in got])
    ctx.need(n_ == 4, "affinity: %d cases" % n_)


def check_version_decimal(ctx, rule):
    """Version components are decimal numbers: the conversion in version_parse uses base 10 (base 0 would read 012
    as octal and accept 0x4)."""
    prog = ctx.prog
    vp = [g for g in prog.functions.values() if g.name == "version_parse"]
    ctx.need(vp, "version_parse not found")
    f = vp[0]
    n_ = 0
    for i in f.calls():
        n = f.nodes[i]
        if n.get("callee") in ("strtol", "strtoul", "strtoll", "strtoull", "strtoimax"):
            n_ += 1
            b = f.val(n["args"][2]) if len(n["args"]) > 2 else None
            ctx.check(b == 10, rule, "version_parse:%s:base-10" % n["callee"], f.loc(i),
                      "version_parse converts the components with base %s; with base 0 a minor written 012 is octal 10 and "
                      "0x4 is accepted, so malformed or too-new versions pass the gate" % b)
        if n.get("callee") in ("atoi", "atol", "sscanf", "__isoc99_sscanf"):
            n_ += 1
            ctx.ok(rule, "version_parse:%s" % n["callee"], f.loc(i))
    ctx.need(n_ >= 1, "version_parse: no numeric conversion found")


def check_cpus_sorted_always(ctx, rule):
    """The CPUs of a loom are ordered by physical id whether or not the loom has rank information: in loom_sort
    some call of the by_phyid comparator (HASH_SORT expands to a merge sort that calls it) is executed under
    both truth values of rank_enabled."""
    prog = ctx.prog
    ls = prog.fn("loom_sort", "src/emu/loom.c")
    sites = [i for i in ls.calls("by_phyid")]
    ctx.need(sites, "loom_sort does not use by_phyid")
    truths = {ls.guard_truth(i, "rank_enabled") for i in sites}
    ctx.need(None not in truths, "loom_sort: a test of rank_enabled around the CPU sort is too complex to classify")
    good = "both" in truths or {True, False} <= truths
    ctx.check(good, rule, "loom_sort:cpus-by-phyid:whatever-rank_enabled", ls.loc(sites[0]),
              "the CPUs of a loom are sorted by physical id only when rank_enabled is %s: in the other case the CPU rows "
              "depend on which stream declared which CPU first" % sorted(map(str, truths)))


def check_ring_helpers(ctx, rule):
    """ovnisort's ring helpers on concrete rings of 4 slots, wrapped and not: ring_check accepts equal adjacent
    clocks (a stable sort leaves them) and refuses only a decreasing pair; rebuild_ring walks from `start` to the
    tail with wrap-around inside [0, size) and stores consecutive events."""
    prog = ctx.prog
    eff = effects.Effects(prog)
    SO = "src/emu/ovnisort.c"
    rc, rb = prog.fn("ring_check", SO), prog.fn("rebuild_ring", SO)
    HDR = F("ovni_ev", "header")
    CLK = HDR + F("ovni_ev_header", "clock")
    FLG = HDR + F("ovni_ev_header", "flags")
    SIZE = 4
    n_ = 0
    for start, clocks in ((0, (5, 5, 7)), (0, (5, 7, 7)), (2, (3, 3)), (3, (4, 4, 9)), (0, (7, 5)), (3, (9, 4)), (1, (6,)), (2, ())):
        store = {DBG: INT(0), ("RING", F("ring", "ev")): PTR("RA", (0,)), ("RING", F("ring", "size")): INT(SIZE),
                 ("RING", F("ring", "head")): INT(start), ("RING", F("ring", "tail")): INT((start + len(clocks)) % SIZE)}
        for j, c in enumerate(clocks):
            store[("RA", ((start + j) % SIZE,))] = PTR("E%d" % j)
            store[("E%d" % j, CLK)] = INT(c)
        ex = absint.Explorer(prog, effects=eff, loop_bound=SIZE + 3)
        outs = ex.run(rc, [PTR("RING"), INT(start)], store)
        sorted_ = all(a <= b for a, b in zip(clocks, clocks[1:]))
        dies = [o for o in outs if o.kind == "die"]
        n_ += 1
        good = bool(outs) and (not dies if sorted_ else len(dies) == len(outs))
        ctx.check(good, rule, "ring_check:start=%d:clocks=%s" % (start, ",".join(map(str, clocks)) or "none"), rc.loc(),
                  "on a ring of %d slots holding clocks %s from slot %d, ring_check %s; it must abort exactly when a clock is "
                  "lower than the one before (equal clocks are sorted)" %
                  (SIZE, list(clocks), start, "aborts" if dies else "returns"))
    EVSZ = prog.records["ovni_ev_header"]["size"]
    for start, count in ((0, 3), (2, 3), (3, 2), (1, 0), (3, 3)):
        tail = (start + count) % SIZE
        store = {DBG: INT(0), ("RING", F("ring", "ev")): PTR("RA", (0,)), ("RING", F("ring", "size")): INT(SIZE),
                 ("RING", F("ring", "head")): INT(start), ("RING", F("ring", "tail")): INT(tail)}
        for k in range(SIZE):
            store[("RA", (k,))] = PTR("OLD", (k,))
        for k in range(count + 1):
            store[("SBUF", (EVSZ * (2 + k),) + FLG)] = INT(0)
        ex = absint.Explorer(prog, effects=eff, loop_bound=SIZE + 3,
                             inline=lambda n, d: n in ("ovni_ev_size", "ovni_payload_size", "get_jumbo_payload_size"))
        outs = ex.run(rb, [PTR("RING"), INT(start), PTR("SBUF", (EVSZ * 2,)), PTR("SBUF", (EVSZ * (2 + count),))], store)
        rets = [o for o in outs if o.kind in ("ret", "exit")]
        bad = []
        if not rets or len(rets) != len(outs):
            bad.append("aborts")
        for o in rets:
            for j in range(count):
                if o.store.get(("RA", ((start + j) % SIZE,))) != PTR("SBUF", (EVSZ * (2 + j),)):
                    bad.append("slot %d does not get event %d" % ((start + j) % SIZE, j))
            for k in range(SIZE):
                if k not in [(start + j) % SIZE for j in range(count)] and o.store.get(("RA", (k,))) != PTR("OLD", (k,)):
                    bad.append("slot %d outside [start, tail) is overwritten" % k)
            out = sorted(k[1][0] for k in o.store if k[0] == "RA" and k[1] and isinstance(k[1][0], int) and not 0 <= k[1][0] < SIZE)
            if out:
                bad.append("slot %s outside the ring is written" % out)
        n_ += 1
        ctx.check(not bad, rule, "rebuild_ring:start=%d:count=%d" % (start, count), rb.loc(),
                  "rebuilding %d slot(s) of a ring of %d from slot %d: %s" % (count, SIZE, start, "; ".join(sorted(set(bad)))))
    ctx.need(n_ >= 12, "ring helpers: %d cases" % n_)


def check_print_arg_width(ctx, rule):
    """ovnidump substitutes the whole argument: for every numeric argument type the value handed to the formatter
    is built from all the bytes of the argument (little endian), not from its first byte."""
    prog = ctx.prog
    eff = effects.Effects(prog)
    ES = "src/emu/ev_spec.c"
    pa = prog.fn("print_arg", ES)
    types = [(n, v) for n, v in prog.enums["ev_arg_type"]["enumerators"] if re.match(r"^[UI](8|16|32|64)$", n)]
    ctx.need(len(types) == 8, "enum ev_arg_type has %d numeric types" % len(types))
    from rules.strutil import byte_store
    OFF = 3
    data = bytes([0xEE] * OFF + [0x81, 0x02, 0x03, 0x04, 0x05, 0x06, 0x07, 0x08] + [0xEE] * 4)
    for name, tv in types:
        nb = int(name[1:]) // 8
        got = []

        def s_memcpy(ex_, st, a, f, e):
            d, s_, n = a[0], a[1], a[2]
            if d[0] != "ptr" or s_[0] != "ptr" or n[0] != "int" or not s_[2] or not isinstance(s_[2][-1], int):
                return None
            v = 0
            for k in range(n[1]):
                b = st.store.get((s_[1], s_[2][:-1] + (s_[2][-1] + k,)))
                if b is None or b[0] != "int":
                    return None
                v |= (b[1] & 0xff) << (8 * k)
            return [(d, {(d[1], d[2]): INT(v)})]

        def s_snprintf(ex_, st, a, f, e):
            # snprintf(out, len, fmt, data)  /  __builtin___snprintf_chk(out, len, flag, objsize, fmt, data)
            got.append(a[-1])
            return [(INT(3), {})]
        ex = absint.Explorer(prog, effects=eff, loop_bound=12,
                             summaries={"memcpy": s_memcpy, "__builtin___memcpy_chk": s_memcpy, "__builtin_memcpy": s_memcpy,
                                        "snprintf": s_snprintf, "__builtin___snprintf_chk": s_snprintf})
        store = {DBG: INT(0), ("ARG", F("ev_arg", "type")): INT(tv), ("ARG", F("ev_arg", "offset")): INT(OFF),
                 ("ARG", F("ev_arg", "size")): INT(nb), ("CUR", F("cursor", "len")): INT(100), ("CUR", F("cursor", "out")): PTR("OUT", (0,)),
                 ("EV", F("emu_ev", "payload")): PTR("PL", (0,))}
        store.update(byte_store("PL", data))
        outs = [o for o in ex.run(pa, [PTR("ARG"), ("str", "%d"), PTR("CUR"), PTR("EV")], store) if o.kind == "ret" and o.ret == INT(0)]
        want = int.from_bytes(data[OFF:OFF + nb], "little")
        vals = {(g[1] & ((1 << (8 * nb)) - 1)) if g[0] == "int" else None for g in got}
        ctx.check(bool(outs) and vals == {want}, rule, "print_arg:%s:whole-argument" % name, pa.loc(),
                  "for an argument of type %s whose bytes are %s the value formatted is %s, expected %#x (all %d bytes, "
                  "little endian): ovnidump would print a truncated value" %
                  (name, data[OFF:OFF + nb].hex(), sorted("%#x" % v if v is not None else "?" for v in vals), want, nb))


def check_unregistered_model_byte(ctx, rule):
    """An event whose model byte no model registered is refused without touching the (NULL) model spec: model_event
    and model_event_print on such an event return an error and dereference nothing through NULL."""
    prog = ctx.prog
    eff = effects.Effects(prog)
    MC = "src/emu/model.c"
    for name in ("model_event", "model_event_print"):
        fn = prog.fn(name, MC)
        reached = []

        def s_find(ex_, st, a, f, e):
            reached.append(a[0])
            return [(NULL, {})]
        ex = absint.Explorer(prog, effects=eff, loop_bound=3, summaries={"model_evspec_find": s_find})
        IDX = 0x5A
        store = {DBG: INT(0), ("MODEL", F("model", "registered") + (IDX,)): INT(0), ("MODEL", F("model", "spec") + (IDX,)): NULL,
                 ("MODEL", F("model", "enabled") + (IDX,)): INT(0), ("EMU", F("emu", "ev")): PTR("EV"),
                 ("EV", F("emu_ev", "m")): INT(IDX), ("EV", F("emu_ev", "mcv")): ("str", "Zab")}
        args = [PTR("MODEL"), PTR("EMU"), INT(IDX)] if name == "model_event" else [PTR("MODEL"), PTR("EV"), PTR("BUF", (0,)), INT(100)]
        outs = [o for o in ex.run(fn, args, store) if o.kind == "ret"]
        nd = [d for d in ex.null_derefs]
        ctx.check(bool(outs) and all(o.ret != INT(0) for o in outs) and not nd and not any(r == NULL or r[0] != "ptr" for r in reached),
                  rule, "%s:unregistered-model-byte" % name, fn.loc(),
                  "%s on an event of model byte 0x5A, which no model registered (spec is NULL): %s%s" %
                  (name, "returns %s" % sorted({str(o.ret) for o in outs}),
                   ("; dereferences the NULL spec at %s (%s): the tool crashes instead of refusing the event" %
                    (nd[0][2], nd[0][3])) if nd else ""))

"""C20 — breakdown rows (wiring clauses, plus a bounded evaluation of the incremental sort).

R20.1 wiring of the breakdown in nOS-V and Nanos6 (sibling agreement): per physical CPU one sort input fed
      by that CPU's tri channel, output i on row i, mux0/mux1 selects and inputs, defaults
R20.2 cmp_int64 is ascending
R20.3 sort_cb_input: stores the new value before re-sorting, writes output i from sorted[i], skips
      unchanged outputs
R20.4 sort_replace evaluated on every sorted array of length 1..4 over {0..3}: the result is the sorted
      multiset with the old value replaced.  (Arrays of unbounded length are not decided.)
"""
import itertools

from ovsa import absint, effects, models
from ovsa.absint import INT, NULL, PTR, TOP

SORTC = "src/emu/sort.c"


def F(rec, field):
    return ((rec, field),)


def run(ctx):
    prog = ctx.prog
    eff = effects.Effects(prog)
    E = prog.enum_val
    ctx.rule("R20.1", "in both task models: select_tr picks the task type exactly when the subsystem is the task "
             "body and a type is present, the subsystem otherwise, nothing for a null subsystem; select_idle picks "
             "the tr channel exactly when progressing and the idle channel otherwise; connect_cpu wires mux0 = "
             "(select subsystem; inputs subsystem, task type; default unknown subsystem) and mux1 = (select idle; "
             "inputs tr, idle); breakdown_connect feeds sort input i with the i-th physical CPU's tri and registers "
             "output i on row i, skipping virtual CPUs; the trace declares ncpus - nlooms rows")
    ctx.rule("R20.2", "cmp_int64 orders ascending")
    ctx.rule("R20.3", "sort_cb_input stores the new value in values[index] before the array is re-sorted, does "
             "nothing when the value did not change, and writes output i from sorted[i] only when it differs "
             "from the channel's current value")
    ctx.rule("R20.4", "sort_replace on every sorted array of 1..4 values in {0,1,2,3}, every old value present and "
             "every different new value in {0..3}: the array ends as the sorted multiset with one old replaced by new")
    VT = {n: E(n) for n in ("VALUE_NULL", "VALUE_INT64")}

    for model, mchar in (("nosv", "V"), ("nanos6", "6")):
        file = "src/emu/%s/breakdown.c" % model
        enums = models.file_enumerators(prog, "src/emu/%s/" % model)
        ST_BODY, ST_PROG, ST_UNK = enums["ST_TASK_BODY"], enums["ST_PROGRESSING"], enums["ST_UNKNOWN_SS"]
        # ---- select_tr ------------------------------------------------------------
        stf = prog.fn("select_tr", file)
        for (ssval, tt_present, ss_present) in ((ST_BODY, 1, 1), (ST_BODY, 0, 1), (ST_BODY + 1, 1, 1), (ST_BODY + 1, 0, 1),
                                                (None, 1, 0), (None, 0, 0)):
            def s_read(ex_, st, args, f, e, tt=tt_present, ssp=ss_present):
                ch = args[0]
                out = args[1]
                if out[0] != "ptr":
                    return [(INT(0), {})]
                isnull = (ch == PTR("TTCH") and not tt) or (ch == PTR("SSCH") and not ssp)
                return [(INT(0), {(out[1], out[2] + F("value", "type")): INT(VT["VALUE_NULL"] if isnull else VT["VALUE_INT64"])})]
            ex = absint.Explorer(prog, effects=eff, summaries={
                "chan_read": s_read,
                "mux_get_input": lambda ex_, st, a, f, e: [(PTR("IN", (a[1][1],)) if a[1][0] == "int" else TOP, {})]})
            val = {F("value", "type"): INT(VT["VALUE_INT64"] if ssval is not None else VT["VALUE_NULL"])}
            if ssval is not None:
                val[F("value", "i")] = INT(ssval)
            store = {("IN", (0,) + F("mux_input", "chan")): PTR("SSCH"), ("IN", (1,) + F("mux_input", "chan")): PTR("TTCH"),
                     ("OUT", ()): ("val", "unset"), (("G", "src/common.c", "is_debug_enabled"), ()): INT(0)}
            outs = [o for o in ex.run(stf, [PTR("MUX"), val, PTR("OUT")], store) if o.kind == "ret" and o.ret == INT(0)]
            if ssval is None:
                want = NULL
            elif ssval == ST_BODY and tt_present:
                want = PTR("IN", (1,))
            else:
                want = PTR("IN", (0,))
            got = {o.store.get(("OUT", ())) for o in outs}
            inst = "%s:select_tr:ss=%s:type-%s" % (model, "null" if ssval is None else ("body" if ssval == ST_BODY else "other"),
                                                 "present" if tt_present else "absent")
            ctx.check(bool(outs) and got == {want}, "R20.1", inst, stf.loc(),
                      "selects %s, expected %s" % (sorted(map(str, got)), want))
        # ---- select_idle ------------------------------------------------------------
        sif = prog.fn("select_idle", file)
        for (v, want) in ((ST_PROG, 0), (ST_PROG + 1, 1), (None, 1)):
            ex = absint.Explorer(prog, effects=eff, summaries={
                "mux_get_input": lambda ex_, st, a, f, e: [(PTR("IN", (a[1][1],)) if a[1][0] == "int" else TOP, {})],
                "value_str": lambda ex_, st, a, f, e: [(("str", "v"), {})]})
            val = {F("value", "type"): INT(VT["VALUE_INT64"] if v is not None else VT["VALUE_NULL"])}
            if v is not None:
                val[F("value", "i")] = INT(v)
            outs = [o for o in ex.run(sif, [PTR("MUX"), val, PTR("OUT")],
                                      {("OUT", ()): ("val", "unset"), (("G", "src/common.c", "is_debug_enabled"), ()): INT(0)})
                    if o.kind == "ret" and o.ret == INT(0)]
            got = {o.store.get(("OUT", ())) for o in outs}
            inst = "%s:select_idle:%s" % (model, "progressing" if v == ST_PROG else ("null" if v is None else "not-progressing"))
            ctx.check(bool(outs) and got == {PTR("IN", (want,))}, "R20.1", inst, sif.loc(),
                      "selects %s, expected input %d (%s)" % (sorted(map(str, got)), want, "tr" if want == 0 else "idle"))
        # ---- connect_cpu --------------------------------------------------------------
        cc = prog.fn("connect_cpu", file)
        calls = []

        def mk(name):
            def s(ex_, st, args, f, e):
                calls.append((name, tuple(args)))
                return [(INT(0), {})]
            return s
        ex = absint.Explorer(prog, effects=eff, summaries={
            "mux_init": mk("init"), "mux_set_input": mk("input"), "mux_set_default": mk("default"),
            "value_int64": lambda ex_, st, a, f, e: [(("val", "i64", a[0]), {})]},
            field_values={("model_cpu", "track"): PTR("TRK", (0,))})
        outs = [o for o in ex.run(cc, [PTR("BAY"), PTR("MCPU")], {}) if o.kind == "ret" and o.ret == INT(0)]
        ch = lambda name: PTR("TRK", (enums[name],) + F("track", "ch"))
        rec_cpu = "%s_cpu" % model
        brec = [n["rec"] for n in cc.nodes if n["k"] == "MemberExpr" and n["field"] == "mux0"][0]
        B = F(rec_cpu, "breakdown")
        tr = PTR("MCPU", B + F(brec, "tr"))
        tri = PTR("MCPU", B + F(brec, "tri"))
        m0 = PTR("MCPU", B + F(brec, "mux0"))
        m1 = PTR("MCPU", B + F(brec, "mux1"))
        want = [("init", (m0, PTR("BAY"), ch("CH_SUBSYSTEM"), tr, ("fn", "select_tr"), INT(2))),
                ("input", (m0, INT(0), ch("CH_SUBSYSTEM"))), ("input", (m0, INT(1), ch("CH_TYPE"))),
                ("default", (m0, ("val", "i64", INT(ST_UNK)))),
                ("init", (m1, PTR("BAY"), ch("CH_IDLE"), tri, ("fn", "select_idle"), INT(2))),
                ("input", (m1, INT(0), tr)), ("input", (m1, INT(1), ch("CH_IDLE")))]
        missing = [w for w in want if w not in calls]
        extra = [c for c in calls if c not in want]
        ctx.check(bool(outs) and not missing and not extra, "R20.1", "%s:connect_cpu:wiring" % model, cc.loc(),
                  "missing %s; unexpected %s" % ([(w[0], [str(a) for a in w[1]]) for w in missing][:3],
                                                  [(c[0], [str(a) for a in c[1]]) for c in extra][:3]))
        # ---- breakdown_connect -----------------------------------------------------------
        bc = prog.fn("model_%s_breakdown_connect" % model, file)
        calls = []
        ex = absint.Explorer(prog, effects=eff, loop_bound=8, summaries={
            "connect_cpu": mk("connect"), "sort_set_input": mk("sortin"), "prv_register": mk("prv"),
            "sort_get_output": lambda ex_, st, a, f, e: [(PTR("SORTOUT", (a[1][1],)) if a[1][0] == "int" else TOP, {})],
            "pvt_get_prv": lambda ex_, st, a, f, e: [(PTR("PRV"), {})],
            "extend_get": lambda ex_, st, a, f, e: [(PTR("EXT:%s" % (a[0][1] if a[0][0] == "ptr" else "?")), {})]})
        store = {("EMU", F("emu", "args") + F("emu_args", "breakdown")): INT(1),
                 ("EMU", F("emu", "system") + F("system", "cpus")): PTR("C0"),
                 ("C0", F("cpu", "next")): PTR("V0"), ("V0", F("cpu", "next")): PTR("C1"), ("C1", F("cpu", "next")): NULL,
                 ("C0", F("cpu", "is_virtual")): INT(0), ("V0", F("cpu", "is_virtual")): INT(1),
                 ("C1", F("cpu", "is_virtual")): INT(0)}
        outs = [o for o in ex.run(bc, [PTR("EMU")], store) if o.kind == "ret" and o.ret == INT(0)]
        sortin = [c[1] for c in calls if c[0] == "sortin"]
        prv = [c[1] for c in calls if c[0] == "prv"]
        tri_of = lambda c: PTR("EXT:%s" % c, B + F(brec, "tri"))
        good = bool(outs) and [(a[1], a[2]) for a in sortin] == [(INT(0), tri_of("C0")), (INT(1), tri_of("C1"))] and \
            [(a[1], a[4]) for a in prv] == [(INT(0), PTR("SORTOUT", (0,))), (INT(1), PTR("SORTOUT", (1,)))] and \
            all(a[2] == INT(enums.get("PRV_%s_BREAKDOWN" % model.upper(), prog.enumerators.get("PRV_%s_BREAKDOWN" % model.upper())))
                for a in prv)
        ctx.check(good, "R20.1", "%s:breakdown_connect:physical-cpus-to-rows" % model, bc.loc(),
                  "with CPUs (physical, virtual, physical): sort inputs %s, rows %s" %
                  ([(str(a[1]), str(a[2])) for a in sortin], [(str(a[1]), str(a[4])) for a in prv]))
        # ---- rows declared ------------------------------------------------------------------
        bcr = prog.fn("model_%s_breakdown_create" % model, file)
        rows = []
        ex = absint.Explorer(prog, effects=eff, loop_bound=3, summaries={
            "recorder_add_pvt": lambda ex_, st, a, f, e, rows=rows: (rows.append(a[2]), [(PTR("PVT"), {})])[1],
            "sort_init": lambda ex_, st, a, f, e, rows=rows: (rows.append(("sort", a[2])), [(INT(0), {})])[1],
            "extend_get": lambda ex_, st, a, f, e: [(PTR("EXT"), {})],
            "create_cpu": lambda ex_, st, a, f, e: [(INT(0), {})],
            "check_thread_metadata": lambda ex_, st, a, f, e: [(INT(0), {})]})
        ex.run(bcr, [PTR("EMU")], {("EMU", F("emu", "args") + F("emu_args", "breakdown")): INT(1),
                                   ("EMU", F("emu", "system") + F("system", "ncpus")): INT(7),
                                   ("EMU", F("emu", "system") + F("system", "nlooms")): INT(2),
                                   ("EMU", F("emu", "system") + F("system", "cpus")): NULL,
                                   ("EMU", F("emu", "system") + F("system", "threads")): NULL})
        ctx.check(INT(5) in rows and ("sort", INT(5)) in rows, "R20.1", "%s:breakdown_create:rows=ncpus-nlooms" % model,
                  bcr.loc(), "with 7 CPUs in 2 looms the breakdown declares %s rows / sort inputs" % (rows,))

    # ---- R20.2 ---------------------------------------------------------------------------
    ci = prog.fn("cmp_int64", SORTC)
    ex = absint.Explorer(prog, effects=eff)
    # the last six: differences that do not fit in an int (a subtraction narrowed to int changes sign or becomes 0)
    for (a, b) in ((1, 2), (2, 1), (2, 2), (-3, 0), (0, 2 ** 31 + 5), (2 ** 31 + 5, 0), (0, 2 ** 32), (2 ** 32, 0),
                   (-2 ** 62, 2 ** 62), (2 ** 62, -2 ** 62)):
        outs = ex.run(ci, [PTR("A"), PTR("B")], {("A", ()): INT(a), ("B", ()): INT(b)})
        rets = {o.ret for o in outs if o.kind == "ret"}
        want = -1 if a < b else (1 if a > b else 0)
        good = len(rets) == 1 and list(rets)[0][0] == "int" and \
            ((want < 0 and list(rets)[0][1] < 0) or (want > 0 and list(rets)[0][1] > 0) or (want == 0 and list(rets)[0][1] == 0))
        ctx.check(good, "R20.2", "cmp_int64:%d-vs-%d" % (a, b), ci.loc(), "returns %s" % sorted(rets, key=str))

    # ---- R20.3 -----------------------------------------------------------------------------
    sci = prog.fn("sort_cb_input", SORTC)

    def run_cb(values, index, newv, newtype="VALUE_INT64", current=None):
        """values: current inputs (sorted[] = sorted(values)); current: what the output channels hold."""
        n = len(values)
        current = current if current is not None else sorted(values)
        sets = []

        def s_read(ex_, st, args, f, e):
            out = args[1]
            ch = args[0]
            if out[0] != "ptr":
                return [(INT(0), {})]
            if ch == PTR("INCH"):
                upd = {(out[1], out[2] + F("value", "type")): INT(VT[newtype])}
                if newtype == "VALUE_INT64":
                    upd[(out[1], out[2] + F("value", "i"))] = INT(newv)
                return [(INT(0), upd)]
            k = ch[2][0] if ch[0] == "ptr" and ch[1] == "OUTS" else None
            return [(INT(0), {(out[1], out[2]): ("val", "i64", INT(current[k]))})] if k is not None else [(INT(0), {})]

        def s_eq(ex_, st, args, f, e):
            a = st.store.get((args[0][1], args[0][2])) if args[0][0] == "ptr" else None
            b = st.store.get((args[1][1], args[1][2])) if args[1][0] == "ptr" else None
            if a is None or b is None or a[0] != "val" or b[0] != "val":
                return None
            return [(INT(1 if a == b else 0), {})]

        def s_replace(ex_, st, args, f, e):
            # the property of sort_replace itself is R20.4; here it is applied as specified
            arr = [st.store.get(("SORTED", (k,)))[1] for k in range(n)]
            o, nw = args[2][1], args[3][1]
            arr.remove(o)
            arr.append(nw)
            arr.sort()
            return [(TOP, {("SORTED", (k,)): INT(arr[k]) for k in range(n)}), ]
        ex = absint.Explorer(prog, effects=eff, loop_bound=n + 2, summaries={
            "chan_read": s_read, "value_is_equal": s_eq, "sort_replace": s_replace,
            "value_int64": lambda ex_, st, a, f, e: [(("val", "i64", a[0]), {})],
            "chan_set": lambda ex_, st, a, f, e: [(INT(0), {("NSETS", ()): INT(st.store.get(("NSETS", ()), INT(0))[1] + 1),
                                                             ("SETS", (st.store.get(("NSETS", ()), INT(0))[1], 0)): a[0],
                                                             ("SETS", (st.store.get(("NSETS", ()), INT(0))[1], 1)): a[1]})]})
        store = {("INPUT", F("sort_input", "sort")): PTR("SORT"), ("INPUT", F("sort_input", "index")): INT(index),
                 ("SORT", F("sort", "values")): PTR("VALUES", (0,)), ("SORT", F("sort", "sorted")): PTR("SORTED", (0,)),
                 ("SORT", F("sort", "outputs")): PTR("OUTS", (0,)), ("SORT", F("sort", "n")): INT(n),
                 ("SORT", F("sort", "copied")): INT(1), (("G", "src/common.c", "is_debug_enabled"), ()): INT(0)}
        for k, v in enumerate(values):
            store[("VALUES", (k,))] = INT(v)
        for k, v in enumerate(sorted(values)):
            store[("SORTED", (k,))] = INT(v)
        outs = [o for o in ex.run(sci, [PTR("INCH"), PTR("INPUT")], store) if o.kind == "ret" and o.ret == INT(0)]
        allsets = []
        for o in outs:
            k = o.store.get(("NSETS", ()), INT(0))[1]
            allsets.append([(o.store.get(("SETS", (j, 0))), o.store.get(("SETS", (j, 1)))) for j in range(k)])
        # every successful path must agree
        sets = allsets[0] if allsets and all(x == allsets[0] for x in allsets) else [("paths-disagree", allsets)]
        return outs, sets
    import itertools as _it
    cb_cases = [([3, 1, 2], 0, 0), ([3, 1, 2], 1, 5), ([2, 2, 2], 1, 7), ([4], 0, 9), ([1, 5], 1, 1),
                # a value that jumps over equal neighbours: outputs inside the shifted range that keep their value
                ([19, 19, 20, 24], 3, 3), ([24, 19, 20, 19], 0, 3), ([3, 19, 19, 20], 0, 24), ([5, 5, 5, 9], 3, 1),
                ([1, 5, 5, 5], 0, 9), ([2, 4, 4, 6, 6], 4, 0)]
    for n_ in (1, 2, 3):
        for vals_ in _it.product((0, 1, 2), repeat=n_):
            for idx_ in range(n_):
                for nv_ in (0, 1, 2):
                    cb_cases.append((list(vals_), idx_, nv_))
    for (values, index, newv) in cb_cases:
        outs, sets = run_cb(values, index, newv)
        newvals = list(values)
        newvals[index] = newv
        want_sorted = sorted(newvals)
        old_sorted = sorted(values)
        want_sets = [(PTR("OUTS", (k,)), ("val", "i64", INT(want_sorted[k]))) for k in range(len(values))
                     if want_sorted[k] != old_sorted[k]]
        inst = "sort_cb_input:values=%s:input%d->%d" % (values, index, newv)
        if newv == values[index]:
            ctx.check(bool(outs) and not sets, "R20.3", inst, sci.loc(), "an unchanged input rewrites outputs %s" % sets)
            continue
        good = bool(outs) and all(o.store.get(("VALUES", (index,))) == INT(newv) for o in outs) and sets == want_sets
        ctx.check(good, "R20.3", inst, sci.loc(),
                  "values[%d] ends as %s; outputs written %s, expected %s" %
                  (index, [str(o.store.get(("VALUES", (index,)))) for o in outs],
                   [(str(a), str(b)) for a, b in sets], [(str(a), str(b)) for a, b in want_sets]))
    outs, sets = run_cb([3, 1, 2], 1, 0, newtype="VALUE_NULL")
    ctx.check(bool(outs) and all(o.store.get(("VALUES", (1,))) == INT(0) for o in outs), "R20.3",
              "sort_cb_input:null-input-counts-as-0", sci.loc(), "a null input value is not treated as 0")

    # ---- R20.4 ---------------------------------------------------------------------------------
    sr = prog.fn("sort_replace", SORTC)
    ex = absint.Explorer(prog, effects=eff, loop_bound=12)
    ncase = 0
    failures = []
    # thorough tier: arrays of up to 6 values over {0..5}
    maxn, vals = (6, 6) if ctx.tier == "thorough" else (4, 4)
    ex.loop_bound = maxn * 2 + 4
    for n in range(1, maxn + 1):
        for arr in itertools.combinations_with_replacement(range(vals), n):
            for old in sorted(set(arr)):
                for new in range(vals):
                    if new == old:
                        continue
                    ncase += 1
                    store = {("ARR", (k,)): INT(v) for k, v in enumerate(arr)}
                    outs = ex.run(sr, [PTR("ARR", (0,)), INT(n), INT(old), INT(new)], store)
                    live = [o for o in outs if o.kind in ("ret", "exit")]
                    want = sorted(list(arr[:arr.index(old)]) + list(arr[arr.index(old) + 1:]) + [new])
                    bad = None
                    if len(live) != 1 or len(outs) != 1:
                        bad = "%d outcomes (%s)" % (len(outs), [o.kind for o in outs])
                    else:
                        got = [live[0].store.get(("ARR", (k,))) for k in range(n)]
                        if got != [INT(v) for v in want]:
                            bad = "gives %s" % [g[1] if g and g[0] == "int" else g for g in got]
                        extra = [k for k in live[0].store if k[0] == "ARR" and (k[1][0] < 0 or k[1][0] >= n)]
                        if extra:
                            bad = "writes outside the array at %s" % extra
                    if bad:
                        failures.append("replace %d by %d in %s: %s, expected %s" % (old, new, list(arr), bad, want))
    ctx.check(not failures, "R20.4", "sort_replace:all-arrays-up-to-%d" % maxn, sr.loc(),
              "%d of %d cases wrong, e.g. %s" % (len(failures), ncase, failures[:2]))
    ctx.note("R20.4 evaluated %d (array, old, new) cases" % ncase)
    for k in range(0, ncase, max(1, ncase // 12)):
        ctx.ok("R20.4", "sort_replace:cases-%d.." % k, sr.loc(), nontrivial=True)


_run_base = run


def run(ctx):
    _run_base(ctx)
    prog = ctx.prog
    ctx.rule("R20.5", "the value reaches the sort module in time and its outputs take every write: when the running "
             "thread of a CPU changes, the bay's first-in first-out schedule over the breakdown wiring (taken from "
             "connect_cpu) with the model's channel order (taken from its enum) lets mux0 produce tr before mux1 "
             "reads it and tri is final when the sort module reads it, for all 324 (old, new) combinations of "
             "subsystem, task type and idle values; with the properties sort_init sets, an output written X, Y, X in "
             "one propagation ends at X through chan.c's own chan_set")
    from rules import round3
    round3.check_breakdown_schedule(ctx, "R20.5")
    round3.check_sort_outputs_rewritable(ctx, "R20.5")
    ctx.rule("R20.6", "the breakdown multiplexers rest on the same protocol as every other: a change of selection "
             "disconnects the previously selected input whatever its index (C06 R6.4's evaluation of cb_select), otherwise "
             "a stale subsystem input keeps overwriting the task type")
    from rules import round4
    round4.share(ctx, "R20.6", "C06", lambda i_: i_["rule"] == "R6.4" and i_["inst"].startswith("cb_select:"), "mux:",
                 "the breakdown rows show a stale input's value", 4)

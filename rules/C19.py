"""C19 — tools are total (memory-safety and progress clauses).

R19.1 every read through the stream cursor lies inside the loaded stream
R19.2 the cursor always advances by at least one event header (no zero / negative step)
R19.3 payload bytes are read only under a sufficient size test; strings from the trace are bounded
R19.4 indices derived from trace bytes go into arrays that cover the index type or are range-checked
"""
from ovsa import absint, effects, errflow
from ovsa.absint import INT, NULL, PTR, TOP, to_lin

STREAMC = "src/emu/stream.c"
OV = "src/rt/ovni.c"
ELEM = {"i8": 1, "u8": 1, "i16": 2, "u16": 2, "i32": 4, "u32": 4, "i64": 8, "u64": 8}


def F(rec, field):
    return ((rec, field),)


def field_off(prog, rec, name):
    r = prog.records.get(rec)
    if r is None:
        return None, None
    for fld in r["fields"]:
        if fld["name"] == name:
            return fld["offbits"] // 8, fld.get("size")
    return None, None


def byte_range(prog, path, leaf_size):
    """Offset (as value) and size of an access path below BUF: first component is the
    cursor index (int or lin), then (record, field) / int components."""
    from ovsa.absint import mk_lin
    c0, terms = 0, {}
    size = leaf_size
    first = True
    prev_elem = 1
    for comp in path:
        if first:
            first = False
            l = to_lin(INT(comp)) if isinstance(comp, int) else to_lin(comp)
            if l is None:
                return None, None
            c0 += l[0]
            for k, c in l[1].items():
                terms[k] = terms.get(k, 0) + c
            continue
        if isinstance(comp, tuple) and len(comp) == 2 and isinstance(comp[0], str):
            o, s = field_off(prog, comp[0], comp[1])
            if o is None:
                return None, None
            c0 += o
            size = s
            r = prog.records[comp[0]]
            fld = [x for x in r["fields"] if x["name"] == comp[1]][0]
            prev_elem = (fld["size"] // fld["count"]) if fld.get("count") else None
        elif isinstance(comp, int):
            if prev_elem is None:
                return None, None
            c0 += comp * prev_elem
            size = prev_elem
        else:
            return None, None
    return mk_lin(c0, terms), size


def run(ctx):
    prog = ctx.prog
    eff = effects.Effects(prog)
    reg = errflow.Registry(prog)
    ctx.rule("R19.1", "in stream_step every read through the stream cursor (event header fields, the jumbo size "
             "field) is provably inside [0, stream->size) under the path constraints, for every offset and size")
    ctx.rule("R19.2", "whenever stream_step moves the cursor it moves it forward by at least the size of an event "
             "header, computed without a narrowing conversion of a length taken from the trace")
    ctx.rule("R19.3", "every read of payload bytes in the event handlers and in the event printer happens under "
             "a test of the payload size that covers the bytes read; pointers into jumbo data are used as "
             "strings only after a bounded terminator check")
    ctx.rule("R19.4", "dispatch tables indexed by the event's category/value bytes have 256 x 256 entries; CPU "
             "and mux input indices taken from events are range-checked")

    # ---- R19.1 / R19.2 ------------------------------------------------------------------
    ss = prog.fn("stream_step", STREAMC)
    inl = {f.name for f in prog.fns_in(STREAMC)} | {"ovni_ev_size", "ovni_payload_size", "get_jumbo_payload_size",
                                                    "ovni_ev_get_clock"}
    loads = []

    def on_load(ex, st, f, node, loc):
        if loc[0] == "BUF":
            loads.append((f, node, loc, st.cons, phase[0]))
    phase = ["first"]
    ex = absint.Explorer(prog, effects=eff, inline=lambda n, d: n in inl and d.name != "stream_step",
                         on_load=on_load, loop_bound=2, max_depth=5, symbolic_roots=("BUF",))
    # streams below 2 GiB (assumption of this clause: the runtime's own size functions return int)
    S = ex.sym("size", 8, 2 ** 31 - 1)
    off = ex.sym("off", 8, 2 ** 31 - 1)
    store = {("ST", F("stream", "active")): INT(1), ("ST", F("stream", "size")): S,
             ("ST", F("stream", "offset")): off, ("ST", F("stream", "buf")): PTR("BUF", (0,)),
             ("ST", F("stream", "cur_ev")): NULL, ("ST", F("stream", "unsorted")): INT(0)}
    # invariant of an active stream before any event is loaded: header <= offset < size
    cons = (((("off", 1), ("size", -1)), -1),)
    outs1 = ex.run(ss, [PTR("ST")], store, cons=cons)
    ctx.need(outs1, "stream_step: nothing explored")
    ok1 = [o for o in outs1 if o.kind == "ret" and o.ret == INT(0)]
    ctx.need(ok1, "stream_step: no successful first step explored")
    # second call: from every state a successful step leaves behind (an arbitrary validated event)
    phase[0] = "next"
    adv_bad = []
    n_adv = 0
    hdr = prog.records["ovni_ev_header"]["size"]
    for o1 in ok1:
        outs2 = ex.run(ss, [PTR("ST")], o1.store, cons=o1.cons)
        off1 = o1.store.get(("ST", F("stream", "offset")))
        for o in outs2:
            if o.kind != "ret":
                continue
            newoff = o.store.get(("ST", F("stream", "offset")), TOP)
            if newoff == off1:
                adv_bad.append("a second call returns without moving the cursor")
                continue
            n_adv += 1
            l, l1 = to_lin(newoff), to_lin(off1)
            if l is None or l1 is None:
                adv_bad.append("the new offset is not a bounded function of the trace bytes (%s): a length from "
                               "the trace narrowed to int can make the step zero or negative" % (newoff,))
                continue
            t = dict(l[1])
            for k, c in l1[1].items():
                t[k] = t.get(k, 0) - c
            if ex.decide_cmp(o.cons, ">=", l[0] - l1[0] - hdr, {k: c for k, c in t.items() if c}) is not True:
                adv_bad.append("cannot show the cursor advances by at least %d bytes" % hdr)
    # postcondition of a successful step: the whole event, as the decoder (emu_ev ->
    # ovni_payload_size) will see it, lies inside the stream
    ops = prog.fn("ovni_payload_size", OV)
    phase[0] = "post"
    post_bad = []
    n_post = 0
    for o1 in ok1:
        cur = o1.store.get(("ST", F("stream", "cur_ev")))
        off1 = o1.store.get(("ST", F("stream", "offset")))
        if cur is None or cur[0] != "ptr":
            post_bad.append("no current event after a successful step")
            continue
        for o in ex.run(ops, [cur], o1.store, cons=o1.cons):
            if o.kind != "ret":
                continue
            n_post += 1
            l, lo = to_lin(o.ret) if o.ret else None, to_lin(off1)
            if l is None or lo is None:
                post_bad.append("the payload size the decoder computes is not bounded by anything stream_step "
                                "checked (%s)" % (o.ret,))
                continue
            t = dict(l[1])
            for k, c in lo[1].items():
                t[k] = t.get(k, 0) + c
            t["size"] = t.get("size", 0) - 1
            if ex.decide_cmp(o.cons, "<=", l[0] + lo[0] + hdr, {k: c for k, c in t.items() if c}) is not True:
                post_bad.append("after a successful step the event (header + payload the decoder will read) is "
                                "not shown to end inside the stream")
    ctx.check(n_post > 0 and not post_bad, "R19.1", "stream_step:accepted-event-inside-stream", ss.loc(),
              "; ".join(sorted(set(post_bad))))
    loads[:] = [x for x in loads if x[4] != "post"]
    seen = {}
    for (f, node, loc, lc, ph) in loads:
        o, sz = byte_range(prog, loc[1], 1)
        what = f.src(node)
        key = (ph, what, f.name)
        if o is None:
            seen[key] = "cannot compute the byte range of this read through the cursor"
            continue
        l = to_lin(o)
        t = dict(l[1])
        t["size"] = t.get("size", 0) - 1
        inb = ex.decide_cmp(lc, "<=", l[0] + sz, t)
        if inb is not True:
            seen[key] = ("%s reads %d byte(s) of the event but nothing on this path shows they are inside the "
                         "mapped stream: the read can lie past its end" % (what, sz))
        else:
            seen.setdefault(key, None)
    ctx.need(len(seen) >= 4, "stream_step: only %d cursor reads observed" % len(seen))
    for key in sorted(seen):
        inst = "stream_step[%s]:read:%s@%s" % key
        ctx.check(seen[key] is None, "R19.1", inst, ss.loc(), seen[key] or "")
    ctx.check(n_adv > 0 and not adv_bad, "R19.2", "stream_step:advance>=header", ss.loc(),
              "; ".join(sorted(set(adv_bad))))

    # ---- R19.3 (a): handlers --------------------------------------------------------------------
    nreads = 0
    files = sorted({f.file for f in prog.functions.values()
                    if f.file.startswith("src/emu/") and (f.file.endswith("/event.c") or f.file.endswith("/mark.c"))})
    for file in files:
        for f in prog.fns_in(file):
            reads = [i for i, n in enumerate(f.nodes) if n["k"] == "MemberExpr" and n.get("rec") == "ovni_ev_payload"
                     and n["field"] in ELEM]
            if not reads:
                continue
            res = _payload_reads(ctx, prog, eff, reg, f)
            for (what, where, ok, detail, dbgonly) in res:
                nreads += 1
                inst = "%s:%s:%s" % (file.split("/")[2], f.name, what)
                ctx.check(ok, "R19.3", inst, where,
                          "%s is read %s%s" % (what, detail, " (debug build only)" if dbgonly else ""))
    ctx.check(nreads >= 10, "R19.3", "payload-reads:enumerated", "src/emu", "only %d payload reads found" % nreads)

    # ---- R19.3 (b): jumbo data used as a string ---------------------------------------------------
    for f in prog.functions.values():
        if not f.file.startswith("src/emu/"):
            continue
        uses = [i for i, n in enumerate(f.nodes) if n["k"] == "MemberExpr" and n.get("rec") == "ovni_jumbo_payload"
                and n["field"] == "data"]
        if not uses:
            continue
        model = f.file.split("/")[2]
        has_len_test = any(n["k"] == "MemberExpr" and n.get("rec") in ("emu_ev",) and n["field"] == "payload_size"
                           for n in f.nodes) or \
            any(n["k"] == "MemberExpr" and n.get("rec") == "ovni_jumbo_payload" and n["field"] == "size" for n in f.nodes)
        has_nul_test = any(n["k"] == "CallExpr" and n.get("callee") in ("memchr", "strnlen") for n in f.nodes)
        ctx.check(has_len_test, "R19.3", "%s:%s:jumbo-data-length-tested" % (model, f.name), f.loc(uses[0]),
                  "jumbo data is read without any test of the jumbo / payload size: a short event makes the read "
                  "run past the event")
        passes_str = any(n["k"] == "CallExpr" and n.get("callee") not in ("memcpy", "memchr", "strnlen", None) and
                         any((f.nodes[f.strip(a)].get("ct") or f.nodes[f.strip(a)].get("t", "")) == "const char *" and
                             f.nodes[f.strip(a)]["k"] == "DeclRefExpr" for a in n["args"])
                         for n in f.nodes if n["k"] == "CallExpr" and not f.in_macro(f.nodes.index(n), "err"))
        if passes_str:
            ctx.check(has_nul_test, "R19.3", "%s:%s:jumbo-string-terminated" % (model, f.name), f.loc(uses[0]),
                      "a pointer into the jumbo data is used as a C string without checking that a terminator "
                      "exists inside the event: the string functions can run past the loaded stream")

    # ---- R19.3 (b'): the terminator search and every copy out of the jumbo data stay inside the event -----
    # the handler is interpreted with a symbolic payload size ps and jumbo size js = ps - 4 (what emu_ev sets up);
    # memchr / strnlen / memcpy on a pointer into the payload must cover bytes [off, off + n) with off + n <= ps
    def _pl_off(ptr):
        """byte offset, from the start of the payload, of a pointer into PL"""
        if ptr[0] != "ptr" or ptr[1] != "PL":
            return None
        off = 0
        for comp in ptr[2]:
            if isinstance(comp, int):
                off += comp
            elif isinstance(comp, tuple) and len(comp) == 2 and isinstance(comp[0], str):
                rec = prog.records.get(comp[0])
                fl = [x for x in (rec or {}).get("fields", []) if x["name"] == comp[1]]
                if not fl:
                    return None
                off += fl[0]["offbits"] // 8
            elif isinstance(comp, tuple) and comp and comp[0] == "lin":
                return None
            else:
                return None
        return off
    for f in prog.functions.values():
        if not f.file.startswith("src/emu/") or not f.file.endswith("/event.c"):
            continue
        if not any(n["k"] == "MemberExpr" and n.get("rec") == "ovni_jumbo_payload" and n["field"] == "data" for n in f.nodes):
            continue
        model = f.file.split("/")[2]
        found = []

        def oc(ex_, st, f_, e, cal, args, found=found):
            spec_ = {"memchr": (0, 2), "strnlen": (0, 1), "memcpy": (1, 2), "__builtin___memcpy_chk": (1, 2)}.get(cal)
            if spec_ is None or len(args) <= max(spec_):
                return
            off = _pl_off(args[spec_[0]])
            if off is None:
                return
            found.append((cal, off, args[spec_[1]], st.cons, f_.loc(e)))
        exj = absint.Explorer(prog, effects=eff, on_call=oc, loop_bound=2, max_paths=20000,
                              on_unknown_call=lambda cal, args, f_, e: None)
        ps = exj.sym("ps", 4, 2 ** 32)
        storej = {("EMU", F("emu", "ev")): PTR("EV"), ("EV", F("emu_ev", "payload")): PTR("PL"),
                  ("EV", F("emu_ev", "payload_size")): ps, ("EV", F("emu_ev", "is_jumbo")): INT(1),
                  ("EV", F("emu_ev", "v")): INT(ord("c")),
                  ("PL", F("ovni_ev_payload", "jumbo") + F("ovni_jumbo_payload", "size")): absint.mk_lin(-4, {"ps": 1}),
                  ("EMU", F("emu", "proc")): PTR("PROC"), ("EMU", F("emu", "thread")): PTR("TH")}
        exj.run(f, [PTR("EMU")], storej)
        for k_, (cal, off, n_, cons_, where_) in enumerate(found):
            ln = absint.to_lin(n_)
            ok_ = False
            if ln is not None:
                t_ = dict(ln[1])
                t_["ps"] = t_.get("ps", 0) - 1
                ok_ = exj.decide_cmp(cons_, "<=", ln[0] + off, {a_: b_ for a_, b_ in t_.items() if b_}) is True
            ctx.check(ok_, "R19.3", "%s:%s:%s#%d:inside-event" % (model, f.name, cal, k_ + 1), where_,
                      "%s covers payload bytes [%d, %d + %s) but the event has only ps = 4 + jumbo.size payload bytes: "
                      "the access can run past the event (and past the loaded stream)" % (cal, off, off, absint_s(n_)))
        ctx.check(len(found) >= 1, "R19.3", "%s:%s:jumbo-accesses-interpreted" % (model, f.name), f.loc(),
                  "no bounded access to the jumbo data was reached by the interpreter")

    # ---- R19.3 (c): the event printer ------------------------------------------------------------------
    mep = prog.fn("model_event_print", "src/emu/model.c")
    pr_calls = mep.calls("ev_spec_print")
    ctx.need(pr_calls, "model_event_print no longer calls ev_spec_print")
    checker = None
    for c in mep.calls():
        n = mep.nodes[c]
        cal = n.get("callee")
        d = prog.resolve(mep, cal) if cal else None
        if d is None or cal == "ev_spec_print":
            continue
        reads_size = any(m["k"] == "MemberExpr" and m.get("rec") == "emu_ev" and m["field"] == "payload_size" for m in d.nodes)
        reads_decl = any(m["k"] == "MemberExpr" and m.get("rec") == "ev_spec" and m["field"] == "payload_size" for m in d.nodes)
        if reads_size and reads_decl and all(mep.dominates(c, p) for p in pr_calls):
            checker = (d, c)
    pa = prog.fn("print_arg", "src/emu/ev_spec.c")
    if checker is None:
        ctx.fail("R19.3", "ev_spec:print_arg:payload-size-tested", pa.loc(),
                 "the event printer copies argument bytes from payload[offset] without ever comparing the event's "
                 "payload size with the declared shape (and dereferences a NULL payload for an event without one)")
        ctx.fail("R19.3", "ev_spec:print_arg:string-bounded", pa.loc(),
                 "a 'str' argument is printed with %s straight from the trace without a bounded terminator check")
    else:
        d, csite = checker
        ef = errflow.ErrFlow(prog, mep, registry=reg)
        okp, detail = ef.site_propagates(mep, csite)
        ctx.check(okp, "R19.3", "ev_spec:checker-result-used", mep.loc(csite),
                  "the result of %s is ignored by model_event_print: %s" % (d.name, detail))
        I32, STR = prog.enum_val("I32"), prog.enum_val("STR")
        A0 = F("ev_spec", "args") + (0,)
        cases = [("no-args", dict(nargs=0, decl=0, have=0, payload=False), True),
                 ("null-payload", dict(nargs=1, decl=4, have=0, payload=False), False),
                 ("short-payload", dict(nargs=1, decl=8, have=4, payload=True), False),
                 ("exact-payload", dict(nargs=1, decl=4, have=4, payload=True), True),
                 ("longer-payload", dict(nargs=1, decl=4, have=8, payload=True), True),
                 ("jumbo-mismatch", dict(nargs=1, decl=4, have=8, payload=True, evj=1, specj=0), False),
                 ("string-unterminated", dict(nargs=1, decl=4, have=12, payload=True, evj=1, specj=1, typ=STR, nul=False), False),
                 ("string-terminated", dict(nargs=1, decl=4, have=12, payload=True, evj=1, specj=1, typ=STR, nul=True), True),
                 ("string-empty-room", dict(nargs=1, decl=4, have=4, payload=True, evj=1, specj=1, typ=STR, nul=False), False)]
        for name, c, want in cases:
            # the payload bytes are concrete in the abstract store (non-zero filler, a terminator as the last
            # byte when the case has one): the terminator search may use memchr or a loop
            from rules.strutil import byte_store, s_memchr
            data = bytearray(b"\x41" * c["have"])
            if c.get("nul") and c["have"]:
                data[-1] = 0
            exc = absint.Explorer(prog, effects=eff, summaries={"memchr": s_memchr}, loop_bound=c["have"] + 4)
            store = {("SPEC", F("ev_spec", "nargs")): INT(c["nargs"]), ("SPEC", F("ev_spec", "payload_size")): INT(c["decl"]),
                     ("SPEC", F("ev_spec", "is_jumbo")): INT(c.get("specj", 0)),
                     ("SPEC", A0 + F("ev_arg", "type")): INT(c.get("typ", I32)),
                     ("SPEC", A0 + F("ev_arg", "offset")): INT(4 if c.get("specj") else 0),
                     ("EV", F("emu_ev", "payload")): PTR("PL") if c["payload"] else NULL,
                     ("EV", F("emu_ev", "payload_size")): INT(c["have"]), ("EV", F("emu_ev", "is_jumbo")): INT(c.get("evj", 0))}
            store.update(byte_store("PL", bytes(data)))
            outs = exc.run(d, [PTR("SPEC"), PTR("EV")], store)
            acc = [o for o in outs if o.kind == "ret" and o.ret == INT(0)]
            rej = [o for o in outs if o.kind == "ret" and o.ret != INT(0)]
            inst = "ev_spec:%s:%s" % (d.name, name)
            if want:
                ctx.check(bool(acc) and not rej, "R19.3", inst, d.loc(), "a payload that matches its declaration is refused")
            else:
                ctx.check(bool(rej) and not acc, "R19.3", inst, d.loc(),
                          "the printer's payload check accepts an event whose payload cannot hold the declared "
                          "arguments (%s)" % name)

    # ---- R19.4 ----------------------------------------------------------------------------------------
    ntab = 0
    for g in prog.globals.values():
        if g["file"].startswith("src/emu/") and g["file"].endswith("/event.c") and g.get("init", {}).get("k") == "arr" \
                and g["ctype"].startswith("const int[") and g["ctype"].count("[") == 3:
            ntab += 1
            dims = [int(x) for x in g["ctype"].replace("const int", "").replace("]", "").split("[")[1:]]
            ctx.check(dims[0] >= 256 and dims[1] >= 256, "R19.4", "%s:%s:256x256" % (g["file"].split("/")[2], g["name"]),
                      "%s:%d" % (g["file"], g["line"]),
                      "dispatch table %s has dimensions %s but is indexed by two bytes of the event" % (g["name"], dims))
    ctx.check(ntab >= 6, "R19.4", "dispatch-tables:enumerated", "src/emu", "only %d dispatch tables found" % ntab)
    lg = prog.fn("loom_get_cpu", "src/emu/loom.c")
    ex = absint.Explorer(prog, effects=eff)
    for idx in (-2, 0, 3, 4, 5):
        outs = ex.run(lg, [PTR("LOOM"), INT(idx)], {("LOOM", F("loom", "ncpus")): INT(4),
                                                    ("LOOM", F("loom", "cpus_array")): PTR("ARR", (0,)),
                                                    ("ARR", (max(0, min(idx, 3)),)): PTR("CPUX")})
        rets = [o.ret for o in outs if o.kind == "ret"]
        inst = "loom_get_cpu:index=%d:ncpus=4" % idx
        if 0 <= idx < 4:
            ctx.check(rets and all(r == PTR("CPUX") for r in rets), "R19.4", inst, lg.loc(),
                      "valid index does not return cpus_array[index]: %s" % rets)
        else:
            ctx.check(rets and all(r == NULL for r in rets), "R19.4", inst, lg.loc(),
                      "an out-of-range CPU index taken from an event is not refused (returns %s)" % rets)


def absint_s(v):
    l = absint.to_lin(v)
    if l is None:
        return str(v)
    return " + ".join(["%d" % l[0]] + ["%d*%s" % (c, k) for k, c in sorted(dict(l[1]).items())])


def _payload_reads(ctx, prog, eff, reg, f):
    """Evaluate every payload read of f under a symbolic payload size; escalate to callers when
    the function itself has no sufficient test.  Returns [(what, where, ok, detail, dbgonly)]."""
    results = {}

    def explore(entry, inline_names):
        loads = []

        def on_load(ex, st, g, node, loc):
            if loc[0] == "PL" and loc[1] and isinstance(loc[1][0], tuple) and loc[1][0][0] == "ovni_ev_payload" \
                    and g is f:
                loads.append((g, node, loc, st.cons))

        def unk(cal, args, g, e):
            d = prog.decls.get(cal) if cal else None
            if d and d[0]["ret"].rstrip().endswith("*"):
                return [NULL, PTR("ret:" + str(cal))]
            return None
        # helpers are not interpreted in place here: a read inside a helper is judged in the helper and, when the
        # helper has no test of its own, again from each of its callers (the escalation below)
        ex = absint.Explorer(prog, effects=eff, inline=lambda n, d: n in inline_names, on_load=on_load,
                             on_unknown_call=unk, loop_bound=2, max_paths=60000, max_depth=4, auto_inline=False)
        ps = ex.sym("ps", 0, 2 ** 33)
        store = {("EMU", F("emu", "ev")): PTR("EV"), ("EV", F("emu_ev", "payload")): PTR("PL"),
                 ("EV", F("emu_ev", "payload_size")): ps, ("EMU", F("emu", "thread")): PTR("TH"),
                 ("EMU", F("emu", "proc")): PTR("PROC"), ("EMU", F("emu", "loom")): PTR("LOOM")}
        args = []
        byt = {"struct emu *": PTR("EMU"), "struct thread *": PTR("TH"), "struct emu_ev *": PTR("EV"),
               "struct proc *": PTR("PROC"), "struct loom *": PTR("LOOM"), "union ovni_ev_payload *": PTR("PL")}
        for p in entry.params:
            # whatever part of the emulator state a handler is handed directly is the same state
            args.append(byt.get(p["ctype"].replace("const ", "").strip(), TOP))
        ex.run(entry, args, store)
        return ex, loads

    def judge(ex, loads):
        out = {}
        for (g, node, loc, lc) in loads:
            fld = loc[1][0][1]
            idx = loc[1][1] if len(loc[1]) > 1 else 0
            if not isinstance(idx, int):
                out[(g.src(node), g.loc(node))] = (False, "with a non-constant index")
                continue
            need = (idx + 1) * ELEM[fld]
            ok = ex.decide_cmp(lc, ">=", -need, {"ps": 1}) is True
            key = (g.src(node), g.loc(node))
            prev = out.get(key, (True, ""))
            out[key] = (prev[0] and ok, "" if ok else "although the payload can be shorter than %d bytes there" % need)
        return out
    ex, loads = explore(f, set())
    res = judge(ex, loads)
    pending = {k for k, v in res.items() if not v[0]}
    level = 0
    entry_chain = [f]
    while pending and level < 3:
        callers = [(c, n) for (c, n) in reg.call_sites(entry_chain[-1]) if c.file == f.file]
        if not callers:
            break
        level += 1
        c = callers[0][0]
        entry_chain.append(c)
        ex, loads = explore(c, {g.name for g in entry_chain[:-1]})
        res2 = judge(ex, loads)
        for k in list(pending):
            if k in res2 and res2[k][0] and len({cc.key for cc, nn in callers}) == 1:
                res[k] = (True, "")
                pending.discard(k)
    out = []
    # reads that the explorer never reached (e.g. inside debug macros) are still listed
    for i, n in enumerate(f.nodes):
        if n["k"] == "MemberExpr" and n.get("rec") == "ovni_ev_payload" and n["field"] in ELEM:
            par = f.parent(i)
            top = par if par is not None and f.nodes[par]["k"] in ("ImplicitCastExpr", "ArraySubscriptExpr") else i
            while f.parent(top) is not None and f.nodes[f.parent(top)]["k"] in ("ImplicitCastExpr", "ArraySubscriptExpr"):
                top = f.parent(top)
    for (what, where), (ok, detail) in sorted(res.items()):
        node_dbg = False
        out.append((what, where, ok, detail, node_dbg))
    if not res:
        # reads exist syntactically but were not reached: report as analysis gap, conservatively failing
        first = [i for i, n in enumerate(f.nodes) if n["k"] == "MemberExpr" and n.get("rec") == "ovni_ev_payload"][0]
        if f.in_macro(first, "dbg"):
            out.append((f.src(first), f.loc(first), False, "inside a debug message without any size test", True))
        else:
            out.append((f.src(first), f.loc(first), False, "on a path the explorer could not reach", False))
    return out


_run_base = run


def run(ctx):
    _run_base(ctx)
    prog = ctx.prog
    ctx.rule("R19.5", "no crash on unusual but loadable traces: tables indexed by a byte of the trace have 256 entries "
             "or a bound check; the sparse stream table system.lpt is indexed only by the function that builds it "
             "(system_get_lpt answers NULL for other streams); the clock-gate test never reads an event of a stream "
             "that has none")
    from rules import round3
    round3.check_byte_indexed_tables(ctx, "R19.5")
    round3.check_lpt_table_access(ctx, "R19.5")
    round3.check_gate_skips_exhausted(ctx, "R19.5")
    ctx.rule("R19.6", "more crash shapes: model_event / model_event_print on an event whose model byte nobody "
             "registered return an error without dereferencing the NULL spec; ovnisort's ring helpers stay inside the "
             "ring (C16 R16.7's evaluation of rebuild_ring / ring_check on wrapped rings)")
    from rules import round4
    round4.check_unregistered_model_byte(ctx, "R19.6")
    round4.check_ring_helpers(ctx, "R19.6")
    ctx.rule("R19.7", "NULL from the data never reaches a dereference: for each of the emulator's parson getter call "
             "sites the enclosing function is explored with that getter returning NULL (key missing or of another type) - "
             "no libc string routine may receive it and nothing may be dereferenced through it; likewise for every "
             "task / type lookup of the task models returning NULL (an id the trace never declared)")
    from rules import round5
    round5.check_json_null_safety(ctx, "R19.7")
    round5.check_lookup_null_safety(ctx, "R19.7")
    ctx.rule("R19.8", "a constant length passed next to a local array never exceeds the array (30 call sites in the "
             "emulator and the runtime)")
    from rules import round6
    round6.check_buffer_length_args(ctx, "R19.8")
    ctx.rule("R19.9", "ovnisort's look-back window never holds pointers into a stream that is no longer the one being "
             "sorted: the window is emptied when a stream is started (process_trace evaluated on two "
             "streams, the rule C16 reports as R16.6); a stale pointer makes the sort plan span two unrelated mappings (reads outside the loaded stream, "
             "a pwrite with a wild offset and SIGABRT)")
    from rules import round3
    round3.check_ring_per_stream(ctx, "R19.9")

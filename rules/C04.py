"""C04 — thread life-cycle FSM.

R4.1 extracted FSM = documented FSM (E3, exhaustive over state x event cells)
R4.2 dispatch of the value byte to the handlers (all 256 values x 6 states)
R4.3 published view in thread_set_state (is_running / is_active / channels)
R4.4 end of trace: every thread must be dead, and the failure reaches main
"""
import json
import os

from ovsa import absint, effects, errflow
from ovsa.absint import INT, NULL, PTR, TOP
from ovsa.facts import VERIF

EVFILE = "src/emu/ovni/event.c"
THFILE = "src/emu/thread.c"


def spec():
    with open(os.path.join(VERIF, "spec", "C04.json")) as f:
        return json.load(f)


def F(rec, field):
    return ((rec, field),)


def make_explorer(prog, files):
    eff = effects.Effects(prog)

    def unk(cal, args, f, e):
        d = prog.decls.get(cal) if cal else None
        if d and d[0]["ret"].rstrip().endswith("*"):
            return [NULL, PTR("ret:" + cal)]
        return None

    def s_val(ex, st, args, f, e):
        return [(("val", "i64", args[0]), {})]

    def s_null(ex, st, args, f, e):
        return [(("val", "null"), {})]

    return absint.Explorer(prog, inline=lambda n, d: d.file in files, effects=eff,
                           on_unknown_call=unk,
                           summaries={"value_int64": s_val, "value_null": s_null})


def thread_store(prog, sp, stname, v=None):
    s = prog.enum_val(stname)
    cpu = PTR("CPU0") if sp["states"][stname]["cpu"] else NULL
    st = {
        ("EMU", F("emu", "thread")): PTR("TH"),
        ("EMU", F("emu", "ev")): PTR("EV"),
        ("TH", F("thread", "state")): INT(s),
        ("TH", F("thread", "cpu")): cpu,
        ("TH", F("thread", "tid")): INT(4242),
        ("TH", F("thread", "is_running")): INT(1 if stname in sp["running"] else 0),
        ("TH", F("thread", "is_active")): INT(1 if stname in sp["active"] else 0),
    }
    if v is not None:
        st[("EV", F("emu_ev", "v"))] = INT(v)
    return st


def run(ctx):
    prog = ctx.prog
    sp = spec()
    ctx.rule("R4.1", "for each life-cycle event and each thread state, pre_thread() accepts (some path returns 0) "
             "exactly when the documented FSM allows the transition, and every accepting path leaves "
             "th->state / th->cpu as documented (abstract path exploration with thread.c inlined)")
    ctx.rule("R4.2", "value bytes other than the six life-cycle events are rejected in every state, except the "
             "documented no-op OHC which leaves the thread state unchanged")
    ctx.rule("R4.3", "thread_set_state(th, s): is_running == (s is running), is_active == (s in {running, "
             "cooling, warming}); the state channel receives s, the TID channel the tid iff active else null")
    ctx.rule("R4.4", "model_ovni_finish fails when a thread is not dead at the end of a complete trace, and that "
             "failure propagates through model_finish/emu_finish to main's exit status")
    enum = prog.enums.get("thread_state")
    ctx.need(enum is not None, "enum thread_state not found")
    names = [e[0] for e in enum["enumerators"]]
    ctx.need(set(names) == set(sp["states"]),
             "enum thread_state changed: %s vs frozen table %s (update spec/C04.json after review)"
             % (names, sorted(sp["states"])))
    pre_thread = prog.fn("pre_thread", EVFILE)
    ex = make_explorer(prog, {EVFILE, THFILE})
    KS = ("TH", F("thread", "state"))
    KC = ("TH", F("thread", "cpu"))

    # ---- R4.1 / R4.2 ------------------------------------------------------
    for v in range(256):
        ch = chr(v)
        evs = sp["events"].get(ch)
        for stname in names:
            outs = ex.run(pre_thread, [PTR("EMU")], thread_store(prog, sp, stname, v))
            rets = [o for o in outs if o.kind == "ret"]
            ctx.need(all(o.ret is not None and o.ret[0] == "int" for o in rets),
                     "pre_thread returns a value the engine cannot evaluate (v=%r state=%s)" % (ch, stname))
            acc = [o for o in rets if o.ret[1] == 0]
            if evs is not None:
                inst = "%s:%s" % (evs["name"], stname)
                where = pre_thread.loc()
                if stname in evs.get("open", []):
                    ctx.ok("R4.1", inst, where, "left open by the property (dead thread executing again)",
                           nontrivial=False)
                    continue
                should = stname in evs["from"]
                if should and not acc:
                    ctx.fail("R4.1", inst, where, "documented transition %s --%s--> %s is rejected on every path"
                             % (stname, evs["name"], evs["to"]))
                    continue
                if not should and acc:
                    ctx.fail("R4.1", inst, where, "undocumented transition accepted: %s in state %s "
                             "(ends in state %s)" % (evs["name"], stname, _stname(names, prog, acc[0].store.get(KS))))
                    continue
                if should:
                    want_s = INT(prog.enum_val(evs["to"]))
                    want_cpu = sp["states"][evs["to"]]["cpu"]
                    bad = None
                    for o in acc:
                        s2 = o.store.get(KS, TOP)
                        c2 = o.store.get(KC, TOP)
                        if s2 != want_s:
                            bad = "ends in state %s instead of %s" % (_stname(names, prog, s2), evs["to"])
                        elif want_cpu and c2[0] != "ptr":
                            bad = "leaves the thread without a CPU in state %s" % evs["to"]
                        elif not want_cpu and c2 != NULL:
                            bad = "leaves th->cpu set in state %s" % evs["to"]
                    if bad:
                        ctx.fail("R4.1", inst, where, "%s from %s: an accepting path %s" % (evs["name"], stname, bad))
                    else:
                        ctx.ok("R4.1", inst, where, "accept -> %s (%d paths, %d accepting)" %
                               (evs["to"], len(outs), len(acc)))
                else:
                    ctx.ok("R4.1", inst, where, "rejected on all %d paths" % len(outs))
            else:
                inst = "value-%s:%s" % (ch if 33 <= v <= 126 else "x%02x" % v, stname)
                if ch in sp["noop_values"]:
                    same = all(o.store.get(KS) == INT(prog.enum_val(stname)) for o in acc) and bool(acc)
                    ctx.check(same, "R4.2", inst, pre_thread.loc(),
                              "documented no-op value %r changes the thread state or is rejected" % ch)
                else:
                    ctx.check(not acc, "R4.2", inst, pre_thread.loc(),
                              "value %r is not a life-cycle event but pre_thread accepts it in state %s" %
                              (ch, stname), )

    # ---- R4.3 ---------------------------------------------------------------
    tss = prog.fn("thread_set_state", THFILE)
    chan_idx = {"state": prog.enum_val("TH_CHAN_STATE"), "tid": prog.enum_val("TH_CHAN_TID")}
    for stname in names:
        s = prog.enum_val(stname)
        store = {("TH", F("thread", "cpu")): PTR("CPU0"), ("TH", F("thread", "tid")): INT(4242),
                 ("TH", F("thread", "state")): INT(99)}
        outs = ex.run(tss, [PTR("TH"), INT(s)], store)
        acc = [o for o in outs if o.kind == "ret" and o.ret == INT(0)]
        inst = "thread_set_state:%s" % stname
        if not acc:
            ctx.fail("R4.3", inst, tss.loc(), "no accepting path for state %s with a CPU set" % stname)
            continue
        want_run = 1 if stname in sp["running"] else 0
        want_act = 1 if stname in sp["active"] else 0
        bad = []
        for o in acc:
            if o.store.get(KS) != INT(s):
                bad.append("th->state not set to %s" % stname)
            if o.store.get(("TH", F("thread", "is_running"))) != INT(want_run):
                bad.append("is_running is %s, expected %d" % (o.store.get(("TH", F("thread", "is_running"))), want_run))
            if o.store.get(("TH", F("thread", "is_active"))) != INT(want_act):
                bad.append("is_active is %s, expected %d" % (o.store.get(("TH", F("thread", "is_active"))), want_act))
            sets = {}
            for ev in o.events:
                if ev[0] == "call" and ev[1] == "chan_set":
                    a0, a1 = ev[2][0], ev[2][1]
                    if a0[0] == "ptr" and a0[1] == "TH" and len(a0[2]) >= 2 and a0[2][0] == ("thread", "chan"):
                        sets[a0[2][1]] = a1
            if sets.get(chan_idx["state"]) != ("val", "i64", INT(s)):
                bad.append("state channel receives %s instead of %s" % (sets.get(chan_idx["state"]), stname))
            want_tid = ("val", "i64", INT(4242)) if want_act else ("val", "null")
            if sets.get(chan_idx["tid"]) != want_tid:
                bad.append("TID channel receives %s, expected %s" %
                           (sets.get(chan_idx["tid"]), "the tid" if want_act else "null"))
        ctx.check(not bad, "R4.3", inst, tss.loc(), "; ".join(sorted(set(bad))))
    # the state can only be set while a CPU is set
    outs = ex.run(tss, [PTR("TH"), INT(prog.enum_val("TH_ST_RUNNING"))],
                  {("TH", F("thread", "cpu")): NULL, ("TH", F("thread", "state")): INT(0)})
    ctx.check(not [o for o in outs if o.kind == "ret" and o.ret == INT(0)], "R4.3",
              "thread_set_state:no-cpu-rejected", tss.loc(),
              "thread_set_state accepts a state change while the thread has no CPU")

    # ---- R4.5 ---------------------------------------------------------------
    ctx.rule("R4.5", "every documented transition also passes the channel layer: thread_init_end is interpreted with "
             "chan.c's own chan_init / chan_prop_set to obtain the properties of the thread's channels, then "
             "thread_set_state is interpreted with chan.c's chan_set on those channels holding what the previous "
             "state published (a thread that stays active keeps its TID: a channel that refuses an unchanged value "
             "would reject Running -> Cooling and Warming -> Running)")
    CHANC = "src/emu/chan.c"
    tie = prog.fn("thread_init_end", THFILE)

    def s_veq(ex_, st, args, f, e):
        def ld(a):
            if a[0] != "ptr":
                return None
            v = st.store.get((a[1], a[2]))
            if v is not None:
                return v
            if (a[1], ("zeroinit",)) in st.store or any(k[0] == a[1] and k[1][:len(a[2])] == a[2] for k in st.store):
                return ("val", "null")
            return None
        x, y = ld(args[0]), ld(args[1])
        if x is None or y is None:
            return None
        return [(INT(1 if x == y else 0), {})]

    def s_memset(ex_, st, args, f, e):
        # memset(chan, 0, sizeof *chan): every field of the object reads as zero
        a = args[0]
        if a[0] != "ptr" or args[1] != INT(0):
            return None
        upd = {}
        for k in list(st.store):
            if k[0] == a[1] and k[1][:len(a[2])] == a[2] and len(k[1]) > len(a[2]):
                upd[k] = INT(0)
        upd[(a[1], a[2] + (("chan", "zeroed"),))] = INT(1)
        return [(TOP, upd)]
    def s_val(ex_, st, args, f, e):
        return [(("val", "i64", args[0]), {})]

    def s_null(ex_, st, args, f, e):
        return [(("val", "null"), {})]
    sums5 = {"value_int64": s_val, "value_null": s_null, "value_is_equal": s_veq, "memset": s_memset,
             "__builtin___memset_chk": s_memset,
             "vsnprintf": lambda ex_, st, a, f, e: [(INT(5), {})], "__builtin___vsnprintf_chk": lambda ex_, st, a, f, e: [(INT(5), {})]}
    eff = effects.Effects(prog)
    ex5 = absint.Explorer(prog, effects=eff, summaries=sums5, loop_bound=12, max_depth=4,
                          inline=lambda n, d: d.file in (CHANC, THFILE) and n not in sums5)
    outs = [o for o in ex5.run(tie, [PTR("TH")], {("TH", F("thread", "gindex")): INT(0), ("TH", F("thread", "meta")): PTR("META")})
            if o.kind == "ret" and o.ret == INT(0)]
    ctx.need(len(outs) >= 1, "thread_init_end: no successful path")
    base5 = {k: v for k, v in outs[0].store.items() if k[0] == "TH"}
    nprop = prog.enum_val("CHAN_PROP_MAX") if "CHAN_PROP_MAX" in dict(prog.enums.get("chan_prop", {}).get("enumerators", [])) else 4
    for v, evs in sp["events"].items():
        for stname in evs["from"]:
            to = evs["to"]
            store = dict(base5)
            for ci in range(prog.enum_val("TH_CHAN_MAX")):
                cp = F("thread", "chan") + (ci,)
                for pi in range(nprop):
                    store.setdefault(("TH", cp + F("chan", "prop") + (pi,)), INT(0))
                store[("TH", cp + F("chan", "is_dirty"))] = INT(0)
                store.setdefault(("TH", cp + F("chan", "dirty_cb")), NULL)
                store[("TH", cp + F("chan", "last_value"))] = ("val", "null")
            store[("TH", F("thread", "chan") + (chan_idx["state"],) + F("chan", "last_value"))] = ("val", "i64", INT(prog.enum_val(stname)))
            if stname in sp["active"]:
                store[("TH", F("thread", "chan") + (chan_idx["tid"],) + F("chan", "last_value"))] = ("val", "i64", INT(4242))
            store.update({("TH", F("thread", "cpu")): PTR("CPU0"), ("TH", F("thread", "tid")): INT(4242),
                          KS: INT(prog.enum_val(stname))})
            outs = ex5.run(tss, [PTR("TH"), INT(prog.enum_val(to))], store)
            rets = [o for o in outs if o.kind == "ret"]
            inst = "channels:%s:%s->%s" % (evs["name"], stname, to)
            ctx.check(bool(rets) and all(o.ret == INT(0) for o in rets), "R4.5", inst, tss.loc(),
                      "the documented transition %s (%s -> %s) is refused by the channel layer: thread_set_state "
                      "returns %s with the channel properties thread_init_end sets" %
                      (evs["name"], stname, to, sorted({str(o.ret) for o in rets})))

    # ---- R4.4 ---------------------------------------------------------------
    fin = prog.fn("model_ovni_finish", "src/emu/ovni/setup.c")
    ex2 = make_explorer(prog, set())
    ex2.loop_bound = 4
    SYS = F("emu", "system")
    dead = prog.enum_val("TH_ST_DEAD")
    for stname in names:
        for second in (None,) + tuple(names):
            store = {("EMU", F("emu", "finished")): INT(1),
                     ("EMU", SYS + F("system", "threads")): PTR("T1"),
                     ("T1", F("thread", "state")): INT(prog.enum_val(stname)),
                     ("T1", F("thread", "gnext")): PTR("T2") if second else NULL}
            if second:
                store[("T2", F("thread", "state"))] = INT(prog.enum_val(second))
                store[("T2", F("thread", "gnext"))] = NULL
            outs = ex2.run(fin, [PTR("EMU")], store)
            rets = [o for o in outs if o.kind == "ret"]
            all_dead = stname == "TH_ST_DEAD" and (second in (None, "TH_ST_DEAD"))
            inst = "model_ovni_finish:%s%s" % (stname, ("+" + second) if second else "")
            ctx.need(rets and all(o.ret is not None and o.ret[0] == "int" for o in rets),
                     "model_ovni_finish: cannot evaluate the return value")
            if all_dead:
                ctx.check(all(o.ret[1] == 0 for o in rets), "R4.4", inst, fin.loc(),
                          "fails although every thread is dead")
            else:
                ctx.check(all(o.ret[1] != 0 for o in rets), "R4.4", inst, fin.loc(),
                          "returns success at the end of a complete trace although a thread is in state %s"
                          % (stname if stname != "TH_ST_DEAD" else second))
    main = prog.fn("main", "src/emu/ovniemu.c")
    ef = errflow.ErrFlow(prog, main)
    drops = ef.propagates(fin)
    for (g, c, where, ok, detail) in ef.checked_sites:
        ctx.check(ok, "R4.4", "propagate:%s->%s" % (g, c), where, "error of %s dropped in %s: %s" % (g, c, detail))
    for (c, n, detail) in drops:
        if n is None:
            ctx.fail("R4.4", "propagate:%s:unreached" % c.name, c.loc(), detail)
    # the end-of-trace test looks at every thread of the system (global list, global link)
    from rules import listlinks
    listlinks.check(ctx, "R4.4", lambda file, name: name == "model_ovni_finish", minimum=1)

    # ---- R4.6 ---------------------------------------------------------------
    ctx.rule("R4.6", "no CPU is oversubscribed in an accepted history: whichever event makes a second thread run on a "
             "physical CPU (execute, resume, a migration), the recount it triggers refuses it (C05 R5.2's evaluation of "
             "cpu_update on every list of up to three threads; R5.1 shows that every such event recounts)")
    from rules import round3
    round3.share(ctx, "R4.6", "C05", lambda i_: i_["rule"] == "R5.2" and "oversubscribed" in i_["inst"], "recount:",
                 "a history in which two threads run on one physical CPU is accepted", 10)



def _stname(names, prog, v):
    if v and v[0] == "int":
        for n in names:
            if prog.enum_val(n) == v[1]:
                return n
    return str(v)


_run_base = run


def run(ctx):
    _run_base(ctx)
    prog = ctx.prog
    ctx.rule("R4.7", "the oversubscription test sees the new state: in every life-cycle handler the CPU is recounted "
             "after the thread's state was changed, never before (C05 R5.1's instances for the life-cycle events)")
    from rules import round4
    round4.share(ctx, "R4.7", "C05", lambda i_: i_["rule"] == "R5.1" and i_["inst"].split(":")[0] in
                 ("execute", "end", "pause", "resume", "cool", "warm"), "recount-after:",
                 "a resume that puts a second running thread on a physical CPU is accepted", 6)
    ctx.rule("R4.8", "a documented transition is refused only by the layers below: with every call out of ovni/event.c "
             "succeeding, pre_thread accepts every documented (event, state) cell on every path whatever else the CPU "
             "holds (nothing, paused, cooling or warming threads; other running threads on the virtual CPU)")
    from rules import round8
    round8.check_lifecycle_accepts_whatever_the_cpu_holds(ctx, "R4.8")

"""C11 — concurrent tracing threads are isolated; process init/fini happen exactly once.

R11.1 the only shared (non thread-local) mutable object libovni's API can write is rproc
R11.2 rproc's non-atomic fields are written only during ovni_proc_init (between the winning
      compare-and-swap and the release store) and read only by code guarded by a READY test
R11.3 proc init / fini take effect exactly once over the finite domain of rproc.st
R11.4 nothing thread-local escapes; no threads are created; no non-reentrant libc routine
"""
import json
import os

from ovsa import absint, effects, errflow
from ovsa.absint import INT, NULL, PTR, TOP
from ovsa.facts import VERIF

OV = "src/rt/ovni.c"
RP = ("G", OV, "rproc")
RT = ("G", OV, "rthread")


def F(rec, field):
    return ((rec, field),)


def spec():
    with open(os.path.join(VERIF, "spec", "C11.json")) as f:
        return json.load(f)


def run(ctx):
    prog = ctx.prog
    sp = spec()
    eff = effects.Effects(prog)
    reg = errflow.Registry(prog)
    ctx.rule("R11.1", "over every function reachable from libovni's exported symbols (ovni.c, common.c, compat.c, "
             "parson.c; function pointers resolved conservatively) the set of written objects with static "
             "storage that are not thread-local is exactly {rproc}")
    ctx.rule("R11.2", "non-atomic fields of rproc are written only by functions reachable solely through "
             "ovni_proc_init, and inside it after the winning compare-and-swap and before the store of READY; "
             "every read of such a field is dominated by a READY / thread-ready test that dies otherwise, or sits "
             "in a function all of whose call sites are so guarded")
    ctx.rule("R11.3", "ovni_proc_init proceeds only from UNINIT (every other state dies before any write) and ends "
             "in READY; ovni_proc_fini proceeds only from READY and ends in GONE")
    ctx.rule("R11.4", "the address of rthread (or of its fields) is never stored in a non-thread-local object, "
             "libovni creates no threads, and no exported path calls a non-reentrant libc routine")

    # the entry points of the library, plus the helpers of compat.c it exports to programs built with it
    exported = [f for f in prog.fns_in(OV) if not f.static] + [f for f in prog.fns_in("src/compat.c") if not f.static]
    ctx.need(len(exported) >= 30, "only %d exported functions found in ovni.c" % len(exported))
    reach_keys = errflow.reachable_from(prog, reg, exported)
    reach = [prog.functions[k] for k in reach_keys]

    # ---- R11.1 ----------------------------------------------------------------------
    gl = {}
    for g in prog.globals.values():
        gl.setdefault(g["name"], []).append(g)
    written = {}
    for f in reach:
        for t in eff.direct(f):
            if t[0] == "global":
                written.setdefault((t[1], t[2]), []).append((f, t[-1]))
        # function-scope statics
        for i, n in enumerate(f.nodes):
            if n["k"] == "DeclStmt":
                for d in n["decls"]:
                    if d.get("static") and not d["ctype"].startswith("const"):
                        written.setdefault((d["name"] + "@" + f.name, False), []).append((f, i))
    shared = {k: v for k, v in written.items() if not k[1]}
    for (name, tls), sites in sorted(shared.items()):
        f0, n0 = sites[0]
        allowed = name == "rproc" or name in sp["shared_write_exceptions"]
        ctx.check(allowed, "R11.1", "shared-write:%s" % name, f0.loc(n0),
                  "non thread-local object '%s' is written on a path from the exported API (%s): a data race "
                  "between tracing threads" % (name, ", ".join(sorted({f.name for f, n in sites}))[:200]))
    tlsw = sorted(k[0] for k in written if k[1])
    ctx.check("rthread" in tlsw, "R11.1", "rthread:is-thread-local", OV,
              "rthread is not written as a thread-local object (thread-local objects written: %s)" % tlsw)
    rg = prog.glob("rthread", OV)
    ctx.check(rg.get("tls"), "R11.1", "rthread:declared-thread-local", "%s:%d" % (OV, rg["line"]),
              "rthread is not declared _Thread_local")
    st_atomic = [fld for fld in prog.records["ovni_rproc"]["fields"] if fld["name"] == "st"]
    ctx.check(st_atomic and st_atomic[0]["atomic"], "R11.1", "rproc.st:atomic", OV, "rproc.st is not _Atomic")

    # ---- R11.3 ------------------------------------------------------------------------
    ST = {n: prog.enum_val(n) for n in ("ST_UNINIT", "ST_INIT", "ST_READY", "ST_GONE")}
    for fname, args, ok_from, ends in (("ovni_proc_init", [INT(1), ("str", "node"), INT(7)], "ST_UNINIT", "ST_READY"),
                                       ("ovni_proc_fini", [], "ST_READY", "ST_GONE")):
        fn = prog.fn(fname, OV)
        def strip_inlined(events):
            """Drop the 'call' record of a helper that was interpreted in place (it is followed by its 'enter'):
            what counts as an effect is what the helper does, not that it was called."""
            out = []
            for i_, ev in enumerate(events):
                if ev[0] == "call" and i_ + 1 < len(events) and events[i_ + 1][0] == "enter" and events[i_ + 1][1] == ev[1]:
                    continue
                if ev[0] in ("enter", "leave"):
                    continue
                out.append(ev)
            return tuple(out)
        for sname, sval in ST.items():
            # private static helpers are interpreted in place; the directory creation stays one opaque step
            ex = absint.Explorer(prog, effects=eff, opaque={"create_proc_dir", "try_clean_dir"}, max_depth=3)
            outs = ex.run(fn, args, {(RP, F("ovni_rproc", "st")): INT(sval)})
            for o in outs:
                o.events = strip_inlined(o.events)
            live = [o for o in outs if o.kind in ("ret", "exit")]
            inst = "%s:from-%s" % (fname, sname)
            if sname == ok_from:
                good = bool(live) and all(o.store.get((RP, F("ovni_rproc", "st"))) == INT(ST[ends]) for o in live)
                ctx.check(good, "R11.3", inst, fn.loc(),
                          "%s from %s does not proceed to %s" % (fname, sname, ends))
                # claiming the state must be one atomic read-modify-write that comes before any effect: a load
                # followed later by a store lets two racing callers both see the old state and both proceed
                claim_bad = []
                for o in live:
                    ats = [(i, ev) for i, ev in enumerate(o.events) if ev[0] == "atomic" and ev[2] == (RP, F("ovni_rproc", "st"))]
                    effs = [i for i, ev in enumerate(o.events)
                            if (ev[0] == "store" and ev[1][0] == RP and ev[1][1] != F("ovni_rproc", "st")) or
                            (ev[0] == "call" and ev[1] not in ("vdie", "verr", "verr_", "vaerr"))]
                    if not ats or "compare_exchange" not in ats[0][1][1]:
                        claim_bad.append("the first access to rproc.st is %s, not a compare-and-swap: two threads calling "
                                         "%s at the same time can both pass the state test" %
                                         (ats[0][1][1] if ats else "missing", fname))
                    elif effs and min(effs) < ats[0][0]:
                        claim_bad.append("effects precede the compare-and-swap that claims the state")
                ctx.check(not claim_bad, "R11.3", "%s:claims-state-atomically" % fname, fn.loc(),
                          "; ".join(sorted(set(claim_bad))))
                if fname == "ovni_proc_init":
                    # writes of the other fields lie between the CAS and the final store
                    bad = []
                    for o in live:
                        idx_at = [i for i, ev in enumerate(o.events) if ev[0] == "atomic"]
                        idx_w = [i for i, ev in enumerate(o.events)
                                 if (ev[0] == "store" and ev[1][0] == RP and ev[1][1] != F("ovni_rproc", "st")) or
                                 (ev[0] == "call" and ev[1] in ("create_proc_dir", "strcpy"))]
                        if not idx_at or len(idx_at) < 2 or not idx_w:
                            bad.append("cannot identify CAS / release store / writes")
                        elif min(idx_w) < idx_at[0] or max(idx_w) > idx_at[-1]:
                            bad.append("a process field is written outside the CAS ... store(READY) window")
                    ctx.check(not bad, "R11.2", "ovni_proc_init:writes-inside-window", fn.loc(), "; ".join(set(bad)))
            else:
                wrote = any(any(ev[0] in ("store",) and ev[1][0] == RP and ev[1][1] != F("ovni_rproc", "st")
                                for ev in o.events) or
                            any(ev[0] == "call" and ev[1] not in ("vdie", "verr") for ev in o.events)
                            for o in outs)
                ctx.check(not live and not wrote, "R11.3", inst, fn.loc(),
                          "%s called in state %s %s" % (fname, sname, "returns normally (a second initialisation / "
                                                        "finalisation takes effect)" if live else
                                                        "has effects before refusing"))

    # ---- R11.2 ----------------------------------------------------------------------------
    init = prog.fn("ovni_proc_init", OV)
    others = [f for f in exported if f is not init]
    reach_wo_init = errflow.reachable_from(prog, reg, others)
    fields = [fld["name"] for fld in prog.records["ovni_rproc"]["fields"] if fld["name"] != "st"]
    for fld in fields:
        ws = eff.writers_of_field("ovni_rproc", fld)
        bad = sorted({f.name for f, n in ws if f.key in reach_wo_init and f is not init})
        ctx.check(not bad, "R11.2", "rproc.%s:written-only-under-proc_init" % fld, OV,
                  "rproc.%s is written by %s, reachable without going through ovni_proc_init" % (fld, bad))
    # functions that receive rproc's buffers as a destination argument
    for f in reach:
        for i, n in enumerate(f.nodes):
            if n["k"] == "CallExpr" and n.get("callee") and prog.resolve(f, n["callee"]) is not None:
                for a in n["args"]:
                    an = f.nodes[f.strip(a)]
                    if an["k"] == "MemberExpr" and an.get("rec") == "ovni_rproc" and an["field"] != "st" \
                            and (an.get("ct") or an.get("t", "")).startswith("char["):
                        callee = prog.resolve(f, n["callee"])
                        ai = n["args"].index(a)
                        if ai >= len(callee.params):
                            continue    # variadic argument of a printf-like diagnostic routine: read only
                        ptype = callee.params[ai]["ctype"]
                        if ptype.startswith("const "):
                            continue    # pointer to const: the callee cannot write through it
                        if f.key in reach_wo_init and f is not init:
                            ctx.fail("R11.2", "rproc.%s:passed-as-buffer@%s" % (an["field"], f.name), f.loc(i),
                                     "rproc.%s is handed to %s (which writes through its arguments) outside "
                                     "ovni_proc_init" % (an["field"], n["callee"]))

    est_memo = {}

    def establishes(g, depth=0):
        """A private static helper every normal return of which has passed a READY test (it dies otherwise):
        calling it is as good as making the test in place."""
        if g.key in est_memo:
            return est_memo[g.key]
        est_memo[g.key] = False
        ok = False
        if g.static and g.file == OV and depth < 3:
            gs = guards_in(g, depth + 1)
            # positions of normal function exit: return statements, or the last element of a void function
            exits = [f_.where_up(r) if False else g.where_up(r) for r in g.returns()]
            if not exits:
                exits = [(b, len(g.elems(b))) for b in g.reachable_blocks() if not [x for x in g.blocks[b]["succs"] if x is not None]]
            ok = bool(gs) and bool(exits) and all(any(g.dominates(gp, ep) for gp in gs) for ep in exits if ep is not None)
        est_memo[g.key] = ok
        return ok

    def guards_in(f, depth=0):
        """CFG positions of READY tests: a read of rthread.ready or an atomic load / CAS on rproc.st
        whose block ends in a branch with a dying arm, or a call of a private helper that makes the test."""
        out = []
        for b, idx, e in f.all_elems():
            n = f.nodes[e]
            is_guard = False
            if n["k"] == "CallExpr" and n.get("callee"):
                g_ = prog.resolve(f, n["callee"])
                if g_ is not None and g_ is not f and establishes(g_, depth):
                    out.append((b, idx))
                    continue
            if n["k"] == "MemberExpr" and n.get("rec") == "ovni_rthread" and n["field"] == "ready":
                is_guard = True
            if n["k"] == "AtomicExpr" and ("load" in n.get("op", "") or "compare_exchange" in n.get("op", "")):
                is_guard = "rproc.st" in f.src(n["c"][0])
            if n["k"] == "CallExpr" and n.get("callee") and depth < 3:
                # a private helper that makes the atomic test and hands the verdict back: the caller's branch
                # on its result (with a dying arm, checked below) is the guard
                g2 = prog.resolve(f, n["callee"])
                if g2 is not None and g2 is not f and g2.static and g2.file == OV and any(
                        m_["k"] == "AtomicExpr" and ("load" in m_.get("op", "") or "compare_exchange" in m_.get("op", ""))
                        and "rproc.st" in g2.src(m_["c"][0]) for m_ in g2.nodes):
                    is_guard = True
            if not is_guard:
                continue
            # walk forward through straight-line / short-circuit blocks to the branch
            blk = b
            for _ in range(4):
                succs = f.blocks[blk]["succs"]
                dying = [s for s in succs if s is not None and s in f.cut and
                         f.blocks[s]["succs"] and True]
                if any(s is not None and s in f.cut for s in succs):
                    out.append((b, idx))
                    break
                nxt = [s for s in succs if s is not None]
                if len(nxt) != 1:
                    break
                blk = nxt[0]
        return out

    memo = {}

    def guarded(f, node, depth=0):
        key = (f.key, node)
        if key in memo:
            return memo[key]
        memo[key] = (True, "")      # cycles: assume ok
        pos = f.where_up(node)
        for g in guards_in(f):
            if f.dominates(g, pos):
                memo[key] = (True, "READY test in %s" % f.name)
                return memo[key]
        if not f.static:
            memo[key] = (False, "%s is exported and reads it without a READY / thread-ready test" % f.name)
            return memo[key]
        if depth > 8:
            memo[key] = (False, "call chain too deep")
            return memo[key]
        sites = [(c, n) for (c, n) in reg.call_sites(f) if c.file == OV]
        if not sites:
            memo[key] = (True, "no caller")
            return memo[key]
        for (c, n) in sites:
            ok, why = guarded(c, n, depth + 1)
            if not ok:
                memo[key] = (False, "via %s: %s" % (c.name, why))
                return memo[key]
        memo[key] = (True, "every call site is guarded")
        return memo[key]

    nreads = 0
    for f in prog.fns_in(OV):
        if f.key not in reach_keys:
            continue
        for i, n in enumerate(f.nodes):
            if n["k"] == "MemberExpr" and n.get("rec") == "ovni_rproc" and n["field"] != "st":
                par = f.parent(i)
                # skip pure writes (left side of an assignment)
                pn = f.nodes[par] if par is not None else None
                if pn is not None and pn["k"] == "BinaryOperator" and pn.get("op") == "=" and pn["c"][0] == i:
                    continue
                if f is init or f.name in ("create_proc_dir",):
                    continue    # inside the initialisation window (R11.2 first clause)
                nreads += 1
                inst = "read:rproc.%s@%s" % (n["field"], f.name)
                exc = sp["unguarded_read_exceptions"].get("%s:%s" % (f.name, n["field"]))
                if exc:
                    ctx.ok("R11.2", inst, f.loc(i), "frozen exception: " + exc, nontrivial=False)
                    continue
                ok, why = guarded(f, i)
                ctx.check(ok, "R11.2", inst, f.loc(i),
                          "rproc.%s can be read while another thread is still inside ovni_proc_init: %s" %
                          (n["field"], why))
    ctx.check(nreads >= 8, "R11.2", "rproc-reads:enumerated", OV, "only %d reads of rproc fields found" % nreads)

    # ---- R11.4 -------------------------------------------------------------------------------
    bad = []
    for f in reach:
        for i, n in enumerate(f.nodes):
            if n["k"] in ("BinaryOperator",) and n.get("op") == "=":
                rhs = n["c"][1]
                if any(f.nodes[j]["k"] == "UnaryOperator" and f.nodes[j].get("op") == "&" and
                       any(f.nodes[k]["k"] == "DeclRefExpr" and f.nodes[k].get("name") == "rthread"
                           for k in f.descendants(j)) for j in f.descendants(rhs)):
                    tg = effects.lvalue_target(f, n["c"][0])
                    if any(t[0] == "global" and not t[2] for t in tg) or \
                            any(t[0] == "field" and t[1] == "ovni_rproc" for t in tg):
                        bad.append(f.loc(i))
    ctx.check(not bad, "R11.4", "rthread:address-does-not-escape", OV,
              "the address of thread-local state is stored in shared memory at %s" % bad)
    creators = sorted({f.name for f in reach for n in f.nodes if n["k"] == "CallExpr" and
                       n.get("callee") in ("pthread_create", "thrd_create", "fork", "clone")})
    ctx.check(not creators, "R11.4", "no-thread-creation", OV, "libovni creates threads/processes in %s" % creators)
    NONREENTRANT = set(sp["non_reentrant_libc"])
    for f in reach:
        for i, n in enumerate(f.nodes):
            if n["k"] == "CallExpr" and n.get("callee") in NONREENTRANT:
                key = "%s:%s" % (f.name, n["callee"])
                if key in sp["non_reentrant_exceptions"]:
                    ctx.ok("R11.4", "libc:%s" % key, f.loc(i), sp["non_reentrant_exceptions"][key], nontrivial=False)
                else:
                    ctx.fail("R11.4", "libc:%s" % key, f.loc(i),
                             "%s() keeps hidden static state and is reachable from the tracing API (%s)" %
                             (n["callee"], f.name))
    ctx.ok("R11.4", "libc:scan", OV, "%d reachable functions scanned for %d non-reentrant routines" %
           (len(reach), len(NONREENTRANT)))


_run_base = run


def run(ctx):
    _run_base(ctx)
    prog = ctx.prog
    ctx.rule("R11.5", "threads are isolated in the file system too: every path that reaches open / fopen / the JSON "
             "serialiser / rename from ovni_thread_init and ovni_attr_flush lies under <procdir>/thread.<tid>/")
    from rules import round4
    round4.check_thread_files_private(ctx, "R11.5")

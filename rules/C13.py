"""C13 — Paraver output is well-formed and self-consistent.

R13.1 every PRV type registered on an output is declared in the matching PCF
R13.2 label coverage: constant values written to labelled channels have labels
R13.3 time is monotone and the header is rewritten from the final time
R13.4 rows: bounds, duplicates, all named, count printed = count declared
R13.5 list traversals in the output-producing code follow the list's own link (every element visited)
"""
from ovsa import absint, effects, modelfx, models
from ovsa.absint import INT, NULL, PTR, TOP


def F(rec, field):
    return ((rec, field),)


SINKS = {"prv_register", "pcf_add_type", "recorder_find_pvt", "recorder_add_pvt", "pcf_add_value",
         "prf_add", "mux_set_default", "pcf_find_type"}


def reach_sinks(prog):
    cg = prog.callgraph()
    ext = {f.key: {n.get("callee") for n in f.nodes if n["k"] == "CallExpr"} for f in prog.functions.values()}
    reach = set()
    changed = True
    while changed:
        changed = False
        for f in prog.functions.values():
            if f.key in reach:
                continue
            if ext[f.key] & SINKS or any(d.key in reach for d in cg[f.key]):
                reach.add(f.key)
                changed = True
    return reach


def make_explorer(prog, eff, reach, field_values, extra_summaries=None):
    def s_find(ex, st, args, f, e):
        if args[1][0] == "str":
            return [(PTR("PVT:" + args[1][1]), {})]
        return [(TOP, {})]

    def s_get(kind):
        def s(ex, st, args, f, e):
            a = args[0]
            if a[0] == "ptr" and isinstance(a[1], str) and a[1].startswith("PVT:"):
                return [(PTR(kind + ":" + a[1][4:]), {})]
            return [(TOP, {})]
        return s

    def s_ok(ex, st, args, f, e):
        return [(INT(0), {})]

    def s_ptr(name):
        def s(ex, st, args, f, e):
            return [(PTR(name), {})]
        return s

    def s_ext(ex, st, args, f, e):
        a = args[0]
        return [(PTR("EXT:%s" % (a[1] if a[0] == "ptr" and isinstance(a[1], str) else "?")), {})]

    def s_val(ex, st, args, f, e):
        return [(("val", "i64", args[0]), {})]

    def s_null(ex, st, args, f, e):
        return [(("val", "null"), {})]

    def unk(cal, args, f, e):
        d = prog.decls.get(cal) if cal else None
        if d and d[0]["ret"].rstrip().endswith("*"):
            return [NULL, PTR("ret:" + cal)]
        return None
    sums = {"recorder_find_pvt": s_find, "recorder_add_pvt": s_find, "pvt_get_prv": s_get("PRV"),
            "pvt_get_pcf": s_get("PCF"), "pvt_get_prf": s_get("PRF"), "prv_register": s_ok,
            "pcf_add_type": s_ptr("PCFTYPE"), "pcf_add_value": s_ptr("PCFVALUE"), "pcf_find_type": s_ptr("PCFTYPE"),
            "extend_get": s_ext, "prf_add": s_ok, "value_int64": s_val, "value_null": s_null,
            "mux_set_default": s_ok, "chan_set": s_ok, "chan_push": s_ok}
    sums.update(extra_summaries or {})
    return absint.Explorer(prog, effects=eff, inline=lambda n, d: d.key in reach and n not in sums,
                           summaries=sums, on_unknown_call=unk, loop_bound=12, max_depth=10,
                           field_values=field_values, max_paths=200000, merge=True)


def out_name(v):
    if v[0] == "ptr" and isinstance(v[1], str) and ":" in v[1]:
        return v[1].split(":", 1)[1]
    return None


def run(ctx):
    prog = ctx.prog
    eff = effects.Effects(prog)
    reach = reach_sinks(prog)
    ctx.rule("R13.1", "for every output (thread, cpu, breakdown traces): the set of PRV types reaching "
             "prv_register on it is a subset of the types reaching pcf_add_type on the same output "
             "(abstract exploration of system_connect and every model's create/connect/finish hooks)")
    ctx.rule("R13.2", "every constant value a model can write to a channel whose PRV type has a label table "
             "(dispatch tables, task-body pushes, connect-time defaults, mux defaults) is in that label table; "
             "constant state values are never written to an unlabelled typed channel; thread states and CPU "
             "affinity values are labelled")
    ctx.rule("R13.3", "prv->time has the single writer prv_advance, which refuses to go backwards; prv_close "
             "seeks to 0 and rewrites the header from prv->time and nrows; every event line is printed by "
             "write_line with prv->time")
    ctx.rule("R13.4", "prf_add refuses out-of-range and duplicate rows and marks the row set; prf_close refuses "
             "unset rows and prints exactly nrows names; breakdown outputs name as many rows as they declare")
    ms = models.discover(prog)

    base = {("SYS", F("system", "threads")): PTR("T1"), ("T1", F("thread", "gnext")): NULL,
            ("T1", F("thread", "is_init")): INT(1), ("T1", F("thread", "gindex")): INT(0),
            ("SYS", F("system", "cpus")): PTR("C1"), ("C1", F("cpu", "next")): NULL,
            ("C1", F("cpu", "is_init")): INT(1), ("C1", F("cpu", "gindex")): INT(0),
            ("C1", F("cpu", "is_virtual")): INT(0), ("SYS", F("system", "ncpus")): INT(3),
            ("SYS", F("system", "nlooms")): INT(1), ("SYS", F("system", "nthreads")): INT(1),
            ("SYS", F("system", "procs")): NULL}

    registered = {}     # output -> {type: where}
    declared = {}
    chan_values = {}    # (model, kind, idx) -> {value: where}
    prf_rows = {}       # output -> set(rows)
    declared_rows = {}  # output -> nrows

    def harvest(ex, tag):
        for ev in ex.event_log:
            if ev[0] != "call":
                continue
            cal, args, fkey, node = ev[1], ev[2], ev[3], ev[4]
            f = prog.functions[fkey]
            if cal == "prv_register":
                o = out_name(args[0])
                t = args[2]
                ctx.need(o is not None, "%s: cannot resolve the output of prv_register (%s)" % (f.loc(node), args[0]))
                ctx.need(t[0] == "int", "%s: cannot resolve the type passed to prv_register (%s) in %s" %
                         (f.loc(node), t, tag))
                registered.setdefault(o, {}).setdefault(t[1], f.loc(node) + " " + f.name)
            elif cal == "pcf_add_type":
                o = out_name(args[0])
                t = args[1]
                ctx.need(o is not None, "%s: cannot resolve the output of pcf_add_type (%s)" % (f.loc(node), args[0]))
                ctx.need(t[0] == "int", "%s: cannot resolve the type passed to pcf_add_type (%s)" % (f.loc(node), t))
                declared.setdefault(o, {}).setdefault(t[1], f.loc(node) + " " + f.name)
            elif cal in ("recorder_add_pvt",):
                if args[1][0] == "str" and args[2][0] == "int":
                    declared_rows[args[1][1]] = args[2][1]
            elif cal == "prf_add":
                o = out_name(args[0])
                if o is not None and args[1][0] == "int":
                    prf_rows.setdefault(o, set()).add(args[1][1])

    # ---- system_connect ---------------------------------------------------------
    ex = make_explorer(prog, eff, reach, {})
    sc = prog.fn("system_connect", "src/emu/system.c")
    outs = ex.run(sc, [PTR("SYS"), PTR("BAY"), PTR("REC")], base)
    ctx.need(any(o.kind == "ret" and o.ret == INT(0) for o in outs), "system_connect: no successful path explored")
    harvest(ex, "system_connect")
    aff_cpu_labelled = any(ev[0] == "call" and ev[1] == "pcf_add_value" and ev[2][1] == INT(1)
                           for ev in ex.event_log)

    # every CPU a thread can be bound to, the loom's virtual CPU included, gets its affinity label
    added = []

    def s_addval(ex_, st, args, f, e, added=added):
        added.append((args[0], args[1]))
        return [(PTR("PCFVALUE"), {})]
    sums2 = {"thread_connect": lambda ex_, st, a, f, e: [(INT(0), {})], "cpu_connect": lambda ex_, st, a, f, e: [(INT(0), {})],
             "prf_add": lambda ex_, st, a, f, e: [(INT(0), {})], "pcf_add_value": s_addval,
             "thread_create_pcf_types": lambda ex_, st, a, f, e: [(INT(0), {})],
             "cpu_create_pcf_types": lambda ex_, st, a, f, e: [(INT(0), {})],
             "thread_get_affinity_pcf_type": lambda ex_, st, a, f, e: [(PTR("AFFTYPE"), {})],
             "recorder_find_pvt": lambda ex_, st, a, f, e: [(PTR("PVT"), {})],
             "recorder_add_pvt": lambda ex_, st, a, f, e: [(PTR("PVT"), {})],
             "pvt_get_pcf": lambda ex_, st, a, f, e: [(PTR("PCF"), {})], "pvt_get_prf": lambda ex_, st, a, f, e: [(PTR("PRF"), {})],
             "snprintf": lambda ex_, st, a, f, e: [(INT(5), {})], "__builtin___snprintf_chk": lambda ex_, st, a, f, e: [(INT(5), {})]}
    ex2 = absint.Explorer(prog, effects=eff, summaries=sums2, loop_bound=6, max_depth=3,
                          inline=lambda n, d: n == "cpu_add_to_pcf_type",
                          on_unknown_call=lambda cal, args, f, e: None)
    store2 = {("SYS", F("system", "threads")): NULL, ("SYS", F("system", "ncpus")): INT(3),
              ("SYS", F("system", "nthreads")): INT(0), ("SYS", F("system", "cpus")): PTR("C1"),
              ("C1", F("cpu", "next")): PTR("C2"), ("C2", F("cpu", "next")): PTR("C3"), ("C3", F("cpu", "next")): NULL}
    for k_, (nm_, virt_) in enumerate((("C1", 0), ("C2", 1), ("C3", 0))):
        store2[(nm_, F("cpu", "gindex"))] = INT(k_)
        store2[(nm_, F("cpu", "is_virtual"))] = INT(virt_)
        store2[(nm_, F("cpu", "is_init"))] = INT(1)
    outs2 = [o for o in ex2.run(sc, [PTR("SYS"), PTR("BAY"), PTR("REC")], store2) if o.kind == "ret" and o.ret == INT(0)]
    vals2 = sorted({v[1] for t, v in added if t == PTR("AFFTYPE") and v[0] == "int"})
    ctx.check(bool(outs2) and vals2 == [1, 2, 3], "R13.2", "cpu-affinity:every-cpu-labelled", sc.loc(),
              "with CPUs of global index 0, 1 (a loom's virtual CPU) and 2, system_connect labels the affinity "
              "values %s; a thread's affinity timeline shows gindex+1 of its CPU, virtual or not, so 1, 2 and 3 "
              "all need a label" % vals2)

    # ---- models: create -> connect -> finish -----------------------------------------
    per_model_events = {}
    for m in ms:
        ths = models.find_spec(prog, m, "thread")
        cps = models.find_spec(prog, m, "cpu")
        fv = {("ovni_mark_emu", "types"): PTR("MT1"),
              ("model_thread", "ch"): PTR("CHARR", (0,)), ("model_cpu", "track"): PTR("CPUTRACKS", (0,)),
              ("model_thread", "track"): PTR("THTRACKS", (0,)),
              # one-element lists: callees that touch *some* hash handle or list
              # link must not make the explorer lose the end of these lists
              ("UT_hash_handle", "next"): NULL, ("thread", "gnext"): NULL, ("cpu", "next"): NULL,
              ("mark_type", "prvtype"): INT(prog.enum_val("PRV_OVNI_MARK") + 5)}
        if ths:
            fv[("model_thread", "spec")] = PTR(("G", ths["file"], ths["name"]))
        if cps:
            fv[("model_cpu", "spec")] = PTR(("G", cps["file"], cps["name"]))
        st0 = {(("EMU", F("emu", "system") + k[1]) if k[0] == "SYS" else k): v for k, v in base.items()}
        st0[("EMU", F("emu", "args") + F("emu_args", "breakdown"))] = INT(1)
        st0[("EMU", F("emu", "finished"))] = INT(1)
        st0[("MT1", F("mark_type", "prvtype"))] = INT(prog.enum_val("PRV_OVNI_MARK") + 5)
        st0[("MT1", F("mark_type", "index"))] = INT(0)
        st0[("MT1", F("mark_type", "hh") + F("UT_hash_handle", "next"))] = NULL
        st0[("MT1", F("mark_type", "labels"))] = NULL
        stores = [st0]
        evs = []
        for hook in ("create", "connect", "finish"):
            hn = m.hooks.get(hook)
            if not hn:
                continue
            hf = prog.fn(hn)
            nxt = []
            for st in stores[:4]:
                ex = make_explorer(prog, eff, reach, fv)
                outs = ex.run(hf, [PTR("EMU")], st)
                harvest(ex, "%s %s" % (m.name, hook))
                evs.extend(ex.event_log)
                for o in outs:
                    if o.kind == "ret" and o.ret == INT(0):
                        nxt.append(o.store)
            ctx.need(nxt, "%s: no successful path through the %s hook explored" % (m.name, hook))
            # distinct stores only
            uniq = {}
            for s_ in nxt:
                uniq.setdefault(frozenset(s_.items()), s_)
            stores = list(uniq.values())
        per_model_events[m.name] = evs

    # ---- R13.1 verdicts -------------------------------------------------------------------
    ctx.need(set(registered) >= {"thread", "cpu"}, "outputs found: %s" % sorted(registered))
    for o in sorted(registered):
        for t in sorted(registered[o]):
            inst = "%s:type%d" % (o, t)
            ctx.check(t in declared.get(o, {}), "R13.1", inst, registered[o][t],
                      "PRV type %d is registered on the '%s' output but no code declares it in %s.pcf "
                      "(declared there: %s)" % (t, o, o, sorted(declared.get(o, {}))))

    # ---- R13.2 ---------------------------------------------------------------------------------
    for m in ms:
        cs = models.chan_spec(prog, m, "thread")
        if cs is None:
            continue
        fx, r, d = modelfx.event_effects(prog, m)
        vals = {}   # idx -> {value: where}
        for mcv, effs in fx.items():
            for (cal, ch, v, where, fn) in effs:
                if cal in ("chan_push", "chan_set") and isinstance(ch, int) and isinstance(v, int):
                    vals.setdefault(ch, {}).setdefault(v, "%s (%s)" % (where, mcv))
        cpu_defaults = {}
        for ev in per_model_events.get(m.name, []):
            if ev[0] != "call":
                continue
            cal, args = ev[1], ev[2]
            f = prog.functions[ev[3]]
            if cal in ("chan_set", "chan_push") and args[0][0] == "ptr" and args[0][1] == "CHARR" and \
                    args[1][0] == "val" and args[1][1] == "i64" and args[1][2][0] == "int":
                vals.setdefault(args[0][2][0], {}).setdefault(args[1][2][1], f.loc(ev[4]) + " (connect)")
            if cal == "mux_set_default" and args[0][0] == "ptr" and args[0][1] == "CPUTRACKS" and \
                    args[1][0] == "val" and args[1][1] == "i64" and args[1][2][0] == "int":
                cpu_defaults.setdefault(args[0][2][0], {}).setdefault(args[1][2][1], f.loc(ev[4]) + " (mux default)")
        for kind, cspec, extra in (("thread", cs, {}), ("cpu", models.chan_spec(prog, m, "cpu"), cpu_defaults)):
            if cspec is None:
                continue
            for idx in range(cspec["nch"]):
                allv = dict(vals.get(idx, {}))
                allv.update(extra.get(idx, {}))
                lab = cspec.get("labels", {}).get(idx)
                typ = cspec.get("type", {}).get(idx, -1)
                for v, where in sorted(allv.items()):
                    inst = "%s:%s:ch%d(%s):value%d" % (m.name, kind, idx, cspec["names"].get(idx), v)
                    if v == 0:
                        continue
                    if lab is None:
                        ctx.check(typ in (-1, None), "R13.2", inst, where,
                                  "constant state value %d is written to channel '%s' whose PRV type %s has no "
                                  "label table" % (v, cspec["names"].get(idx), typ))
                        continue
                    lv = {x for x, _ in lab["values"]}
                    ctx.check(v in lv, "R13.2", inst, where,
                              "value %d can be written to channel '%s' (PRV type %s) but %s has no label for it"
                              % (v, cspec["names"].get(idx), typ, lab["name"]))
    # thread states
    tg = prog.glob("pcf_labels", "src/emu/thread.c")
    st_tab = None
    from ovsa.prog import init_elems
    for i, e in init_elems(tg["init"]).items():
        if e.get("k") == "addr" and i == prog.enum_val("TH_CHAN_STATE"):
            st_tab = models.label_table(prog.glob(e["name"], "src/emu/thread.c"))
    ctx.need(st_tab is not None, "thread state label table not found")
    lv = {v for v, _ in st_tab}
    for name, v in prog.enums["thread_state"]["enumerators"]:
        if v == 0:
            continue
        ctx.check(v in lv, "R13.2", "thread-state:%s" % name, "src/emu/thread.c:%d" % tg["line"],
                  "thread state %s (%d) is shown in the thread-state timeline but has no label" % (name, v))
    ctx.check(aff_cpu_labelled, "R13.2", "cpu-affinity:gindex+1-labelled", sc.loc(),
              "system_connect no longer labels each CPU (gindex+1) in the thread affinity type")

    # ---- task-type labels: every type of every process ends up labelled ----------------------------------
    tcp = prog.fn("task_create_pcf_types", "src/emu/task.c")
    HHn = F("task_type", "hh") + F("UT_hash_handle", "next")
    import itertools as _it
    for present in _it.product((0, 1), repeat=3):
        for collide in ((None,) if not any(present) else (None, present.index(1))):
            added = []

            def s_find(ex_, st, a, f, e, present=present):
                g = a[1][1] - 11 if a[1][0] == "int" else -1
                return [((PTR("PV%d" % g) if 0 <= g < 3 and present[g] else NULL), {})]

            def s_add(ex_, st, a, f, e, added=added):
                added.append(a[1])
                return [(PTR("NEWPV"), {})]

            def s_cmp(ex_, st, a, f, e, collide=collide):
                for x in a[:2]:
                    if x[0] == "ptr" and isinstance(x[1], str) and x[1].startswith("PV") and collide is not None \
                            and x[1] == "PV%d" % collide:
                        return [(INT(1), {})]
                return [(INT(0), {})]
            ext = absint.Explorer(prog, effects=eff, loop_bound=6,
                                  summaries={"pcf_find_value": s_find, "pcf_add_value": s_add, "strcmp": s_cmp})
            store_t = {}
            for k_ in range(3):
                store_t[("TT%d" % k_, F("task_type", "gid"))] = INT(11 + k_)
                store_t[("TT%d" % k_, HHn)] = PTR("TT%d" % (k_ + 1)) if k_ < 2 else NULL
            outs_t = [o for o in ext.run(tcp, [PTR("PCFT"), PTR("TT0")], store_t) if o.kind == "ret"]
            inst = "task_create_pcf_types:already-labelled=%s%s" % ("".join(map(str, present)),
                                                                    "" if collide is None else ":collision@%d" % collide)
            if collide is not None:
                ctx.check(bool(outs_t) and all(o.ret != INT(0) for o in outs_t), "R13.2", inst, tcp.loc(),
                          "two task types with the same value and different labels are accepted")
                continue
            want_add = [INT(11 + k_) for k_ in range(3) if not present[k_]]
            good = bool(outs_t) and all(o.ret == INT(0) for o in outs_t) and added == want_add
            ctx.check(good, "R13.2", inst, tcp.loc(),
                      "of the task types 11, 12, 13 of a process, of which %s already have a label from another process, "
                      "labels are added for %s (expected %s): the task-type timeline would show values without a label" %
                      ([11 + k_ for k_ in range(3) if present[k_]], [str(a_[1]) for a_ in added], [v_[1] for v_ in want_add]))

    # ---- R13.6 the record writer ----------------------------------------------------------------------
    ctx.rule("R13.6", "emit() (prv.c), evaluated on 48 cases of (channel flags, value, same as the last record or "
             "not): writes exactly the record 2:0:1:1:<row>:<time>:<type>:<value> for a new value, treats "
             "duplicates as the flags document (skip / emit / error), adds one under PRV_NEXT, refuses 0 without "
             "PRV_ZERO and writes null as 0; the text is reconstructed from the stdio calls")
    from rules import infra as _infra
    _infra.check_prv_emit(ctx, "R13.6")

    # ---- R13.5 --------------------------------------------------------------------------------------
    ctx.rule("R13.5", "the code that declares types, labels and rows walks each list (threads, processes, CPUs, looms, "
             "mark types, PCF types ...) through the link that list is built with, so that every element is "
             "visited: task-type labels of every process, rows of every CPU (frozen table spec/listlinks.json)")
    from rules import listlinks
    listlinks.check(ctx, "R13.5", lambda file, name: file.startswith("src/emu/") and (
        file.endswith("/setup.c") or file.endswith("/breakdown.c") or file.startswith("src/emu/pv/") or
        file in ("src/emu/system.c", "src/emu/recorder.c", "src/emu/ovni/mark.c", "src/emu/model_cpu.c",
                 "src/emu/model_thread.c", "src/emu/cpu.c", "src/emu/thread.c", "src/emu/loom.c", "src/emu/proc.c",
                 "src/emu/task.c")), minimum=40)

    # ---- R13.3 --------------------------------------------------------------------------------------
    writers = eff.writers_of_field("prv", "time")
    wnames = sorted({f.name for f, n in writers})
    ctx.check(wnames == ["prv_advance"], "R13.3", "prv.time:single-writer", "src/emu/pv/prv.c",
              "prv->time is written by %s; only prv_advance may move time" % wnames)
    adv = prog.fn("prv_advance", "src/emu/pv/prv.c")
    ex = absint.Explorer(prog, effects=eff)
    for (cur, new) in ((10, 9), (10, 10), (10, 11), (0, 0)):
        outs = ex.run(adv, [PTR("PRV"), INT(new)], {("PRV", F("prv", "time")): INT(cur)})
        acc = [o for o in outs if o.kind == "ret" and o.ret == INT(0)]
        inst = "prv_advance:%d->%d" % (cur, new)
        if new < cur:
            ctx.check(not acc, "R13.3", inst, adv.loc(), "time is allowed to go backwards")
        else:
            ctx.check(bool(acc) and all(o.store.get(("PRV", F("prv", "time"))) == INT(new) for o in acc),
                      "R13.3", inst, adv.loc(), "a non-decreasing time step is refused or not recorded")
    # recorder_advance feeds every pvt; its failure propagates
    from ovsa import errflow
    main = prog.fn("main", "src/emu/ovniemu.c")
    ef = errflow.ErrFlow(prog, main)
    ef.propagates(adv)
    for (g, c, where, ok, detail) in ef.checked_sites:
        ctx.check(ok, "R13.3", "propagate:%s->%s" % (g, c), where, "error of %s dropped in %s: %s" % (g, c, detail))
    close = prog.fn("prv_close", "src/emu/pv/prv.c")
    ex = absint.Explorer(prog, effects=eff, inline=lambda n, d: d.file == "src/emu/pv/prv.c")
    outs = ex.run(close, [PTR("PRV")], {("PRV", F("prv", "time")): INT(777), ("PRV", F("prv", "nrows")): INT(5),
                                         ("PRV", F("prv", "file")): PTR("FILE")})
    okc = False
    for o in outs:
        seq = [(ev[1], ev[2]) for ev in o.events if ev[0] == "call" and ev[1] in ("fseek", "fprintf", "fclose", "rewind")]
        names = [s_[0] for s_ in seq]
        if "fprintf" in names and ("fseek" in names or "rewind" in names):
            i_seek = names.index("fseek") if "fseek" in names else names.index("rewind")
            i_pr = names.index("fprintf")
            pargs = seq[i_pr][1]
            seek_ok = i_seek < i_pr and (names[i_seek] == "rewind" or
                                         (seq[i_seek][1][1] == INT(0) and seq[i_seek][1][2] == INT(0)))
            if seek_ok and INT(777) in pargs and INT(5) in pargs and \
                    (("fclose" not in names) or names.index("fclose") > i_pr):
                okc = True
    ctx.check(okc, "R13.3", "prv_close:header-rewritten", close.loc(),
              "prv_close does not seek to the start and rewrite the header with the final time and row count")
    wl = prog.fn("write_line", "src/emu/pv/prv.c")
    ex = absint.Explorer(prog, effects=eff)
    outs = ex.run(wl, [PTR("PRV"), INT(3), INT(13), INT(42)], {("PRV", F("prv", "time")): INT(555),
                                                               ("PRV", F("prv", "file")): PTR("FILE")})
    good = False
    for o in outs:
        for ev in o.events:
            if ev[0] == "call" and ev[1] == "fprintf" and ev[2][0] == PTR("FILE"):
                a = ev[2]
                good = a[1][0] == "str" and a[1][1].startswith("2:") and a[2:] == (INT(3), INT(555), INT(13), INT(42))
    ctx.check(good, "R13.3", "write_line:row-time-type-value", wl.loc(),
              "write_line does not print row, prv->time, type, value in that order")
    printers = sorted({f.name for f in prog.fns_in("src/emu/pv/prv.c")
                       for n in f.nodes if n["k"] == "CallExpr" and n.get("callee") in ("fprintf", "fputs", "fwrite")
                       and not f.in_macro(f.nodes.index(n), "err")})
    ctx.check(printers == ["write_header", "write_line"], "R13.3", "prv.c:printers", "src/emu/pv/prv.c",
              "functions writing to the PRV file: %s (expected only write_header and write_line)" % printers)

    # ---- R13.4 ----------------------------------------------------------------------------------------
    padd = prog.fn("prf_add", "src/emu/pv/prf.c")
    ex = absint.Explorer(prog, effects=eff)
    NR = 4
    for index in (-1, 0, NR - 1, NR, NR + 1):
        for isset in (0, 1):
            store = {("PRF", F("prf", "nrows")): INT(NR), ("PRF", F("prf", "rows")): PTR("ROWS", (0,))}
            for k in range(NR):
                store[("ROWS", (k,) + F("prf_row", "set"))] = INT(isset if k == index else 0)
            outs = ex.run(padd, [PTR("PRF"), INT(index), ("str", "name")], store)
            acc = [o for o in outs if o.kind == "ret" and o.ret == INT(0)]
            inst = "prf_add:index=%d:already-set=%d" % (index, isset)
            if index < 0 or index >= NR:
                ctx.check(not acc, "R13.4", inst, padd.loc(), "row index %d outside [0,%d) is accepted" % (index, NR))
            elif isset:
                ctx.check(not acc, "R13.4", inst, padd.loc(), "a row can be named twice")
            else:
                ctx.check(bool(acc) and all(o.store.get(("ROWS", (index,) + F("prf_row", "set"))) == INT(1) for o in acc),
                          "R13.4", inst, padd.loc(), "a valid row is refused or not marked as set")
    pclose = prog.fn("prf_close", "src/emu/pv/prf.c")

    # the text written to the file is accumulated in the abstract store, whichever stdio routine writes it
    def _piece(st, v):
        if v[0] == "str":
            return v[1]
        if v[0] == "int":
            return str(v[1])
        if v[0] == "ptr":
            path = v[2][:-1] if v[2] and v[2][-1] == 0 else v[2]
            sv = st.store.get((v[1], path))
            if sv is not None and sv[0] == "str":
                return sv[1]
            return "<%s%s>" % (v[1], "".join("[%s]" % (p_ if isinstance(p_, int) else p_[1]) for p_ in path))
        return "<?>"

    def _emit(st, text):
        cur = st.store.get(("OUT", ()), ("str", ""))[1]
        return {("OUT", ()): ("str", cur + text)}

    def s_fprintf(ex_, st, a, f, e):
        if len(a) < 2 or a[1][0] != "str":
            return [(INT(1), _emit(st, "<?>"))]
        import re as _re
        args_ = list(a[2:])
        def sub(m):
            if m.group(0) == "%%":
                return "%"
            return _piece(st, args_.pop(0)) if args_ else "<?>"
        return [(INT(1), _emit(st, _re.sub(r"%%|%[-0-9.]*l*[sdiu]", sub, a[1][1])))]
    out_sums = {"fprintf": s_fprintf, "__fprintf_chk": lambda ex_, st, a, f, e: s_fprintf(ex_, st, [a[0]] + list(a[2:]), f, e),
                "fputs": lambda ex_, st, a, f, e: [(INT(1), _emit(st, _piece(st, a[0])))],
                "fputc": lambda ex_, st, a, f, e: [(a[0], _emit(st, chr(a[0][1]) if a[0][0] == "int" else "<?>"))],
                "putc": lambda ex_, st, a, f, e: [(a[0], _emit(st, chr(a[0][1]) if a[0][0] == "int" else "<?>"))],
                "fclose": lambda ex_, st, a, f, e: [(INT(0), {})]}
    ex = absint.Explorer(prog, effects=eff, loop_bound=6, summaries=out_sums)
    for sets in ((1, 1, 1), (1, 0, 1), (0, 1, 1), (1, 1, 0)):
        store = {("PRF", F("prf", "nrows")): INT(3), ("PRF", F("prf", "rows")): PTR("ROWS", (0,)),
                 ("PRF", F("prf", "f")): PTR("FILE")}
        for k, v in enumerate(sets):
            store[("ROWS", (k,) + F("prf_row", "set"))] = INT(v)
        outs = ex.run(pclose, [PTR("PRF")], store)
        acc = [o for o in outs if o.kind == "ret" and o.ret == INT(0)]
        inst = "prf_close:set=%s" % ("".join(map(str, sets)))
        if 0 in sets:
            ctx.check(not acc, "R13.4", inst, pclose.loc(), "the .row file is written although a row has no name")
        else:
            good = bool(acc)
            texts = set()
            for o in acc:
                text = o.store.get(("OUT", ()), ("str", ""))[1]
                texts.add(text)
                lines = text.split("\n")
                try:
                    k_ = lines.index("LEVEL THREAD SIZE 3")
                except ValueError:
                    good = False
                    continue
                want_lines = ["<ROWS[%d][label]>" % r_ for r_ in range(3)]
                if lines[k_ + 1:k_ + 4] != want_lines or [l_ for l_ in lines[k_ + 4:] if l_.strip()]:
                    good = False
            ctx.check(good, "R13.4", inst, pclose.loc(),
                      "prf_close does not print the declared row count followed by exactly that many names, one per "
                      "line and in row order (it writes %s)" % sorted(texts))
    # breakdown traces: output i goes to row i and the trace declares one row per physical CPU (C20 R20.1's
    # evaluation of the wiring): no record lands on a row beyond the declared count
    from rules import C20 as _c20
    from ovsa.engine import Ctx as _Ctx
    sub20 = _Ctx("C20", prog, ctx.root, "quick")
    from rules.round3 import run_lender as _run_lender
    _run_lender(_c20, sub20, ctx)
    n20 = 0
    for i_ in sub20.instances:
        if i_["rule"] == "R20.1" and ("rows" in i_["inst"] or "physical-cpus-to-rows" in i_["inst"]):
            n20 += 1
            if i_["ok"]:
                ctx.ok("R13.4", "breakdown:" + i_["inst"], i_["where"])
            else:
                ctx.fail("R13.4", "breakdown:" + i_["inst"], i_["where"], i_["what"] +
                         " (records would be written on rows outside the count declared in the header)")
    ctx.need(n20 >= 2 or getattr(sub20, "lender_broken", None), "R13.4: breakdown row instances not found (%d)" % n20)
    for o in sorted(declared_rows):
        if o in ("cpu", "thread"):
            continue
        want = set(range(declared_rows[o]))
        ctx.check(prf_rows.get(o, set()) == want, "R13.4", "%s:rows-named" % o, "src/emu",
                  "output '%s' declares %d rows but names rows %s" % (o, declared_rows[o], sorted(prf_rows.get(o, ()))))
    ctx.note("outputs: registered %s; declared %s" % ({o: sorted(v) for o, v in registered.items()},
                                                     {o: sorted(v) for o, v in declared.items()}))


_run_base = run


def run(ctx):
    ctx.rule("R13.10", "every label of a model's value table reaches the .pcf: create_values, evaluated on 40 labelled "
             "entries, hands each to pcf_add_value; in every label table of the tree all labelled entries come before the "
             "first entry without label, where create_values stops")
    from rules import round6
    round6.check_create_values(ctx, "R13.10")
    round6.check_label_tables_terminated(ctx, "R13.10")
    _run_base(ctx)
    prog = ctx.prog
    ctx.rule("R13.7", "the rows come in the documented order: the comparators that order processes, threads, CPUs and "
             "looms are ascending in their key (C15 R15.3's evaluation of by_pid, by_rank, by_tid, by_phyid, "
             "cmp_loom_rank)")
    from rules import round3
    round3.share(ctx, "R13.7", "C15", lambda i_: i_["rule"] == "R15.3" and (i_["inst"].split(":")[0] in
                 ("by_pid", "by_rank", "by_tid", "by_phyid", "cmp_loom_rank", "cmp_loom_id")), "row-order:",
                 "the .row file and the row numbers no longer follow the documented order", 10)
    ctx.rule("R13.8", "the value printed on the thread's CPU-affinity row has a label: thread_set_cpu and "
             "thread_migrate_cpu publish the CPU's global index and cpu_add_to_pcf_type keys the label with global "
             "index + 1 (evaluated on a CPU whose global, logical and physical numbers differ)")
    from rules import round4
    round4.check_affinity_value_is_gindex(ctx, "R13.8")
    ctx.rule("R13.9", "every type added to a .pcf is written to it, with or without value labels (the function "
             "that writes a type is evaluated on both)")
    from rules import round5
    round5.check_pcf_declares_every_type(ctx, "R13.9")

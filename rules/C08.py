"""C08 — subsystem events nest like a stack and map to documented values.

R8.1 channel stack discipline (chan_push / chan_pop), evaluated on abstract stacks
R8.2 table pairing and injectivity for every enter/leave pair of every model
R8.3 per-model thread-state precondition of every declared event
R8.4 end-of-trace lint on open subsystem / function regions, propagated to exit
"""
import json
import os

from ovsa import absint, effects, errflow, modelfx, models
from ovsa.absint import INT, NULL, PTR, TOP
from ovsa.facts import VERIF


def F(rec, field):
    return ((rec, field),)


def spec():
    with open(os.path.join(VERIF, "spec", "C08.json")) as f:
        return json.load(f)


STK = F("chan", "data") + F("chan_data", "stack")


def chan_store(prog, n, dirty=0, allow_dup=0, ignore_dup=0, ctype="CHAN_STACK"):
    st = {("CH", F("chan", "type")): INT(prog.enum_val(ctype)),
          ("CH", F("chan", "is_dirty")): INT(dirty),
          ("CH", STK + F("chan_stack", "n")): INT(n)}
    for name, v in (("CHAN_DIRTY_WRITE", 0), ("CHAN_ALLOW_DUP", allow_dup), ("CHAN_IGNORE_DUP", ignore_dup)):
        st[("CH", F("chan", "prop") + (prog.enum_val(name),))] = INT(v)
    return st


def run(ctx):
    prog = ctx.prog
    sp = spec()
    eff = effects.Effects(prog)
    ctx.rule("R8.1", "chan_pop succeeds exactly when the stack is non-empty and its top equals the expected value, "
             "and then removes exactly the top; chan_push refuses a full stack, applies the duplicate rule "
             "unless CHAN_ALLOW_DUP, and stores the value at the old top index (evaluated on abstract stacks)")
    ctx.rule("R8.2", "for every model: each declared enter/leave pair (PAIR_x macro or frozen hand-written pair) "
             "pushes and pops the same value on the same channel (or both are ignored); on each channel every "
             "pushed value is pushed by exactly one event and popped by exactly one event")
    ctx.rule("R8.3", "every declared event of a model is accepted only when the thread is in the state the model "
             "requires (frozen table spec/C08.json), evaluated over the 6 consistent (running, active, "
             "out-of-CPU) combinations")
    ctx.rule("R8.4", "models owning a subsystem/function stack channel fail in linter mode when a thread ends "
             "with a non-empty stack on that channel, and the failure reaches main's exit status")

    # ---- R8.1 ------------------------------------------------------------------
    MAXST = None
    rec = prog.records.get("chan_stack")
    ctx.need(rec is not None, "struct chan_stack not found")
    for fld in rec["fields"]:
        if fld["name"] == "values":
            MAXST = fld.get("count")
    ctx.need(MAXST, "cannot determine the capacity of chan_stack.values")
    pop = prog.fn("chan_pop", "src/emu/chan.c")
    push = prog.fn("chan_push", "src/emu/chan.c")
    NLOC = ("CH", STK + F("chan_stack", "n"))

    def run_chan(fn, n, equal, **kw):
        seen = []

        def s_eq(ex_, st, args, f, e):
            seen.append(args)
            return [(INT(equal), {})]

        def s_dirty(ex_, st, args, f, e):
            return [(INT(0), {}), (INT(-1), {})]
        ex = absint.Explorer(prog, effects=eff, summaries={"value_is_equal": s_eq, "set_dirty": s_dirty},
                             inline=lambda nm, d: False)
        outs = ex.run(fn, [PTR("CH"), TOP], chan_store(prog, n, **kw))
        acc = [o for o in outs if o.kind == "ret" and o.ret == INT(0)]
        return outs, acc, seen

    for n in (0, 1, 2, MAXST - 1, MAXST):
        for equal in (0, 1):
            outs, acc, seen = run_chan(pop, n, equal)
            inst = "chan_pop:n=%d:top-%s" % (n, "matches" if equal else "differs")
            should = n > 0 and equal == 1
            if should:
                good = bool(acc) and all(o.store.get(NLOC) == INT(n - 1) for o in acc)
                # the comparison must be against the top element values[n-1]
                top_ok = any(a[0] == PTR("CH", STK + F("chan_stack", "values") + (n - 1,)) or
                             a[1] == PTR("CH", STK + F("chan_stack", "values") + (n - 1,)) for a in seen)
                ctx.check(good and top_ok, "R8.1", inst, pop.loc(),
                          "matching pop on a stack of %d: %s" % (n, "does not remove exactly one element"
                                                                 if not good else
                                                                 "expected value is not compared with the top element"))
            else:
                ctx.check(not acc, "R8.1", inst, pop.loc(),
                          "pop accepted on %s" % ("an empty stack" if n == 0 else "a top that differs from the expected value"))
    outs, acc, _ = run_chan(pop, 2, 1, ctype="CHAN_SINGLE")
    ctx.check(not acc, "R8.1", "chan_pop:non-stack-channel", pop.loc(), "pop accepted on a non-stack channel")
    for n in (0, 1, MAXST - 1, MAXST, MAXST + 1):
        for (equal, allow, ignore) in ((0, 0, 0), (1, 0, 0), (1, 0, 1), (1, 1, 0)):
            outs, acc, seen = run_chan(push, n, equal, allow_dup=allow, ignore_dup=ignore)
            inst = "chan_push:n=%d:dup=%d:allow=%d:ignore=%d" % (n, equal, allow, ignore)
            is_dup = equal and not allow
            if is_dup and not ignore:
                ctx.check(not acc, "R8.1", inst, push.loc(), "duplicate push accepted without CHAN_ALLOW_DUP")
            elif is_dup and ignore:
                ctx.check(bool(acc) and all(o.store.get(NLOC) == INT(n) for o in acc), "R8.1", inst, push.loc(),
                          "ignored duplicate push changes the stack or is refused")
            elif n >= MAXST:
                ctx.check(not acc, "R8.1", inst, push.loc(),
                          "push accepted on a full stack (n=%d, capacity %d): write past values[]" % (n, MAXST))
            else:
                good = bool(acc) and all(o.store.get(NLOC) == INT(n + 1) for o in acc)
                stored = all(any(ev[0] == "store" and ev[1] == ("CH", STK + F("chan_stack", "values") + (n,))
                                 for ev in o.events) for o in acc)
                ctx.check(good and stored, "R8.1", inst, push.loc(),
                          "push on a stack of %d does not store at index %d and grow by one" % (n, n))

    # ---- R8.2 / R8.3 / R8.4 per model ---------------------------------------------
    ms = models.discover(prog)
    main = prog.fn("main", "src/emu/ovniemu.c")
    reg = errflow.Registry(prog)
    for m in ms:
        fx, r, d = modelfx.event_effects(prog, m)
        evfile = m.dir + "/event.c"
        byname = {e.mcv: e for e in m.events}
        cs = models.chan_spec(prog, m, "thread")

        def stack_effects(mcv):
            return [(c, ch, v) for (c, ch, v, w, fn) in fx.get(mcv, []) if c in ("chan_push", "chan_pop")]

        def set_effects(mcv):
            return [(c, ch, v) for (c, ch, v, w, fn) in fx.get(mcv, []) if c == "chan_set"]
        pairs = [(mac, a.mcv, b.mcv) for (mac, a, b) in models.pair_groups(m.events)]
        for (a, b) in sp["handwritten_pairs"].get(m.name, []):
            ctx.need(a in byname and b in byname, "frozen hand-written pair %s/%s no longer declared in %s"
                     % (a, b, m.name))
            pairs.append(("frozen", a, b))
        for (mac, a, b) in pairs:
            inst = "%s:%s/%s" % (m.name, a, b)
            where = "%s:%d" % (m.evlist_global["file"], byname[a].line)
            ea, eb = stack_effects(a), stack_effects(b)
            sa, sb = set_effects(a), set_effects(b)
            if not ea and not eb:
                if not sa and not sb:
                    ctx.ok("R8.2", inst + ":ignored", where, "both events are accepted and ignored", nontrivial=False)
                    continue
                # set / unset idiom (flush): enter sets a non-null constant, leave sets null on the same channel
                good = len(sa) == 1 and len(sb) == 1 and sa[0][1] == sb[0][1] and sa[0][1] is not None and \
                    isinstance(sa[0][2], int) and sa[0][2] != 0 and sb[0][2] == "null"
                ctx.check(good, "R8.2", inst + ":set-unset", where,
                          "enter %s does %s, leave %s does %s: not a set/unset pair on one channel" % (a, sa, b, sb))
                continue
            good = len(ea) == 1 and len(eb) == 1 and ea[0][0] == "chan_push" and eb[0][0] == "chan_pop" \
                and ea[0][1] == eb[0][1] and ea[0][2] == eb[0][2] and ea[0][1] is not None \
                and isinstance(ea[0][2], int)
            what = ""
            if not good:
                what = "enter %s does %s but leave %s does %s: a properly nested %s...%s would be %s" % (
                    a, ea or "nothing", b, eb or "nothing", a, b,
                    "rejected or shown with the wrong value")
            ctx.check(good, "R8.2", inst + ":push-pop", where, what)
        # channel-wide injectivity: (ch, v) -> pushing events / popping events
        pushes, pops = {}, {}
        pv = sp.get("payload_valued_pairs", {}).get(m.name, [])
        for (a, b) in pv:
            ea, eb = stack_effects(a), stack_effects(b)
            good = len(ea) == 1 and len(eb) == 1 and ea[0][0] == "chan_push" and eb[0][0] == "chan_pop" \
                and ea[0][2] is None and eb[0][2] is None
            ctx.check(good, "R8.2", "%s:%s/%s:payload-valued" % (m.name, a, b), evfile,
                      "frozen payload-valued pair: enter does %s, leave does %s" % (ea, eb))
        pv_events = {x for ab in pv for x in ab}
        for e in m.events:
            if e.mcv in pv_events:
                continue
            for (c, ch, v) in stack_effects(e.mcv):
                if ch is None or not isinstance(v, int):
                    ctx.fail("R8.2", "%s:%s:constant-effect" % (m.name, e.mcv), evfile,
                             "%s has a %s whose channel/value is not a constant of the event code" % (e.mcv, c))
                    continue
                (pushes if c == "chan_push" else pops).setdefault((ch, v), set()).add(e.mcv)
        for key in sorted(set(pushes) | set(pops)):
            inst = "%s:ch%d:value%d:one-enter-one-leave" % (m.name, key[0], key[1])
            pu, po = sorted(pushes.get(key, ())), sorted(pops.get(key, ()))
            ctx.check(len(pu) == 1 and len(po) == 1, "R8.2", inst, evfile,
                      "channel %d value %d is pushed by %s and popped by %s: a leave event no longer identifies "
                      "its enter event" % (key[0], key[1], pu or "no event", po or "no event"))
        # stack flag of pushed channels
        if cs is not None:
            for ch in sorted({k[0] for k in pushes}):
                ctx.check(cs["stack"].get(ch, 0) == 1, "R8.2", "%s:ch%d:declared-stack" % (m.name, ch),
                          "%s:%d" % (cs["chan_global"]["file"], cs["chan_global"]["line"]),
                          "channel %d receives push/pop but is not declared as a stack channel (chan_stack[])" % ch)

        # ---- R8.3 ---------------------------------------------------------------
        guard = sp["thread_state_precondition"].get(m.name)
        ctx.need(guard is not None, "no frozen thread-state precondition for model %s" % m.name)
        evfn = prog.fn(m.hooks["event"])
        files = {evfile, m.dir + "/mark.c"}

        def unk(cal, args, f, e):
            dd = prog.decls.get(cal) if cal else None
            if dd and dd[0]["ret"].rstrip().endswith("*"):
                return [NULL, PTR("ret:" + cal)]
            return None
        ex = absint.Explorer(prog, effects=eff, inline=lambda nm, dd: dd.file in files, on_unknown_call=unk,
                             max_depth=2, loop_bound=2, max_paths=50000, auto_inline=False)
        combos = [(0, 0, 0), (0, 1, 0), (1, 1, 0), (0, 0, 1), (0, 1, 1), (1, 1, 1)]
        for e in m.events:
            cv = e.mcv
            bad, bad2, any_acc = [], [], False
            for (run_, act, out) in combos:
                store = {("EMU", F("emu", "thread")): PTR("TH"), ("EMU", F("emu", "ev")): PTR("EV"),
                         ("EV", F("emu_ev", "m")): INT(ord(cv[0])), ("EV", F("emu_ev", "c")): INT(ord(cv[1])),
                         ("EV", F("emu_ev", "v")): INT(ord(cv[2]) if cv[2] != "." else ord("x")),
                         ("TH", F("thread", "is_running")): INT(run_), ("TH", F("thread", "is_active")): INT(act),
                         ("TH", F("thread", "is_out_of_cpu")): INT(out)}
                outs = ex.run(evfn, [PTR("EMU")], store)
                acc = any(o.kind == "ret" and o.ret == INT(0) for o in outs)
                allowed = _guard(guard, run_, act, out)
                if acc and not allowed:
                    bad.append("accepted with running=%d active=%d out_of_cpu=%d" % (run_, act, out))
                any_acc = any_acc or acc
                if allowed and not acc and outs:
                    bad2.append("refused on all %d paths with running=%d active=%d out_of_cpu=%d" % (len(outs), run_, act, out))
            ctx.check(not bad, "R8.3", "%s:%s:requires:%s" % (m.name, cv, guard), evfn.loc(),
                      "%s must only be accepted when the thread is %s, but is %s" % (cv, guard, "; ".join(bad)))
            # only where acceptance is seen to depend on the flags (an event this evaluation cannot follow to an
            # accepting path under any flags says nothing about its guard)
            # the base and kernel models add per-event preconditions of their own (OAs needs an active thread ...),
            # decided by C04 / C05: the converse is claimed for the models whose precondition is the whole story
            if m.name in ("ovni", "kernel"):
                continue
            ctx.check(not (bad2 and any_acc), "R8.3", "%s:%s:accepted-when:%s" % (m.name, cv, guard), evfn.loc(),
                      "%s is legal whenever the thread is %s, but is %s: the guard is stricter than the documented "
                      "precondition (e.g. a cooling or warming thread is active, not running)" % (cv, guard, "; ".join(bad2)))

        # ---- R8.4 --------------------------------------------------------------------
        if cs is None:
            continue
        lint_ch = sorted({k[0] for k in pushes if cs["names"].get(k[0]) in ("subsystem", "function")})
        exempt = sp["lint_exempt_channels"].get(m.name, {})
        for ch in sorted({k[0] for k in pushes} - set(lint_ch)):
            nm = cs["names"].get(ch)
            ctx.need(nm in exempt, "%s: stack channel '%s' receives push/pop, is not a subsystem/function channel "
                     "and has no frozen exemption" % (m.name, nm))
        if not lint_ch:
            continue
        fin = prog.fn(m.hooks["finish"]) if m.hooks.get("finish") else None
        if fin is None:
            ctx.fail("R8.4", "%s:finish-hook" % m.name, "%s:%d" % (m.file, m.line),
                     "model pushes subsystem/function regions but has no finish hook to lint them")
            continue
        for ch in lint_ch:
            for n in (0, 1, 3):
                store = {("EMU", F("emu", "finished")): INT(1),
                         ("EMU", F("emu", "args") + F("emu_args", "linter_mode")): INT(1),
                         ("EMU", F("emu", "system") + F("system", "threads")): PTR("T1"),
                         ("T1", F("thread", "gnext")): NULL,
                         ("T1", F("thread", "tid")): INT(7)}
                for k in range(cs["nch"]):
                    store[("CHARR", (k,) + STK + F("chan_stack", "n"))] = INT(n if k == ch else 0)
                    store[("CHARR", (k,) + F("chan", "type"))] = INT(prog.enum_val("CHAN_STACK"))

                def unk2(cal, args, f, e):
                    if cal == "extend_get":
                        return [PTR("MTH")]
                    return unk(cal, args, f, e)
                ex2 = absint.Explorer(prog, effects=eff, inline=lambda nm, dd: dd.file == fin.file and
                                      dd.name in ("end_lint",) or dd.name == "chan_read",
                                      on_unknown_call=unk2, loop_bound=3, max_paths=50000,
                                      field_values={("model_thread", "ch"): PTR("CHARR", (0,))})
                outs = ex2.run(fin, [PTR("EMU")], store)
                acc = [o for o in outs if o.kind == "ret" and o.ret == INT(0)]
                inst = "%s:lint:ch%d(%s):stacked=%d" % (m.name, ch, cs["names"].get(ch), n)
                if n == 0:
                    ctx.check(bool(acc), "R8.4", inst, fin.loc(), "finish fails in linter mode although no region is open")
                else:
                    ctx.check(not acc, "R8.4", inst, fin.loc(),
                              "in linter mode the trace ends with %d open %s region(s) on a thread and %s still "
                              "succeeds" % (n, cs["names"].get(ch), fin.name))
        # several threads: an open region on any thread of the trace is reported, wherever the clean threads
        # come in the global list
        for ch in lint_ch:
            for opens in ((0, 2), (2, 0), (0, 0, 1), (0, 1, 0)):
                nt = len(opens)
                store = {("EMU", F("emu", "finished")): INT(1),
                         ("EMU", F("emu", "args") + F("emu_args", "linter_mode")): INT(1),
                         ("EMU", F("emu", "system") + F("system", "threads")): PTR("T0")}
                for ti, nopen in enumerate(opens):
                    store[("T%d" % ti, F("thread", "gnext"))] = PTR("T%d" % (ti + 1)) if ti + 1 < nt else NULL
                    store[("T%d" % ti, F("thread", "tid"))] = INT(7 + ti)
                    for k in range(cs["nch"]):
                        store[("CHARR:MTH:T%d" % ti, (k,) + STK + F("chan_stack", "n"))] = INT(nopen if k == ch else 0)
                        store[("CHARR:MTH:T%d" % ti, (k,) + F("chan", "type"))] = INT(prog.enum_val("CHAN_STACK"))

                def unk3(cal, args, f, e):
                    if cal == "extend_get":
                        a0 = args[0]
                        return [PTR("MTH:%s" % (a0[1] if a0[0] == "ptr" else "?"))]
                    return unk(cal, args, f, e)
                ex3 = absint.Explorer(prog, effects=eff, inline=lambda nm, dd: dd.file == fin.file and
                                      dd.name in ("end_lint",) or dd.name == "chan_read",
                                      on_unknown_call=unk3, loop_bound=nt + 2, max_paths=50000,
                                      field_values={("model_thread", "ch"): lambda loc: PTR("CHARR:%s" % loc[0], (0,))})
                outs = ex3.run(fin, [PTR("EMU")], store)
                acc = [o for o in outs if o.kind == "ret" and o.ret == INT(0)]
                ctx.check(bool(outs) and not acc, "R8.4",
                          "%s:lint:ch%d(%s):threads-open=%s" % (m.name, ch, cs["names"].get(ch), "".join(map(str, opens))),
                          fin.loc(), "in linter mode, with threads holding %s open %s region(s) in list order, %s "
                          "succeeds: an open region on a thread that follows a clean one is not reported" %
                          (list(opens), cs["names"].get(ch), fin.name))
        ef = errflow.ErrFlow(prog, main, registry=reg)
        ef.propagates(fin)
        for (g, c, where, ok, detail) in ef.checked_sites:
            ctx.check(ok, "R8.4", "%s:propagate:%s->%s" % (m.name, g, c), where,
                      "error of %s dropped in %s: %s" % (g, c, detail))
    # the flags the preconditions of R8.3 test mean what the thread model documents: is_running exactly in the
    # running state, is_active exactly in running, cooling and warming (C04 R4.3's evaluation of thread_set_state)
    from rules import C04 as _c04
    from ovsa.engine import Ctx as _Ctx
    sub4 = _Ctx("C04", prog, ctx.root, "quick")
    from rules.round3 import run_lender as _run_lender
    _run_lender(_c04, sub4, ctx)
    n4 = 0
    for i_ in sub4.instances:
        if i_["rule"] == "R4.3" and i_["inst"].startswith("thread_set_state:TH_ST_"):
            n4 += 1
            if i_["ok"]:
                ctx.ok("R8.3", "thread-flags:" + i_["inst"], i_["where"])
            else:
                ctx.fail("R8.3", "thread-flags:" + i_["inst"], i_["where"], i_["what"] +
                         " (the models' thread-state preconditions are tested on these flags)")
    ctx.need(n4 >= 6 or getattr(sub4, "lender_broken", None), "R8.3: thread flag instances not found (%d)" % n4)
    # the end-of-trace lint visits every thread
    from rules import listlinks
    listlinks.check(ctx, "R8.4", lambda file, name: file.startswith("src/emu/") and file.endswith("/setup.c") and
                    "lint" in name, minimum=3)
    ctx.rule("R8.5", "the infrastructure the stack discipline rests on: value_is_equal (matching the popped value with the top) compares type and payload, extend_get returns the per-thread state of the model that stored it, chan_read yields the top of the stack")
    from rules import infra
    infra.check_value(ctx, 'R8.5'); infra.check_extend(ctx, 'R8.5'); infra.check_chan_read(ctx, 'R8.5')



def _guard(g, running, active, out):
    if g == "running":
        return bool(running)
    if g == "active":
        return bool(active)
    if g == "active and not out of CPU":
        return bool(active) and not out
    if g == "not out of CPU":
        return not out
    if g == "any":
        return True
    raise ValueError(g)


_run_base = run


def run(ctx):
    _run_base(ctx)
    prog = ctx.prog
    ctx.rule("R8.6", "what the timeline shows is fed through the multiplexers: when the selection changes the previously "
             "selected input is disconnected whatever its index (C06 R6.4's evaluation of cb_select), otherwise a thread "
             "that left a CPU keeps driving that CPU's subsystem row; a model's duplicate table reaches its thread "
             "channels (nested identical regions are legal where the model says so)")
    from rules import round3
    round3.share(ctx, "R8.6", "C06", lambda i_: i_["rule"] == "R6.4" and i_["inst"].startswith("cb_select:"), "mux:",
                 "open regions are shown on a CPU or thread row that no longer runs them", 4)
    round3.check_dup_table_on_thread_spec(ctx, "R8.6")

"""Rules added after the fifth round of seeded changes (tables and constants that are subtly wrong, twins
adapted incompletely, checks on the wrong variable)."""
import itertools
import re

from ovsa import absint, effects, errflow
from ovsa.absint import INT, NULL, PTR, TOP
from ovsa.facts import AnalysisBroken
from rules.round3 import DBG, F, RP, RT, OV, VI, VNULL, share

JSON_PTR_GETTERS = ("json_object_dotget_string", "json_object_get_string", "json_value_get_string",
                    "json_object_dotget_object", "json_object_get_object", "json_object_dotget_array",
                    "json_object_get_array", "json_object_dotget_value", "json_object_get_value",
                    "json_value_get_object", "json_value_get_array", "json_array_get_object", "json_array_get_string",
                    "json_array_get_value", "json_object_get_name", "json_object_get_value_at", "json_string", "json_object",
                    "json_array", "stream_metadata")
STR_SINKS = {"strcmp": (0, 1), "strncmp": (0, 1), "strlen": (0,), "strcpy": (0, 1), "strncpy": (0, 1), "strdup": (0,),
             "memcpy": (0, 1), "__builtin___memcpy_chk": (0, 1), "__builtin___strcpy_chk": (0, 1),
             "__builtin___strncpy_chk": (0, 1), "strtol": (0,), "strtoll": (0,), "strtoul": (0,), "atoi": (0,), "atol": (0,),
             "sscanf": (0,), "__isoc99_sscanf": (0,), "strchr": (0,), "strrchr": (0,), "strstr": (0, 1), "memcmp": (0, 1)}


def check_json_null_safety(ctx, rule):
    """Metadata is arbitrary JSON: every pointer a parson getter returns may be NULL (key missing, wrong type).
    For every such call site in the emulator the enclosing function is explored with that one getter returning
    NULL: NULL must not reach a libc string routine nor be dereferenced."""
    prog = ctx.prog
    eff = effects.Effects(prog)
    n_sites = n_eval = 0
    for f in sorted(prog.functions.values(), key=lambda g: (g.file, g.line)):
        if not f.file.startswith("src/emu/") or not f.file.endswith(".c"):
            continue
        sites = [i for i in f.calls() if f.nodes[i].get("callee") in JSON_PTR_GETTERS and f.nodes[i].get("callee") != "stream_metadata"]
        for k, site in enumerate(sites):
            n_sites += 1
            hits = []

            def mk_sink(name, idxs):
                def s_(ex_, st, a, f_, e):
                    for j in idxs:
                        if j < len(a) and a[j] == NULL:
                            hits.append("%s(argument %d is NULL) at %s" % (name, j + 1, f_.loc(e)))
                    return None
                return s_

            def unk(cal, args, f_, e, site=site, f=f):
                if cal in JSON_PTR_GETTERS:
                    if f_ is f and e == site:
                        return [NULL]
                    return [PTR("J:%s:%d" % (cal, e))]
                d = prog.decls.get(cal) if cal else None
                if d and d[0]["ret"].rstrip().endswith("*"):
                    return [PTR("ret:%s:%d" % (cal, e))]
                return None
            sums = {n: mk_sink(n, ix) for n, ix in STR_SINKS.items()}
            outs = None
            for lb in (2, 1):          # hash-table macros in inlined helpers multiply paths: one loop iteration is enough
                del hits[:]
                ex = absint.Explorer(prog, effects=eff, loop_bound=lb, max_depth=3, max_paths=8000, summaries=sums,
                                     on_unknown_call=unk)
                try:
                    outs = ex.run(f, [PTR("ARG%d" % j) if p["ctype"].rstrip().endswith("*") else TOP for j, p in enumerate(f.params)], {DBG: INT(0)})
                    break
                except AnalysisBroken:
                    outs = None
            if outs is None:
                continue
            reached = any(any(ev[0] == "call" and ev[3] == f.key and ev[4] == site for ev in o.events) for o in outs)
            if not reached:
                continue
            n_eval += 1
            nd = ["%s (%s)" % (d[2], d[3]) for d in ex.null_derefs if d[0] == f.key]
            cal = f.nodes[site].get("callee")
            ctx.check(not hits and not nd, rule, "json-null:%s:%s#%d" % (f.name, cal, k + 1), f.loc(site),
                      "when %s returns NULL here (key missing or of another JSON type) %s: the tool crashes on a metadata "
                      "file instead of reporting it" % (cal, "; ".join(sorted(set(hits + ["dereferences it at " + x for x in nd])))))
    ctx.need(n_eval >= 14, "only %d of %d JSON getter sites could be evaluated" % (n_eval, n_sites))


def check_lookup_null_safety(ctx, rule):
    """A task or type id read from the trace may name nothing: in the task models every function that looks a task
    (type) up is explored with the lookup returning NULL; it must fail without dereferencing the NULL task."""
    prog = ctx.prog
    eff = effects.Effects(prog)
    LOOKUPS = ("task_find", "task_type_find", "body_find")
    n_ = 0
    for model, file in (("nosv", "src/emu/nosv/event.c"), ("nanos6", "src/emu/nanos6/event.c"), ("task", "src/emu/task.c")):
        for f in prog.fns_in(file):
            sites = [i for i in f.calls() if f.nodes[i].get("callee") in LOOKUPS]
            for k, site in enumerate(sites):
                def unk(cal, args, f_, e, site=site, f=f):
                    if cal in LOOKUPS:
                        return [NULL] if (f_ is f and e == site) else [PTR("FOUND:%s:%d" % (cal, e))]
                    if cal == "extend_get":
                        return [PTR("EXT")]
                    d = prog.decls.get(cal) if cal else None
                    if d and d[0]["ret"].rstrip().endswith("*"):
                        return [PTR("ret:%s:%d" % (cal, e))]
                    return None
                ex = absint.Explorer(prog, effects=eff, loop_bound=2, max_depth=3, max_paths=8000, on_unknown_call=unk,
                                     inline=lambda n, d: d.file == "src/emu/task.c" and n not in LOOKUPS and
                                     n in ("task_is_parallel", "task_get_id", "task_get_type", "task_type_get_gid"))
                store = {DBG: INT(0), ("EMU", F("emu", "ev")): PTR("EV"), ("EV", F("emu_ev", "payload")): PTR("PL"),
                         ("EV", F("emu_ev", "payload_size")): INT(16), ("EV", F("emu_ev", "v")): INT(ord("x")),
                         ("EMU", F("emu", "thread")): PTR("TH"), ("EMU", F("emu", "proc")): PTR("PROC")}
                try:
                    args = [PTR("EMU")] + [TOP] * (len(f.params) - 1) if model != "task" else \
                        [PTR("A%d" % j) if p_["ctype"].rstrip().endswith("*") else TOP for j, p_ in enumerate(f.params)]
                    outs = ex.run(f, args, store)
                except AnalysisBroken:
                    continue
                through = [o for o in outs if any(ev[0] == "call" and ev[3] == f.key and ev[4] == site for ev in o.events)]
                if not through:
                    continue
                n_ += 1
                nd = ["%s (%s)" % (d[2], d[3]) for d in ex.null_derefs]
                cal = f.nodes[site].get("callee")
                # creating functions legitimately continue when nothing was found; only the dereference matters
                ctx.check(not nd, rule, "lookup-null:%s:%s:%s#%d" % (model, f.name, cal, k + 1), f.loc(site),
                          "when %s finds nothing (an id the trace never declared) %s dereferences the NULL result at %s: "
                          "ovniemu crashes instead of rejecting the event" % (cal, f.name, "; ".join(sorted(set(nd)))))
    ctx.need(n_ >= 2, "only %d lookup sites evaluated" % n_)


def check_payload_add_tiny(ctx, rule):
    """The size nibble cannot say "one byte" (0 means no payload, k > 0 means k + 1 bytes): a payload that would be
    exactly one byte long must be refused, otherwise the byte is accepted and silently dropped from the stream.
    ovni_payload_add is evaluated on an empty payload with chunks of 1, 0 and -1 bytes."""
    prog = ctx.prog
    eff = effects.Effects(prog)
    pa = prog.fn("ovni_payload_add", OV)
    ps = prog.fn("ovni_payload_size", OV, required=False) or [g for g in prog.functions.values() if g.name == "ovni_payload_size"][0]
    FL = F("ovni_ev", "header") + F("ovni_ev_header", "flags")
    for size in (1, 0, -1):
        ex = absint.Explorer(prog, effects=eff, loop_bound=3, inline=lambda n, d: n in ("ovni_payload_size",),
                             summaries={"memcpy": lambda ex_, st, a, f, e: [(a[0], {})],
                                        "__builtin___memcpy_chk": lambda ex_, st, a, f, e: [(a[0], {})]})
        outs = ex.run(pa, [PTR("EV"), PTR("BUF", (0,)), INT(size)], {("EV", FL): INT(0)})
        rets = [o for o in outs if o.kind in ("ret", "exit")]
        bad = []
        for o in rets:
            fl = o.store.get(("EV", FL))
            enc = None
            if fl is not None and fl[0] == "int":
                enc = 0 if (fl[1] & 0x0f) == 0 else (fl[1] & 0x0f) + 1
            if enc != size or size < 0:
                bad.append("returns with the size field saying %s bytes" % enc)
        ctx.check(bool(outs) and not bad, rule, "ovni_payload_add:empty+%d-bytes" % size, pa.loc(),
                  "adding %d byte(s) to an empty payload %s: the event written does not carry what the caller added" %
                  (size, "; ".join(sorted(set(bad)))))


def check_idle_default(ctx, rule):
    """A CPU without a unique running thread shows the idle default of the quantity.  For the idle view of the task
    models that default is the state labelled "Resting" (nOS-V and Nanos6 agree), never the "Progressing" state a
    thread is given when it starts: the connect hooks are evaluated and the value handed to mux_set_default on the
    CPU's idle track is looked up in the model's own label table."""
    prog = ctx.prog
    eff = effects.Effects(prog)
    from ovsa import models as _m
    n_ = 0
    for m in _m.discover(prog):
        if m.name not in ("nosv", "nanos6"):
            continue
        cs = _m.chan_spec(prog, m, "cpu") or _m.chan_spec(prog, m, "thread")
        idle = [i for i, nm in cs["names"].items() if nm == "idle"]
        if not idle:
            continue
        labels = dict(cs["labels"].get(idle[0], {}).get("values", []))
        fn = prog.fn(m.hooks["connect"])
        defaults, initial = [], []

        def s_def(ex_, st, a, f, e):
            defaults.append(a[1])
            return [(TOP, {})]

        def s_set(ex_, st, a, f, e):
            initial.append(a[1])
            return [(INT(0), {})]
        ex = absint.Explorer(prog, effects=eff, loop_bound=3, max_depth=3,
                             summaries={"mux_set_default": s_def, "chan_set": s_set,
                                        "value_int64": lambda ex_, st, a, f, e: [(("val", "i64", a[0]), {})],
                                        "model_thread_connect": lambda ex_, st, a, f, e: [(INT(0), {})],
                                        "model_cpu_connect": lambda ex_, st, a, f, e: [(INT(0), {})],
                                        "extend_get": lambda ex_, st, a, f, e: [(PTR("EXT:%s" % (a[0][1] if a[0][0] == "ptr" else "?")), {})]},
                             opaque={"model_%s_breakdown_connect" % m.name, "connect_cpu", "connect_thread"})
        store = {DBG: INT(0), ("EMU", F("emu", "system") + F("system", "threads")): PTR("T0"), ("T0", F("thread", "gnext")): NULL,
                 ("EMU", F("emu", "system") + F("system", "cpus")): PTR("C0"), ("C0", F("cpu", "next")): NULL,
                 ("EMU", F("emu", "args") + F("emu_args", "breakdown")): INT(0)}
        try:
            ex.run(fn, [PTR("EMU")], store)
        except AnalysisBroken:
            pass
        vals = sorted({d[2][1] for d in defaults if d[0] == "val" and d[1] == "i64" and d[2][0] == "int"})
        n_ += 1
        ctx.need(vals, "%s: the connect hook sets no idle default on the CPU track" % m.name)
        names = [labels.get(v, "?") for v in vals]
        ctx.check(names == ["Resting"], rule, "%s:cpu-idle-default" % m.name, fn.loc(),
                  "the idle default of the %s CPU track is %s (%s); a CPU without a running thread must show Resting, "
                  "not a value that a running thread publishes" % (m.name, vals, names))
    ctx.need(n_ == 2, "idle default: %d models" % n_)


def check_appid_required(ctx, rule):
    """A process whose streams carry no application id (or an invalid one) is refused: proc_init_end with appid
    0 (never set) and -3 must fail, with a valid one succeed."""
    prog = ctx.prog
    eff = effects.Effects(prog)
    pe = prog.fn("proc_init_end", "src/emu/proc.c")
    for appid, ok in ((0, False), (-3, False), (1, True), (77, True)):
        ex = absint.Explorer(prog, effects=eff)
        outs = [o for o in ex.run(pe, [PTR("P")], {DBG: INT(0), ("P", F("proc", "gindex")): INT(0), ("P", F("proc", "appid")): INT(appid),
                                                   ("P", F("proc", "pid")): INT(5)}) if o.kind == "ret"]
        good = bool(outs) and all((o.ret == INT(0)) == ok for o in outs)
        ctx.check(good, rule, "proc_init_end:appid=%d" % appid, pe.loc(),
                  "a process whose app id is %d (%s) is %s" % (appid, "valid" if ok else "0 = no stream carried ovni.app_id, negative = invalid",
                                                          "refused" if ok else "accepted: a trace without the mandatory app id is emulated"))


def check_pcf_declares_every_type(ctx, rule):
    """Every type added to a .pcf is written to the file, with or without value labels (TID, PID, counters and ids
    have none): the function of pcf.c that writes a type is evaluated on a type with two values and on one with none;
    both must produce an EVENT_TYPE block carrying the type id."""
    prog = ctx.prog
    eff = effects.Effects(prog)
    PC = "src/emu/pv/pcf.c"
    wt = prog.fn("write_type", PC, required=False)
    ctx.need(wt is not None, "pcf.c: write_type not found")
    for nvalues in (2, 0):
        out = []

        def s_fp(ex_, st, a, f, e):
            # fprintf(f, fmt, ...) / __fprintf_chk(f, flag, fmt, ...)
            fmt = [x for x in a if x[0] == "str"]
            out.append((fmt[0][1] if fmt else "?", [x for x in a if x[0] == "int"]))
            return [(INT(1), {})]
        ex = absint.Explorer(prog, effects=eff, loop_bound=5, summaries={"fprintf": s_fp, "__fprintf_chk": s_fp, "fputs": s_fp, "fwrite": s_fp})
        HN = F("pcf_value", "hh") + F("UT_hash_handle", "next")
        store = {DBG: INT(0), ("TY", F("pcf_type", "id")): INT(42), ("TY", F("pcf_type", "nvalues")): INT(nvalues),
                 ("TY", F("pcf_type", "values")): PTR("V0") if nvalues else NULL,
                 ("V0", HN): PTR("V1"), ("V1", HN): NULL, ("V0", F("pcf_value", "value")): INT(1), ("V1", F("pcf_value", "value")): INT(2)}
        ex.run(wt, [PTR("FILE"), PTR("TY")], store)
        text = " ".join(f for f, ints in out)
        has = "EVENT_TYPE" in text and any(INT(42) in ints for f, ints in out)
        ctx.check(has, rule, "pcf:write_type:values=%d" % nvalues, wt.loc(),
                  "a type with %d value label(s) is %s to the .pcf: records of that type in the .prv would use a type the "
                  ".pcf does not declare" % (nvalues, "written" if has else "not written"))


def check_sort_check_mode(ctx, rule):
    """ovnisort -c accepts what ovnisort produces: stream_check on streams with equal consecutive clocks succeeds,
    and fails only on a decreasing pair."""
    prog = ctx.prog
    eff = effects.Effects(prog)
    SO = "src/emu/ovnisort.c"
    sc = prog.fn("stream_check", SO)
    CLK = F("ovni_ev", "header") + F("ovni_ev_header", "clock")
    for clocks in ((5, 5, 7), (5, 7, 7), (3, 3), (5,), (7, 5), (5, 7, 6), ()):
        def s_step(ex_, st, a, f, e, clocks=clocks):
            k = st.store.get(("STEP", ()), INT(0))[1]
            if k < len(clocks):
                return [(INT(0), {("STEP", ()): INT(k + 1), ("S", F("stream", "cur")): PTR("E%d" % k)})]
            return [(INT(1), {("STEP", ()): INT(k + 1)})]
        ex = absint.Explorer(prog, effects=eff, loop_bound=len(clocks) + 3, inline=lambda n, d: n == "ovni_ev_get_clock",
                             summaries={"stream_step": s_step,
                                        "stream_ev": lambda ex_, st, a, f, e: [(st.store.get(("S", F("stream", "cur")), TOP), {})]})
        store = {DBG: INT(0), ("S", F("stream", "relpath")): ("str", "s")}
        for k, c in enumerate(clocks):
            store[("E%d" % k, CLK)] = INT(c)
        outs = [o for o in ex.run(sc, [PTR("S")], store) if o.kind == "ret"]
        sorted_ = all(a <= b for a, b in zip(clocks, clocks[1:]))
        good = bool(outs) and all((o.ret == INT(0)) == sorted_ for o in outs)
        ctx.check(good, rule, "stream_check:clocks=%s" % (",".join(map(str, clocks)) or "none"), sc.loc(),
                  "check mode on a stream with clocks %s returns %s; it must succeed exactly when no clock is lower than "
                  "the one before (equal clocks are sorted: ovnisort itself leaves them)" %
                  (list(clocks), sorted({str(o.ret) for o in outs})))


def check_region_markers(ctx, rule):
    """Only the ovni events OU[ and OU] delimit an unsorted region: the two predicates of ovnisort are evaluated
    on every (model, category, value) over {O, V, 6} x {U, H} x {[, ], x}."""
    prog = ctx.prog
    eff = effects.Effects(prog)
    SO = "src/emu/ovnisort.c"
    HDR = F("ovni_ev", "header")
    n_ = 0
    for name, val in (("starts_unsorted_region", "["), ("ends_unsorted_region", "]")):
        fn = prog.fn(name, SO)
        for m, c, v in itertools.product("OV6", "UH", "[]x"):
            ex = absint.Explorer(prog, effects=eff)
            store = {("E", HDR + F("ovni_ev_header", "model")): INT(ord(m)), ("E", HDR + F("ovni_ev_header", "category")): INT(ord(c)),
                     ("E", HDR + F("ovni_ev_header", "value")): INT(ord(v))}
            outs = [o for o in ex.run(fn, [PTR("E")], store) if o.kind == "ret"]
            want = (m, c, v) == ("O", "U", val)
            n_ += 1
            good = bool(outs) and all(o.ret is not None and o.ret[0] == "int" and (o.ret[1] != 0) == want for o in outs)
            ctx.check(good, rule, "%s:%s%s%s" % (name, m, c, v), fn.loc(),
                      "%s answers %s for the event %s%s%s; only O U %s is a region marker (an event of another model with "
                      "the same category and value inside a region would cut the region short)" %
                      (name, sorted({str(o.ret) for o in outs}), m, c, v, val))
    ctx.need(n_ == 36, "region markers: %d cases" % n_)


def check_every_label_goes_through_add_label(ctx, rule):
    """Label conflicts between threads are decided in add_label (R17.3 evaluates it on concrete strings): every
    label of every stream must be handed to it - also one whose value already has a label - and its refusal must
    fail the parse.  parse_labels is evaluated on two labels with add_label accepting / refusing."""
    prog = ctx.prog
    eff = effects.Effects(prog)
    MK = "src/emu/ovni/mark.c"
    pl = prog.fn("parse_labels", MK)
    for refuse in (None, 0, 1):
        added = []

        def s_add(ex_, st, a, f, e, refuse=refuse):
            added.append(a[1])
            k = len(added) - 1
            return [(INT(-1 if refuse == k else 0), {})]

        def s_name(ex_, st, a, f, e):
            return [(("str", "3" if a[1] == INT(0) else "4"), {})]

        def s_num(ex_, st, a, f, e):
            s_ = a[0][1] if a[0][0] == "str" else None
            if s_ is None or a[1][0] != "ptr":
                return None
            return [(INT(0), {(a[1][1], a[1][2]): INT(int(s_))})]
        ex = absint.Explorer(prog, effects=eff, loop_bound=5, opaque={"add_label"},
                             summaries={"add_label": s_add, "json_object_get_count": lambda ex_, st, a, f, e: [(INT(2), {})],
                                        "json_object_get_name": s_name, "parse_number": s_num,
                                        "json_object_get_value_at": lambda ex_, st, a, f, e: [(PTR("LV"), {})],
                                        "json_value_get_string": lambda ex_, st, a, f, e: [(("str", "label"), {})],
                                        # whatever helper looks an existing label up: it exists already
                                        "find_label": lambda ex_, st, a, f, e: [(PTR("EXISTING"), {})]})
        outs = [o for o in ex.run(pl, [PTR("T"), PTR("LABELS")], {DBG: INT(0)}) if o.kind == "ret"]
        if refuse is None:
            good = bool(outs) and all(o.ret == INT(0) for o in outs) and added == [INT(3), INT(4)]
            what = "with two labels (values 3 and 4, both already labelled by another thread) add_label is asked about %s and " \
                   "parse_labels returns %s; every label must be checked against the existing one" % \
                   ([str(x) for x in added], sorted({str(o.ret) for o in outs}))
        else:
            good = bool(outs) and all(o.ret != INT(0) for o in outs) and len(added) >= refuse + 1
            what = "add_label refuses label #%d (a conflict) but parse_labels returns %s after asking about %s" % \
                   (refuse + 1, sorted({str(o.ret) for o in outs}), [str(x) for x in added])
        ctx.check(good, rule, "parse_labels:%s" % ("all-accepted" if refuse is None else "label-%d-refused" % (refuse + 1)), pl.loc(), what)


def check_type_formats(ctx, rule):
    """ovnidump prints every argument with a conversion of the argument's own signedness and width: the format
    table of ev_spec.c must map U8..U64 to unsigned conversions (u, x, o) and I8..I64 to signed ones (d, i), each with
    the length modifier of its width."""
    prog = ctx.prog
    g = prog.glob("type_fmt", "src/emu/ev_spec.c")
    en = dict(prog.enums["ev_arg_type"]["enumerators"])
    init = g.get("init") or {}
    from ovsa import prog as _p
    by = _p.init_elems(init)
    ctx.need(by, "cannot read the initialiser of type_fmt")
    mods = {8: ("hh", ""), 16: ("h", ""), 32: ("",), 64: ("l", "ll", "j")}    # char and short are promoted to int
    n_ = 0
    for name, idx in sorted(en.items(), key=lambda kv: kv[1]):
        m = re.match(r"^([UI])(8|16|32|64)$", name)
        if not m:
            continue
        v = by.get(idx)
        s_ = v.get("s") if isinstance(v, dict) else None
        ctx.need(s_ is not None, "type_fmt[%s] is not a string literal" % name)
        fm = re.match(r"^%(hh|h|ll|l|j|z|)([diuxXo])$", s_)
        n_ += 1
        good = fm is not None and ((fm.group(2) in "di") == (m.group(1) == "I")) and fm.group(1) in mods[int(m.group(2))]
        ctx.check(good, rule, "type_fmt:%s" % name, "%s:%s" % (g["file"], g["line"]),
                  "arguments of type %s are printed with '%s': a %s %s-bit value needs a %s conversion with length modifier %s, "
                  "otherwise ovnidump shows large values with the wrong sign or truncated" %
                  (name, s_, "signed" if m.group(1) == "I" else "unsigned", m.group(2),
                   "d/i" if m.group(1) == "I" else "u/x/o", "/".join(x or "(none)" for x in mods[int(m.group(2))])))
    ctx.need(n_ == 8, "type_fmt: %d numeric types" % n_)

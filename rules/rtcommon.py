"""Shared exploration of libovni's event buffer functions (E5: linear forms with
symbol ranges + path constraints on top of the E3 path explorer)."""
from ovsa import absint, effects
from ovsa.absint import INT, NULL, PTR, TOP, mk_lin, to_lin

OV = "src/rt/ovni.c"
RT = ("G", OV, "rthread")
RP = ("G", OV, "rproc")

MEMCPY = ("memcpy", "__builtin___memcpy_chk", "__builtin_memcpy")


def F(rec, field):
    return ((rec, field),)


EVLEN = (RT, F("ovni_rthread", "evlen"))
EVBUF = (RT, F("ovni_rthread", "evbuf"))


def buffer_capacity(ctx):
    """The constant passed to malloc() for rthread.evbuf in ovni_thread_init."""
    prog = ctx.prog
    f = prog.fn("ovni_thread_init", OV)
    for i, n in enumerate(f.nodes):
        if n["k"] == "BinaryOperator" and n.get("op") == "=":
            l = f.nodes[f.strip(n["c"][0])]
            if l["k"] == "MemberExpr" and l["field"] == "evbuf":
                r = f.nodes[f.strip(n["c"][1])]
                if r["k"] == "CallExpr" and r.get("callee") == "malloc":
                    v = f.val(r["args"][0])
                    ctx.need(v is not None, "malloc size of evbuf is not a constant")
                    return v
    # the result may pass through a local first (NULL-checked, then stored): the only constant-size malloc of the
    # function is the event buffer
    vals = {f.val(n["args"][0]) for n in f.nodes if n["k"] == "CallExpr" and n.get("callee") == "malloc" and n.get("args")}
    vals.discard(None)
    if len(vals) == 1:
        return vals.pop()
    ctx.broken("cannot find 'rthread.evbuf = malloc(CONST)' in ovni_thread_init")


class RtExplorer:
    """Explorer over ovni.c with the event buffer modelled as object EVBUF of
    `cap` bytes, rthread.evlen a symbol in [0, cap-1], clocks as ordered symbols."""

    def __init__(self, ctx, cap, inline_extra=(), summaries=None, loop_bound=2, max_depth=6):
        self.ctx = ctx
        self.prog = ctx.prog
        self.cap = cap
        self.eff = effects.Effects(ctx.prog)
        self.nclk = 0
        # the flush is observed at the libc boundary (write), whose signature cannot change under a refactor of
        # libovni's own static helpers; that the write loop is complete is R1.3 / R10.3
        sums = {"ovni_clock_now": self._s_clock, "write": self._s_write}
        sums.update(summaries or {})
        self.ex = absint.Explorer(self.prog, effects=self.eff,
                                  inline=lambda n, d: d.file == OV and n not in sums,
                                  summaries=sums, on_call=self._on_call, max_depth=max_depth,
                                  loop_bound=loop_bound, max_paths=20000)

    def _s_clock(self, ex, st, args, f, e):
        self.nclk += 1
        v = ex.sym("clk%d" % self.nclk, 0, 2 ** 62)
        cons = ()
        if self.nclk > 1 and ("clk%d" % (self.nclk - 1)) in ex.syms:
            # clocks are sampled in program order: clk(k-1) <= clk(k)
            cons = (((("clk%d" % (self.nclk - 1), 1), ("clk%d" % self.nclk, -1)), 0),)
        return [(v, {}, cons)]

    def _s_write(self, ex, st, args, f, e):
        # everything asked for is written at once
        return [(args[2] if len(args) > 2 else TOP, {})]

    def _on_call(self, ex, st, f, e, cal, args):
        if cal in MEMCPY and len(args) >= 3:
            src = args[1]
            info = None
            if src[0] == "ptr" and src[2] == ():
                root = src[1]
                hdr = F("ovni_ev", "header")

                def g(fld):
                    k = (root, hdr + F("ovni_ev_header", fld))
                    if k in st.store:
                        return st.store[k]
                    if (root, ("zeroinit",)) in st.store:
                        return INT(0)
                    return TOP
                info = dict(m=g("model"), c=g("category"), v=g("value"), clock=g("clock"), flags=g("flags"))
            st.events = st.events + (("note", "memcpy", dict(fn=f.name, line=f.lineof(e), dest=args[0], src=src,
                                                              n=args[2], cons=st.cons, ev=info,
                                                              evlen=st.store.get(EVLEN, TOP))),)
        elif cal == "write" and len(args) >= 3:
            st.events = st.events + (("note", "flush", dict(fn=f.name, line=f.lineof(e), fd=args[0], buf=args[1], size=args[2],
                                                             cons=st.cons, evlen=st.store.get(EVLEN, TOP))),)

    def base_store(self, evlen=None, ready=1):
        ex = self.ex
        if evlen is None:
            evlen = ex.sym("evlen", 0, self.cap - 1)
        return {(RT, F("ovni_rthread", "ready")): INT(ready), EVLEN: evlen,
                EVBUF: PTR("EVBUF", (0,)), (RP, F("ovni_rproc", "st")): INT(self.prog.enum_val("ST_READY")),
                (RT, F("ovni_rthread", "streamfd")): INT(7)}

    def le(self, cons, a, b):
        """Is a <= b on every valuation allowed by cons?  (True/False/None)"""
        la, lb = to_lin(a), to_lin(b)
        if la is None or lb is None:
            return None
        t = dict(la[1])
        for k, c in lb[1].items():
            t[k] = t.get(k, 0) - c
        return self.ex.decide_cmp(cons, "<=", la[0] - lb[0], {k: c for k, c in t.items() if c})

    def eq(self, cons, a, b):
        la, lb = to_lin(a), to_lin(b)
        if la is None or lb is None:
            return None
        t = dict(la[1])
        for k, c in lb[1].items():
            t[k] = t.get(k, 0) - c
        return self.ex.decide_cmp(cons, "==", la[0] - lb[0], {k: c for k, c in t.items() if c})

    @staticmethod
    def add(a, b):
        la, lb = to_lin(a), to_lin(b)
        if la is None or lb is None:
            return TOP
        t = dict(la[1])
        for k, c in lb[1].items():
            t[k] = t.get(k, 0) + c
        return mk_lin(la[0] + lb[0], t)

    @staticmethod
    def evbuf_offset(dest):
        """Byte offset of a pointer into EVBUF, as a value, or None."""
        if dest[0] != "ptr" or dest[1] != "EVBUF":
            return None
        path = dest[2]
        if len(path) == 1:
            x = path[0]
            if isinstance(x, int):
                return INT(x)
            if isinstance(x, tuple) and x and x[0] in ("lin", "int"):
                return x
        return None


def mcv_of(info):
    if not info:
        return None
    try:
        return "".join(chr(info[k][1]) for k in ("m", "c", "v"))
    except Exception:
        return None


def walk_buffer(rt, o, entry_evlen):
    """Replay one outcome's buffer effects.  Returns (problems, appended) where
    appended is the list of (kind, mcv/None, clock, note) in order and problems
    a list of strings.  Checks tiling (R1.1), bounds (R1.2) and flush
    arguments (R1.3)."""
    probs = []
    appended = []
    cursor = entry_evlen
    cap = INT(rt.cap)
    for ev in o.events:
        if ev[0] == "note" and ev[1] == "flush":
            d = ev[2]
            if d["buf"] != PTR("EVBUF", (0,)):
                probs.append("%s:%d flushes from %s, not from the start of the buffer" % (d["fn"], d["line"], d["buf"]))
            if rt.eq(d["cons"], d["size"], cursor) is not True:
                probs.append("%s:%d flushes %s bytes but %s bytes were appended since the last flush" %
                             (d["fn"], d["line"], _s(d["size"]), _s(cursor)))
            appended.append(("flush", None, None, d))
            cursor = "after-flush"
        elif ev[0] == "store" and ev[1] == EVLEN:
            if cursor == "after-flush":
                if ev[2] != INT(0):
                    probs.append("evlen is set to %s after a flush instead of 0" % _s(ev[2]))
                cursor = INT(0)
        elif ev[0] == "note" and ev[1] == "memcpy":
            d = ev[2]
            off = rt.evbuf_offset(d["dest"])
            if off is None:
                continue
            if cursor == "after-flush":
                probs.append("%s:%d appends before evlen is reset after the flush" % (d["fn"], d["line"]))
                cursor = INT(0)
            if rt.eq(d["cons"], off, cursor) is not True:
                probs.append("%s:%d copies to offset %s but the next free byte is %s (bytes overwritten or a gap)"
                             % (d["fn"], d["line"], _s(off), _s(cursor)))
            end = rt.add(off, d["n"])
            if rt.le(d["cons"], INT(0), off) is not True or rt.le(d["cons"], end, cap) is not True:
                probs.append("%s:%d cannot show offset+length <= %d: offset %s, length %s" %
                             (d["fn"], d["line"], rt.cap, _s(off), _s(d["n"])))
            cursor = rt.add(cursor, d["n"]) if cursor != "after-flush" else d["n"]
            appended.append(("append", mcv_of(d["ev"]), (d["ev"] or {}).get("clock"), d))
    final = o.store.get(EVLEN, TOP)
    if cursor == "after-flush":
        probs.append("function ends between a flush and the reset of evlen")
    elif rt.eq(o.cons, final, cursor) is not True:
        probs.append("evlen ends as %s but %s bytes are in the buffer" % (_s(final), _s(cursor)))
    return probs, appended


def _s(v):
    if isinstance(v, str):
        return v
    if v[0] == "int":
        return str(v[1])
    if v[0] == "lin":
        parts = [str(v[1])] if v[1] else []
        for k, c in v[2]:
            parts.append(("%s" % k) if c == 1 else "%d*%s" % (c, k))
        return " + ".join(parts)
    return str(v)


def shared_static_writes(prog, eff, fns):
    """{(name, is_tls): [(function, node)]}: objects with static storage that the given functions write
    (file-scope globals by effect analysis, function-scope statics by their declaration)."""
    written = {}
    for f in fns:
        for t in eff.direct(f):
            if t[0] == "global":
                written.setdefault((t[1], t[2]), []).append((f, t[-1]))
        for i, n in enumerate(f.nodes):
            if n["k"] == "DeclStmt":
                for d in n["decls"]:
                    if d.get("static") and not d["ctype"].startswith("const"):
                        written.setdefault((d["name"] + "@" + f.name, False), []).append((f, i))
    return written


def private_storage_rule(ctx, rule, what):
    """The bytes of a thread's events travel only through that thread's own storage: no function reachable from
    the tracing API writes an object with static storage that is not thread-local, except the process state
    rproc (written once, under the init protocol of C11)."""
    import json
    import os
    from ovsa import effects as _eff, errflow
    from ovsa.facts import VERIF
    prog = ctx.prog
    eff = _eff.Effects(prog)
    reg = errflow.Registry(prog)
    with open(os.path.join(VERIF, "spec", "C11.json")) as fh:
        exc = json.load(fh).get("shared_write_exceptions", {})
    # the entry points of the library, plus the helpers of compat.c it exports to programs built with it
    exported = [f for f in prog.fns_in(OV) if not f.static] + [f for f in prog.fns_in("src/compat.c") if not f.static]
    reach = [prog.functions[k] for k in errflow.reachable_from(prog, reg, exported)]
    n = 0
    for (name, tls), sites in sorted(shared_static_writes(prog, eff, reach).items()):
        if tls:
            continue
        n += 1
        f0, n0 = sites[0]
        ctx.check(name == "rproc" or name in exc, rule, "thread-private-storage:%s" % name, f0.loc(n0),
                  "%s: '%s' has static storage, is not thread-local and is written by %s, which concurrent tracing "
                  "threads run without a lock: their %s would mix" %
                  (f0.name, name, ", ".join(sorted({f.name for f, _ in sites}))[:120], what))
    ctx.need(len(reach) >= 40, "%s: only %d functions reachable from the tracing API" % (rule, len(reach)))
    ctx.ok(rule, "thread-private-storage:scan", OV, "%d functions reachable from %d exported entry points scanned, "
           "%d shared static objects written" % (len(reach), len(exported), n))

"""Shared rule: a traversal of a list follows the link that list is built with (spec/listlinks.json)."""
import json
import os

from ovsa.facts import VERIF


def _members(f, i):
    out = []
    for j in f.descendants(i, include_self=True):
        n = f.nodes[j]
        if n["k"] == "MemberExpr":
            out.append((n.get("rec"), n["field"]))
    return out


def link_name(ms):
    """(('UT_hash_handle','next'), ('proc','hh')) -> 'proc.hh.next' ; (('proc','gnext'),) -> 'proc.gnext'"""
    ms = list(ms)
    if len(ms) == 2 and ms[0][0] == "UT_hash_handle":
        return "%s.%s.%s" % (ms[1][0], ms[1][1], ms[0][1])
    if len(ms) == 1:
        return "%s.%s" % ms[0]
    return "/".join("%s.%s" % m for m in ms)


def check(ctx, rule, want_file, minimum=1):
    """Every `for (p = <head>; p; p = p-><link>)` loop in the functions selected by want_file(file, name)."""
    with open(os.path.join(VERIF, "spec", "listlinks.json")) as fh:
        heads = json.load(fh)["heads"]
    prog = ctx.prog
    n_ok = 0
    for f in prog.functions.values():
        if not want_file(f.file, f.name):
            continue
        seen = {}
        for i, n in enumerate(f.nodes):
            if n["k"] != "ForStmt" or n.get("init", -1) < 0 or n.get("inc", -1) < 0:
                continue
            hm, im = _members(f, n["init"]), _members(f, n["inc"])
            if not hm or not im:
                continue
            head = "%s.%s" % hm[0]
            if head not in heads:
                continue
            got = link_name(im)
            k = seen[head] = seen.get(head, 0) + 1
            inst = "list-link:%s:%s#%d" % (f.name, head, k)
            ok = got == heads[head]
            n_ok += 1
            ctx.check(ok, rule, inst, f.loc(i),
                      "%s walks the list %s through %s; that list is linked by %s, so the loop visits the wrong "
                      "elements (those of another list the element also belongs to)" % (f.name, head, got, heads[head]))
    ctx.need(n_ok >= minimum, "%s: only %d list traversals found (expected at least %d)" % (rule, n_ok, minimum))
    return n_ok

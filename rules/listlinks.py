"""Shared rule: a traversal of a list follows the link that list is built with (spec/listlinks.json)."""
import json
import os

from ovsa.facts import VERIF


def _members(f, i):
    out = []
    for j in f.descendants(i, include_self=True):
        n = f.nodes[j]
        if n["k"] == "MemberExpr":
            out.append((n.get("rec"), n["field"]))
    return out


def link_name(ms):
    """(('UT_hash_handle','next'), ('proc','hh')) -> 'proc.hh.next' ; (('proc','gnext'),) -> 'proc.gnext'"""
    ms = list(ms)
    if len(ms) == 2 and ms[0][0] == "UT_hash_handle":
        return "%s.%s.%s" % (ms[1][0], ms[1][1], ms[0][1])
    if len(ms) == 1:
        return "%s.%s" % ms[0]
    return "/".join("%s.%s" % m for m in ms)


def _var_of(f, i):
    """Name of the local variable an expression denotes (through casts/parens), or None."""
    n = f.nodes[f.strip(i)]
    if n["k"] == "DeclRefExpr" and n.get("dk") in ("local", "param", None, "var"):
        return n.get("name")
    return None


def traversals(f, heads):
    """[(head, link, node)]: a local pointer that is set from a list head (declaration or assignment) and
    advanced by `p = p-><link>` somewhere in the function, whatever the loop statement looks like."""
    head_of = {}        # variable -> (head name, node)
    steps = []          # (variable, link members, node)
    for i, n in enumerate(f.nodes):
        if n["k"] == "DeclStmt":
            for d in n.get("decls", []):
                if d.get("init", -1) is not None and d.get("init", -1) >= 0:
                    hm = _members(f, d["init"])
                    if hm and "%s.%s" % hm[0] in heads and f.nodes[f.strip(d["init"])]["k"] == "MemberExpr":
                        head_of.setdefault(d["name"], []).append(("%s.%s" % hm[0], i))
        elif n["k"] == "BinaryOperator" and n.get("op") == "=":
            v = _var_of(f, n["c"][0])
            if v is None:
                continue
            rhs = f.nodes[f.strip(n["c"][1])]
            ms = _members(f, n["c"][1])
            if rhs["k"] != "MemberExpr" or not ms:
                continue
            # rhs rooted at the same variable: a step; rooted elsewhere and naming a head: a (re)start
            root = None
            for j in f.descendants(n["c"][1], include_self=True):
                if f.nodes[j]["k"] == "DeclRefExpr":
                    root = f.nodes[j].get("name")
            if root == v:
                steps.append((v, tuple(ms), i))
            elif "%s.%s" % ms[0] in heads:
                head_of.setdefault(v, []).append(("%s.%s" % ms[0], i))
    out = []
    for v, ms, i in steps:
        hs = {h for h, _ in head_of.get(v, [])}
        if len(hs) == 1:
            out.append((list(hs)[0], link_name(ms), i))
    return out


def check(ctx, rule, want_file, minimum=1):
    """Every traversal `p = <head>; ... p = p-><link>` in the functions selected by want_file(file, name)."""
    with open(os.path.join(VERIF, "spec", "listlinks.json")) as fh:
        heads = json.load(fh)["heads"]
    prog = ctx.prog
    n_ok = 0
    for f in prog.functions.values():
        if not want_file(f.file, f.name):
            continue
        seen = {}
        for head, got, i in traversals(f, heads):
            k = seen[head] = seen.get(head, 0) + 1
            inst = "list-link:%s:%s#%d" % (f.name, head, k)
            n_ok += 1
            ctx.check(got == heads[head], rule, inst, f.loc(i),
                      "%s walks the list %s through %s; that list is linked by %s, so the loop visits the wrong "
                      "elements (those of another list the element also belongs to)" % (f.name, head, got, heads[head]))
    ctx.need(n_ok >= minimum, "%s: only %d list traversals found (expected at least %d)" % (rule, n_ok, minimum))
    return n_ok

"""C09 — crash consistency: the finished marker is issued last.

R9.1 the marker is written only at thread end, after which nothing more is written to the stream
R9.2 relocation (OVNI_TMPDIR) moves the file carrying the marker last, and only if every other
     file of the stream reached the final directory
R9.3 the emulator rejects a stream without the marker, and that failure reaches the exit status
R9.4 the metadata file is written next to the event stream (same directory, the one that is relocated), so
     the marker never reaches the final place ahead of the data
"""
import itertools

from ovsa import absint, effects, errflow
from ovsa.absint import INT, NULL, PTR, TOP

OV = "src/rt/ovni.c"
RT = ("G", OV, "rthread")
RP = ("G", OV, "rproc")
MARK = "ovni.finished"


def F(rec, field):
    return ((rec, field),)


def run(ctx):
    prog = ctx.prog
    eff = effects.Effects(prog)
    reg = errflow.Registry(prog)
    ctx.rule("R9.1", "the key 'ovni.finished' is set only in ovni_thread_free; on every path there the metadata "
             "is stored after it is set, and no call that can reach write_evbuf follows that store")
    ctx.rule("R9.2", "move_thdir_to_final, evaluated on both directory enumeration orders and on success/failure "
             "of each copy: the metadata file (which carries the marker) is moved after every other stream file "
             "and is not moved at all when one of them failed")
    ctx.rule("R9.3", "thread_load_metadata accepts a stream only when ovni.finished == 1, and its failure "
             "propagates to ovniemu's exit status")

    # ---- R9.1 -----------------------------------------------------------------------
    setters = ("json_object_dotset_number", "json_object_dotset_string", "json_object_dotset_value",
               "json_object_dotset_boolean")
    sites = []
    for f in prog.functions.values():
        if not f.file.startswith("src/rt/") and f.file != "src/common.c":
            continue
        for i, n in enumerate(f.nodes):
            if n["k"] == "CallExpr" and n.get("callee") in setters and len(n["args"]) >= 2:
                a = f.nodes[f.strip(n["args"][1])]
                if a["k"] == "StringLiteral" and a["s"] == MARK:
                    sites.append((f, i))
    free_ok = prog.helper_closure({"ovni_thread_free"}, OV)
    ctx.check(len(sites) >= 1 and all(f.name in free_ok and f.file == OV for f, i in sites), "R9.1",
              "marker:single-writer", OV, "'%s' is set in %s, outside ovni_thread_free and its private helpers" %
              (MARK, [(f.name, f.loc(i)) for f, i in sites if not (f.name in free_ok and f.file == OV)]))
    # generic attribute setters take the key from the caller: they could set the marker early
    # only if the user asks for it; libovni itself passes no such literal (checked above)
    tf = prog.fn("ovni_thread_free", OV)
    cg = prog.callgraph()
    wev = prog.fn("write_evbuf", OV)

    def reaches_write(name):
        d = prog.resolve(tf, name)
        if d is None:
            return name in ("write", "pwrite", "fwrite") and False
        return wev.key in {g.key for g in prog.reachable_fns([d])}
    # private helpers are interpreted (their calls appear in order in the trace of the path); the big
    # sub-steps stay opaque calls
    ex = absint.Explorer(prog, effects=eff, loop_bound=2, max_depth=3,
                         opaque={"move_thdir_to_final", "thread_metadata_store", "flush_evbuf", "set_thread_rank",
                                 "set_thread_cpus", "write_evbuf"},
                         summaries={"json_value_get_object": lambda ex_, st, args, f, e: [(PTR("META"), {})]})
    store = {(RT, F("ovni_rthread", "ready")): INT(1), (RT, F("ovni_rthread", "finished")): INT(0)}
    outs = [o for o in ex.run(tf, [], store) if o.kind in ("ret", "exit")]
    ctx.need(outs, "ovni_thread_free: no returning path")
    for k, o in enumerate(outs):
        calls = [(ev[1], ev[2]) for ev in o.events if ev[0] == "call"]
        names = [c[0] for c in calls]
        mark_i = [i for i, c in enumerate(calls) if c[0] in setters and len(c[1]) > 1 and c[1][1] == ("str", MARK)]
        store_i = [i for i, c in enumerate(calls) if c[0] == "thread_metadata_store"]
        inst = "ovni_thread_free:path%d" % (k + 1)
        bad = []
        if not mark_i:
            bad.append("the stream is never marked finished")
        elif not [i for i in store_i if i > mark_i[-1]]:
            bad.append("the metadata is not stored after the marker is set")
        else:
            last_store = max(i for i in store_i if i > mark_i[-1])
            late = [n for n in names[last_store + 1:] if reaches_write(n)]
            if late:
                bad.append("after the finished marker is on disk the thread can still write events through %s" % late)
            if mark_i[-1] and calls[mark_i[-1]][1][2] not in (INT(1), ("top",)) and \
                    not (calls[mark_i[-1]][1][2][0] == "int" and calls[mark_i[-1]][1][2][1] == 1):
                bad.append("marker value is %s" % (calls[mark_i[-1]][1][2],))
        ctx.check(not bad, "R9.1", inst, tf.loc(), "; ".join(bad))
    # the initial store (thread_metadata_init) cannot carry the marker: no marker setter is
    # reachable from ovni_thread_init
    ti = prog.fn("ovni_thread_init", OV)
    reach = {g.key for g in prog.reachable_fns([ti])}
    ctx.check(sites and not any(f.key in reach for f, i in sites), "R9.1", "marker:not-in-initial-metadata", ti.loc(),
              "the function setting '%s' is reachable from ovni_thread_init" % MARK)

    # ---- R9.2 ---------------------------------------------------------------------------
    mv = prog.fn("move_thdir_to_final", OV)
    files_sets = (["stream.json", "stream.obs"], ["stream.obs", "stream.json"],
                  ["stream.json", "stream.obs", "stream.extra"], ["stream.extra", "stream.json", "stream.obs"])
    for order in files_sets:
        others = [x for x in order if x != "stream.json"]
        for failing in [None] + others + ["stream.json"]:
            moves = []
            idx = {"i": 0}

            def s_readdir(ex_, st, args, f, e, order=order, idx=idx):
                i = idx["i"]
                idx["i"] += 1
                if i >= len(order):
                    return [(NULL, {})]
                return [(PTR("DE%d" % i), {("DE%d" % i, F("dirent", "d_name")): ("str", order[i])})]

            def strval(st, a):
                if a[0] == "str":
                    return a[1]
                if a[0] == "ptr":
                    path = a[2][:-1] if a[2] and a[2][-1] == 0 else a[2]
                    v = st.store.get((a[1], path))
                    if v and v[0] == "str":
                        return v[1]
                return None

            def s_snprintf(ex_, st, args, f, e):
                fmt = strval(st, args[2]) if len(args) > 2 else None
                vals = [strval(st, a) for a in args[3:]]
                d = args[0]
                if fmt is None or any(v is None for v in vals) or d[0] != "ptr":
                    return None
                try:
                    out = fmt % tuple(vals)
                except Exception:
                    return None
                path = d[2][:-1] if d[2] and d[2][-1] == 0 else d[2]
                return [(INT(len(out)), {(d[1], path): ("str", out)})]

            def s_strcmp(ex_, st, args, f, e):
                a, b = strval(st, args[0]), strval(st, args[1])
                if a is None or b is None:
                    return None
                return [(INT(0 if a == b else (1 if a > b else -1)), {})]

            def s_strncmp(ex_, st, args, f, e):
                a, b = strval(st, args[0]), strval(st, args[1])
                if a is None or b is None or args[2][0] != "int":
                    return None
                n = args[2][1]
                return [(INT(0 if a[:n] == b[:n] else 1), {})]

            def s_strlen(ex_, st, args, f, e):
                a = strval(st, args[0])
                return None if a is None else [(INT(len(a)), {})]

            def s_move(ex_, st, args, f, e, failing=failing, moves=moves):
                src, dst = strval(st, args[0]), strval(st, args[1])
                moves.append((src, dst))
                name = (src or "").rsplit("/", 1)[-1]
                return [(INT(-1 if name == failing else 0), {})]
            sums = {"readdir": s_readdir, "snprintf": s_snprintf, "__builtin___snprintf_chk": s_snprintf,
                    "strcmp": s_strcmp, "strncmp": s_strncmp, "strlen": s_strlen,
                    "move_thread_to_final": s_move,
                    "opendir": lambda ex_, st, args, f, e: [(PTR("DIR"), {})],
                    "closedir": lambda ex_, st, args, f, e: [(INT(0), {})]}
            ex2 = absint.Explorer(prog, effects=eff, inline=lambda n, d: d.file == OV and n not in sums,
                                  summaries=sums, loop_bound=len(order) + 40, max_depth=3)
            outs = ex2.run(mv, [("str", "TMP"), ("str", "FINAL")], {})
            inst = "relocate:readdir=[%s]:failing=%s" % (",".join(x[7:] for x in order), failing and failing[7:])
            ctx.need(all(m[0] for m in moves), "move_thdir_to_final: cannot resolve the path of a moved file (%s)" % moves)
            names = [m[0].rsplit("/", 1)[-1] for m in moves]
            bad = []
            if any(not (m[0] == "TMP/" + n and m[1] == "FINAL/" + n) for m, n in zip(moves, names)):
                bad.append("a file is moved between the wrong places: %s" % moves)
            if "stream.json" in names:
                if names[-1] != "stream.json" or names.count("stream.json") != 1:
                    bad.append("the metadata file (finished marker) is moved before %s" %
                               names[names.index("stream.json") + 1:])
                if failing in others:
                    bad.append("the metadata file (finished marker) reaches the final directory although "
                               "moving %s failed" % failing)
            elif failing is None or failing == "stream.json":
                bad.append("the metadata file is never moved")
            if failing is None and sorted(names) != sorted(order):
                bad.append("moved %s of %s" % (names, order))
            ctx.check(not bad, "R9.2", inst, mv.loc(), "; ".join(bad))

    # ---- R9.2 (each copy is complete before the next file is touched) -----------------------------------
    # move_thread_to_final on its successful path: the destination stream opened for writing is closed (its
    # buffered tail reaches the file) before the function returns 0 and before the source is removed; otherwise
    # the tail is written at exit, after the metadata of the same stream has been moved
    mtf = prog.fn("move_thread_to_final", OV)

    def s_fopen9(ex_, st, args, f_, e):
        mode = args[1][1] if len(args) > 1 and args[1][0] == "str" else "?"
        return [(PTR("FILE:" + mode), {})]
    sums9 = {"fopen": s_fopen9, "fdopen": s_fopen9, "open": lambda ex_, st, a, f_, e: [(INT(9), {})],
             "fsync": lambda ex_, st, a, f_, e: [(INT(0), {})], "fread": lambda ex_, st, a, f_, e: [(INT(0), {})],
             "ferror": lambda ex_, st, a, f_, e: [(INT(0), {})], "fclose": lambda ex_, st, a, f_, e: [(INT(0), {})],
             "fflush": lambda ex_, st, a, f_, e: [(INT(0), {})], "remove": lambda ex_, st, a, f_, e: [(INT(0), {})]}
    ex9 = absint.Explorer(prog, effects=eff, summaries=sums9, loop_bound=3)
    outs9 = [o for o in ex9.run(mtf, [("str", "TMP/stream.obs"), ("str", "FINAL/stream.obs")], {})
             if o.kind == "ret" and o.ret == INT(0)]
    ctx.need(outs9, "move_thread_to_final: no successful path")
    bad9 = []
    for o in outs9:
        calls = [(ev[1], ev[2]) for ev in o.events if ev[0] == "call"]
        closes = [i for i, c in enumerate(calls) if c[0] in ("fclose", "fflush") and c[1] and c[1][0] == PTR("FILE:w")]
        removes = [i for i, c in enumerate(calls) if c[0] in ("remove", "unlink")]
        if not closes:
            bad9.append("returns success without closing (flushing) the destination file: the end of the copy stays in "
                        "a stdio buffer until the process exits")
        elif removes and min(removes) < closes[0]:
            bad9.append("removes the source before the destination is closed")
    ctx.check(not bad9, "R9.2", "move_thread_to_final:copy-complete-on-return", mtf.loc(), "; ".join(sorted(set(bad9))))

    # ---- R9.4 ---------------------------------------------------------------------------------
    ctx.rule("R9.4", "create_trace_stream opens <procdir>/thread.<tid>/stream.obs and thread_metadata_store writes "
             "<procdir>/thread.<tid>/stream.json with the same procdir (the temporary one when OVNI_TMPDIR is in "
             "use), evaluated with and without relocation: the marker is stored beside the data and only the "
             "relocation of R9.2 brings it to the final directory")

    def strval2(st, a):
        if a[0] == "str":
            return a[1]
        if a[0] == "int":
            return a[1]
        if a[0] == "ptr":
            path = a[2][:-1] if a[2] and a[2][-1] == 0 else a[2]
            v = st.store.get((a[1], path))
            if v and v[0] == "str":
                return v[1]
        return None

    def s_snprintf2(ex_, st, args, f, e):
        fmt = strval2(st, args[2]) if len(args) > 2 else None
        vals = [strval2(st, a) for a in args[3:]]
        d = args[0]
        if fmt is None or any(v is None for v in vals) or d[0] != "ptr":
            return None
        try:
            out = fmt % tuple(vals)
        except Exception:
            return None
        path = d[2][:-1] if d[2] and d[2][-1] == 0 else d[2]
        return [(INT(len(out)), {(d[1], path): ("str", out)})]
    for relocating in (0, 1):
        got = {}

        def s_open(ex_, st, args, f, e, got=got):
            got["obs"] = strval2(st, args[0])
            return [(INT(9), {})]

        def s_ser(ex_, st, args, f, e, got=got):
            got["json"] = strval2(st, args[1])
            return [(INT(0), {})]
        ex4 = absint.Explorer(prog, effects=eff, summaries={"snprintf": s_snprintf2, "__builtin___snprintf_chk": s_snprintf2,
                                                           "open": s_open, "json_serialize_to_file_pretty": s_ser})
        store = {(RP, F("ovni_rproc", "procdir")): ("str", "TMP" if relocating else "FINAL"),
                 (RP, F("ovni_rproc", "procdir_final")): ("str", "FINAL"),
                 (RP, F("ovni_rproc", "move_to_final")): INT(relocating),
                 (RT, F("ovni_rthread", "tid")): INT(5), (RT, F("ovni_rthread", "meta")): PTR("META")}
        # entered through exported functions (ovni_thread_init opens the stream, ovni_attr_flush stores the
        # metadata), with the private helpers interpreted in place whatever their parameters are
        ti4 = prog.fn("ovni_thread_init", OV)
        af4 = prog.fn("ovni_attr_flush", OV)
        tms = prog.fn("thread_metadata_store", OV)
        ex4.loop_bound = 2
        ex4.max_depth = 5
        ex4.max_paths = 60000
        store[(RT, F("ovni_rthread", "ready"))] = INT(0)
        store[(RT, F("ovni_rthread", "finished"))] = INT(0)
        store[(RP, F("ovni_rproc", "st"))] = INT(prog.enum_val("ST_READY"))
        ex4.summaries.update({"malloc": lambda ex_, st, a, f, e: [(PTR("EVB", (0,)), {})],
                              "write": lambda ex_, st, a, f, e: [(a[2] if len(a) > 2 else TOP, {})],
                              "mkdir": lambda ex_, st, a, f, e: [(INT(0), {})],
                              "mkpath": lambda ex_, st, a, f, e: [(INT(0), {})]})
        o1 = [o for o in ex4.run(ti4, [INT(5)], store) if o.kind in ("ret", "exit")]
        got_init = dict(got)
        store2 = dict(store)
        store2[(RT, F("ovni_rthread", "ready"))] = INT(1)
        o2 = [o for o in ex4.run(af4, [], store2) if o.kind in ("ret", "exit")]
        got["obs"] = got_init.get("obs")
        ctx.need(o1 and o2 and got.get("obs") and got.get("json"),
                 "cannot resolve the paths of the stream / metadata files (%s)" % got)
        want = "TMP" if relocating else "FINAL"
        good = got["obs"] == want + "/thread.5/stream.obs" and got["json"] == want + "/thread.5/stream.json"
        ctx.check(good, "R9.4", "paths:relocating=%d" % relocating, tms.loc(),
                  "with%s relocation the event stream is %s and the metadata (finished marker) is %s; expected both in "
                  "%s/thread.5" % ("" if relocating else "out", got["obs"], got["json"], want))

    # ---- R9.3 ---------------------------------------------------------------------------------
    tl = prog.fn("thread_load_metadata", "src/emu/thread.c")
    asked = []

    def s_num(ex_, st, args, f, e, val=None):
        # the value of the marker key; any other number the loader may read is fine
        if len(args) > 1 and args[1] == ("str", MARK):
            asked.append(f.name)
            return [(INT(val), {})]
        return [(INT(1), {})]
    for val in (0, 1, 2):
        ex3 = absint.Explorer(prog, effects=eff, summaries={
            "json_object_dotget_number": lambda ex_, st, args, f, e, val=val: s_num(ex_, st, args, f, e, val),
            "stream_metadata": lambda ex_, st, args, f, e: [(PTR("META"), {})]})
        outs = ex3.run(tl, [PTR("TH"), PTR("STREAM")], {("TH", F("thread", "meta")): NULL})
        acc = [o for o in outs if o.kind == "ret" and o.ret == INT(0)]
        if val == 1:
            ctx.check(bool(acc), "R9.3", "thread_load_metadata:finished=1", tl.loc(), "a finished stream is rejected")
        else:
            ctx.check(not acc, "R9.3", "thread_load_metadata:finished=%d" % val, tl.loc(),
                      "a stream whose ovni.finished is %d is accepted" % val)
    key_ok = bool(asked)      # whichever private helper does the reading
    ctx.check(key_ok, "R9.3", "thread_load_metadata:reads-marker-key", tl.loc(),
              "thread_load_metadata does not read '%s'" % MARK)
    main = prog.fn("main", "src/emu/ovniemu.c")
    ef = errflow.ErrFlow(prog, main, registry=reg)
    ef.propagates(tl)
    for (g, c, where, ok, detail) in ef.checked_sites:
        ctx.check(ok, "R9.3", "propagate:%s->%s" % (g, c), where, "error of %s dropped in %s: %s" % (g, c, detail))


_run_base = run


def run(ctx):
    _run_base(ctx)
    prog = ctx.prog
    ctx.rule("R9.5", "every thread is relocated into its own final directory: for thread 5 of process 77 the temporary "
             "and the final thread directories are <procdir>/thread.5 (two threads sharing a final directory would "
             "overwrite a stream that is already marked finished)")
    from rules import round4
    round4.check_final_thread_dir(ctx, "R9.5")
    ctx.rule("R9.6", "the marker never stands beside less than was flushed because of an unnoticed write fault: a flush "
             "writes the whole buffer or dies (C10 R10.3), and the relocating copy checks every write and the close of "
             "the destination (C10 R10.1 / R10.2 instances for move_thread_to_final)")
    from rules import round5
    round5.share(ctx, "R9.6", "C10", lambda i_: (i_["rule"] == "R10.3") or
                 (i_["rule"] in ("R10.1", "R10.2") and "move_thread_to_final" in i_["inst"]), "write-fault:",
                 "a stream marked finished lacks bytes that were flushed", 6)
    ctx.rule("R9.7", "a stream cut short is not emulated as complete: at the end of the trace every thread must be dead "
             "(C04 R4.4's evaluation of model_ovni_finish on all state combinations), so a stream truncated while its "
             "thread is paused or running is rejected")
    from rules import round6
    round6.share(ctx, "R9.7", "C04", lambda i_: i_["rule"] == "R4.4" and i_["inst"].startswith("model_ovni_finish:"), "all-dead:",
                 "a truncated stream whose thread is not dead is accepted", 10)
    ctx.rule("R9.8", "a finished stream is never reopened: ovni_thread_init on a thread that was freed (finished set) dies "
             "on every path before it resets, opens or allocates anything; a second life would rewrite, from offset 0 or in "
             "a temporary directory, a stream whose visible metadata already says finished")
    from rules import round8
    round8.check_init_after_free_refused(ctx, "R9.8")

"""C16 — ovnisort (named clauses only; the permutation / sortedness core is not decided).

R16.1 the comparator given to qsort is a total order: by clock, ties broken by stream position
      (ISO C qsort is not stable), never 0 for two distinct events
R16.2 write-back: write_stream is a full-write pwrite loop at the region's offset; fdatasync/close checked
R16.3 the region state machine of stream_winsort, evaluated on event-class sequences
R16.4 a region that cannot be sorted makes ovnisort fail with exit status 1
R16.5 execute_sort_plan evaluated on small streams and look-back rings: the byte range it sorts and writes back
      starts at an event before which nothing is later than the region's earliest event, ends at the closing
      marker, and the ring is rebuilt from that event's slot (bounded; the sort itself is not evaluated)
"""
import itertools

from ovsa import absint, effects, errflow
from ovsa.absint import INT, NULL, PTR, TOP, to_lin, mk_lin

SC = "src/emu/ovnisort.c"


def F(rec, field):
    return ((rec, field),)


def run(ctx):
    prog = ctx.prog
    eff = effects.Effects(prog)
    reg = errflow.Registry(prog)
    ctx.rule("R16.1", "cmp_ev, the comparator sort_buf hands to qsort, orders two events by clock and, for equal "
             "clocks, by their position in the stream; it returns 0 only for the same element (qsort is not "
             "stable, the table holds the events in stream order)")
    ctx.rule("R16.2", "write_stream writes (src, size) at file offset dst - base with pwrite, advancing source, "
             "destination and remaining size by the returned count until nothing remains, and dies on error; "
             "stream_winsort syncs and closes the file and dies if that fails")
    ctx.rule("R16.3", "stream_winsort, evaluated on sequences of event classes (region start, region end, other): "
             "a sort plan is executed exactly for each region that contains an event, from the first event after "
             "the opening marker to the closing marker; every event enters the look-back ring once, in order; a "
             "failing plan makes the function fail")
    ctx.rule("R16.4", "when the destination of a region cannot be found execute_sort_plan fails, and the failure "
             "reaches ovnisort's exit status")

    # ---- R16.1 -------------------------------------------------------------------------
    ce = prog.fn("cmp_ev", SC)
    sb = prog.fn("sort_buf", SC)
    qs = [sb.nodes[c] for c in sb.all_calls_syntactic("qsort")]
    ctx.need(qs, "sort_buf no longer calls qsort")
    for n in qs:
        a = sb.nodes[sb.strip(n["args"][3])]
        ctx.check(a["k"] == "DeclRefExpr" and a["name"] == "cmp_ev", "R16.1", "sort_buf:qsort-uses-cmp_ev", sb.loc(),
                  "qsort is called with comparator %s" % sb.src(n["args"][3]))
    # sort_buf sorts the whole table of the range: qsort gets the table's first slot, all n events, the pointer
    # size and cmp_ev, and the same table and n are written back
    qa, wa = [], []
    sums_sb = {"malloc": lambda ex_, st, a, f, e: [(PTR("BUF2", (0,)), {})],
               "calloc": lambda ex_, st, a, f, e: [(PTR("TABLE", (0,)), {})],
               "memcpy": lambda ex_, st, a, f, e: [(TOP, {})], "__builtin___memcpy_chk": lambda ex_, st, a, f, e: [(TOP, {})],
               "count_events": lambda ex_, st, a, f, e: [(INT(5), {})],
               "index_events": lambda ex_, st, a, f, e: [(TOP, {})],
               "qsort": lambda ex_, st, a, f, e: (qa.append(tuple(a)), [(TOP, {})])[1],
               "write_events": lambda ex_, st, a, f, e: (wa.append(tuple(a)), [(TOP, {})])[1],
               "free": lambda ex_, st, a, f, e: [(TOP, {})]}
    exsb = absint.Explorer(prog, effects=eff, summaries=sums_sb, loop_bound=3)
    outs_sb = [o for o in exsb.run(sb, [PTR("SRC", (0,)), PTR("OUT", (0,)), INT(60)],
                                   {(("G", "src/common.c", "is_debug_enabled"), ()): INT(0)}) if o.kind in ("ret", "exit")]
    psz = prog.records.get("ovni_ev") and 8
    good_sb = bool(outs_sb) and len(qa) >= 1 and all(
        q[0] == PTR("TABLE", (0,)) and q[1] == INT(5) and q[2] == INT(8) and q[3] == ("fn", "cmp_ev") for q in qa) and \
        len(wa) >= 1 and all(w[0] == PTR("TABLE", (0,)) and w[1] == INT(5) and w[2] == PTR("OUT", (0,)) for w in wa)
    ctx.check(good_sb, "R16.1", "sort_buf:sorts-the-whole-table", sb.loc(),
              "with 5 events in the range, qsort is given %s and write_events %s; expected the table's first slot, "
              "5 elements of pointer size and cmp_ev, then the same table written to the output buffer" %
              ([tuple(str(x) for x in q) for q in qa], [tuple(str(x) for x in w) for w in wa]))
    HD = F("ovni_ev", "header") + F("ovni_ev_header", "clock")
    ex = absint.Explorer(prog, effects=eff)
    # the table elements are pointers into one buffer: events at offsets 100 < 200
    for (c1, c2, p1, p2, want) in ((5, 9, 100, 200, -1), (9, 5, 100, 200, 1), (5, 9, 200, 100, -1), (9, 5, 200, 100, 1),
                                   (7, 7, 100, 200, -1), (7, 7, 200, 100, 1), (7, 7, 100, 100, 0),
                                   # clocks are 64-bit nanoseconds: gaps of 2^31 and more (a few seconds) must keep their sign
                                   (5, 5 + 2 ** 31, 100, 200, -1), (5 + 2 ** 31, 5, 100, 200, 1), (5, 5 + 2 ** 32, 200, 100, -1),
                                   (3 * 2 ** 32 + 1, 7, 200, 100, 1), (0, 2 ** 62, 100, 200, -1)):
        store = {("TAB", (0,)): PTR("BUF", (p1,)), ("TAB", (1,)): PTR("BUF", (p2,)),
                 ("BUF", (p1,) + HD): INT(c1), ("BUF", (p2,) + HD): INT(c2)}
        outs = ex.run(ce, [PTR("TAB", (0,)), PTR("TAB", (1,))], store)
        rets = {o.ret for o in outs if o.kind == "ret"}
        inst = "cmp_ev:clock=%d-vs-%d:position=%s" % (c1, c2, "before" if p1 < p2 else "after" if p1 > p2 else "same")
        good = len(rets) == 1 and list(rets)[0][0] == "int" and \
            ((want < 0 and list(rets)[0][1] < 0) or (want > 0 and list(rets)[0][1] > 0) or (want == 0 and list(rets)[0][1] == 0))
        ctx.check(good, "R16.1", inst, ce.loc(),
                  "cmp_ev returns %s for clocks %d and %d with the first event %s the second in the stream; expected "
                  "%s%s" % (sorted(rets, key=str), c1, c2, "before" if p1 < p2 else "after" if p1 > p2 else "at",
                            {-1: "negative", 0: "zero", 1: "positive"}[want],
                            " (a 0 here lets qsort permute equal-clock events)" if c1 == c2 and p1 != p2 else ""))

    # ---- R16.2 -----------------------------------------------------------------------------
    ws = prog.fn("write_stream", SC)
    notes = []
    cnt = {"n": 0}

    def s_pwrite(ex_, st, args, f, e):
        cnt["n"] += 1
        k = cnt["n"]
        w = ex_.sym("w%d" % k, 0, 1 << 40)
        la = to_lin(args[2])
        cons = ()
        if la is not None:
            t = {a: -b for a, b in la[1].items()}
            t["w%d" % k] = 1
            cons = ((tuple(sorted(t.items())), la[0]),)
        st.events = st.events + (("note", "pwrite", dict(k=k, fd=args[0], src=args[1], n=args[2], off=args[3], cons=st.cons)),)
        return [(INT(-1), {}), (w, {}, cons)]
    exw = absint.Explorer(prog, effects=eff, summaries={"pwrite": s_pwrite}, loop_bound=3)
    size0 = exw.sym("size0", 1, 1 << 40)
    dst0 = exw.sym("dst0", 0, 1 << 40)
    outs = exw.run(ws, [INT(9), PTR("BASE", (0,)), PTR("BASE", (dst0,)), PTR("SRC", (0,)), size0], {})

    def lin_eq(cons, a, b):
        la, lb = to_lin(a), to_lin(b)
        if la is None or lb is None:
            return False
        t = dict(la[1])
        for k, c in lb[1].items():
            t[k] = t.get(k, 0) - c
        return exw.decide_cmp(cons, "==", la[0] - lb[0], {k: c for k, c in t.items() if c}) is True

    def ladd(a, b):
        la, lb = to_lin(a), to_lin(b)
        t = dict(la[1])
        for k, c in lb[1].items():
            t[k] = t.get(k, 0) + c
        return mk_lin(la[0] + lb[0], t)

    def lsub(a, b):
        lb = to_lin(b)
        return ladd(a, mk_lin(-lb[0], {k: -c for k, c in lb[1].items()}))
    npaths = 0
    for o in outs:
        wsn = [ev[2] for ev in o.events if ev[0] == "note" and ev[1] == "pwrite"]
        if not wsn:
            continue
        npaths += 1
        total = INT(0)
        probs = []
        for w in wsn:
            if w["fd"] != INT(9):
                probs.append("pwrite on fd %s" % (w["fd"],))
            srcoff = w["src"][2][0] if w["src"][0] == "ptr" and w["src"][1] == "SRC" else None
            srcoff = INT(srcoff) if isinstance(srcoff, int) else srcoff
            if srcoff is None or not lin_eq(w["cons"], srcoff, total):
                probs.append("write #%d takes the data from %s but %s bytes were already written" % (w["k"], w["src"], total))
            if not lin_eq(w["cons"], w["n"], lsub(size0, total)):
                probs.append("write #%d asks for %s bytes" % (w["k"], w["n"]))
            if not lin_eq(w["cons"], w["off"], ladd(dst0, total)):
                probs.append("write #%d goes to file offset %s instead of (dst - base) + bytes written" % (w["k"], w["off"]))
            total = ladd(total, ("lin", 0, (("w%d" % w["k"], 1),)))
        ctx.check(not probs, "R16.2", "write_stream:args:path%d" % npaths, ws.loc(), "; ".join(probs))
        if o.kind in ("ret", "exit") and not any(d[0] == "loop-exit" for d in o.decisions):
            ctx.check(lin_eq(o.cons, total, size0), "R16.2", "write_stream:exit-when-all-written:path%d" % npaths,
                      ws.loc(), "the loop can end before the whole region is written back")
    ctx.check(npaths >= 2, "R16.2", "write_stream:explored", ws.loc(), "too few paths explored")
    exe = absint.Explorer(prog, effects=eff, summaries={"pwrite": lambda ex_, st, args, f, e: [(INT(-1), {})]}, loop_bound=3)
    outs = exe.run(ws, [INT(9), PTR("BASE", (0,)), PTR("BASE", (8,)), PTR("SRC", (0,)), INT(100)], {})
    ctx.check(outs and all(o.kind == "die" for o in outs), "R16.2", "write_stream:error-dies", ws.loc(),
              "a failing pwrite does not abort the sort")

    # ---- R16.3 ---------------------------------------------------------------------------------
    sw = prog.fn("stream_winsort", SC)

    DBG = (("G", "src/common.c", "is_debug_enabled"), ())

    def run_seq(seq, plan_ret=0, fsync_ret=0, close_ret=0):
        """The script position, the plans executed and the ring contents are kept in the abstract
        store, so that they are per path."""
        def geti(st, key):
            v = st.store.get((key, ()), INT(0))
            return v[1]

        def s_step(ex_, st, args, f, e):
            i = geti(st, "STEP")
            return [(INT(0 if i < len(seq) else 1), {("STEP", ()): INT(i + 1)})]

        def s_ev(ex_, st, args, f, e):
            return [(PTR("EV%d" % (geti(st, "STEP") - 1)), {})]

        def cls(a):
            if a[0] == "ptr" and isinstance(a[1], str) and a[1].startswith("EV"):
                return seq[int(a[1][2:])]
            return None

        def s_plan(ex_, st, args, f, e):
            sp = args[0]
            root, path = sp[1], sp[2]
            k = geti(st, "NPLANS")
            return [(INT(plan_ret), {("NPLANS", ()): INT(k + 1),
                                     ("PLAN", (k, 0)): st.store.get((root, path + F("sortplan", "bad0")), TOP),
                                     ("PLAN", (k, 1)): st.store.get((root, path + F("sortplan", "next")), TOP)})]

        def s_ring(ex_, st, args, f, e):
            k = geti(st, "NRING")
            return [(TOP, {("NRING", ()): INT(k + 1), ("RINGEV", (k,)): args[1]})]

        def s_sync(ex_, st, args, f, e):
            return [(INT(fsync_ret), {("NSYNC", ()): INT(geti(st, "NSYNC") + 1)})]
        ex = absint.Explorer(prog, effects=eff, loop_bound=len(seq) + 3, summaries={
            "stream_step": s_step, "stream_ev": s_ev, "execute_sort_plan": s_plan,
            "starts_unsorted_region": lambda ex_, st, a, f, e: [(INT(1 if cls(a[0]) == "S" else 0), {})],
            "ends_unsorted_region": lambda ex_, st, a, f, e: [(INT(1 if cls(a[0]) == "E" else 0), {})],
            "ring_add": s_ring, "ring_reset": lambda ex_, st, a, f, e: [(TOP, {})],
            "open": lambda ex_, st, a, f, e: [(INT(5), {})], "fdatasync": s_sync,
            "close": lambda ex_, st, a, f, e: [(INT(close_ret), {})]})
        outs = ex.run(sw, [PTR("STREAM"), PTR("RING")], {DBG: INT(0)})
        res = []
        for o in outs:
            n = o.store.get(("NPLANS", ()), INT(0))[1]
            plans = [(o.store.get(("PLAN", (k, 0))), o.store.get(("PLAN", (k, 1)))) for k in range(n)]
            nr = o.store.get(("NRING", ()), INT(0))[1]
            ring = [o.store.get(("RINGEV", (k,))) for k in range(nr)]
            res.append((o, plans, ring, o.store.get(("NSYNC", ()), INT(0))[1]))
        return res

    def expected_plans(seq):
        st, bad0, out = "S", None, []
        for i, c in enumerate(seq):
            if st == "S" and c == "S":
                st = "U"
            elif st == "U":
                if c == "E":
                    st = "S"
                else:
                    st, bad0 = "X", i
            elif st == "X" and c == "E":
                out.append((bad0, i))
                st, bad0 = "S", None
        return out
    seqs = []
    for n in range(0, 7 if ctx.tier == "thorough" else 5):
        seqs += ["".join(p) for p in itertools.product("SEo", repeat=n)]
    seqs += ["SoESoE", "SooEoSE", "oSoooEo", "SSoEE"]
    for seq in seqs:
        res = run_seq(seq)
        want = [(PTR("EV%d" % a), PTR("EV%d" % b)) for a, b in expected_plans(seq)]
        accs = [r for r in res if r[0].kind == "ret" and r[0].ret == INT(0)]
        bad = []
        if not accs:
            bad.append("no successful path")
        for (o, plans, ring, nsync) in accs:
            if plans != want:
                bad.append("sort plans %s, expected %s" % ([(str(a), str(b)) for a, b in plans],
                                                           [(str(a), str(b)) for a, b in want]))
            if ring != [PTR("EV%d" % i) for i in range(len(seq))]:
                bad.append("ring receives %d of %d events or out of order" % (len(ring), len(seq)))
            if bool(nsync) != bool(want):
                bad.append("file synced %d times" % nsync)
        ctx.check(not bad, "R16.3", "stream_winsort:events=%s" % (seq or "none"), sw.loc(),
                  "for the event classes %s (S = region start, E = region end, o = other): %s" %
                  (seq or "(none)", "; ".join(sorted(set(bad)))))
    res = run_seq("SoE", plan_ret=-1)
    ctx.check(res and not [r for r in res if r[0].kind == "ret" and r[0].ret == INT(0)], "R16.3",
              "stream_winsort:plan-failure-fails", sw.loc(), "stream_winsort succeeds although the sort plan failed")
    res = run_seq("SoE", fsync_ret=-1)
    ctx.check(res and all(r[0].kind == "die" for r in res), "R16.2", "stream_winsort:fdatasync-checked", sw.loc(),
              "a failing fdatasync after sorting is ignored")
    res = run_seq("o", close_ret=-1)
    ctx.check(res and all(r[0].kind == "die" for r in res), "R16.2", "stream_winsort:close-checked", sw.loc(),
              "a failing close of the sorted stream is ignored")

    # ---- R16.5 ------------------------------------------------------------------------------------
    ctx.rule("R16.5", "execute_sort_plan (with find_destination, find_min_clock and the ring filled by ring_add), "
             "evaluated on streams of up to 6 events and rings of 3, 4 and more slots: when it succeeds, the range "
             "[first, next) handed to sort_buf and written back at first's own offset is such that no event before "
             "first has a later clock than an event of the range, and rebuild_ring / ring_check start at the ring "
             "slot that holds first; it fails only when the look-back ring no longer reaches far enough")
    HDR = F("ovni_ev", "header")
    CLK = HDR + F("ovni_ev_header", "clock")
    FLG = HDR + F("ovni_ev_header", "flags")
    ra = prog.fn("ring_add", SC)
    esp5 = prog.fn("execute_sort_plan", SC)
    EVSZ = prog.records["ovni_ev_header"]["size"]       # events without payload

    def plan_case(clocks, rstart, rsize):
        n = len(clocks)
        store = {DBG: INT(0), ("RING", F("ring", "ev")): PTR("RA", (0,)), ("RING", F("ring", "size")): INT(rsize),
                 ("RING", F("ring", "head")): INT(0), ("RING", F("ring", "tail")): INT(0)}
        for i, c in enumerate(list(clocks) + [99]):
            store[("SBUF", (EVSZ * i,) + CLK)] = INT(c)
            store[("SBUF", (EVSZ * i,) + FLG)] = INT(0)
        exr = absint.Explorer(prog, effects=eff)
        for i in range(n):
            o = [o for o in exr.run(ra, [PTR("RING"), PTR("SBUF", (EVSZ * i,))], store) if o.kind in ("ret", "exit")]
            ctx.need(len(o) == 1, "ring_add cannot be evaluated")
            store = o[0].store
        store.update({("SP", F("sortplan", "bad0")): PTR("SBUF", (EVSZ * rstart,)),
                      ("SP", F("sortplan", "next")): PTR("SBUF", (EVSZ * n,)),
                      ("SP", F("sortplan", "r")): PTR("RING"), ("SP", F("sortplan", "fd")): INT(9),
                      ("SP", F("sortplan", "base")): PTR("SBUF", (0,))})

        def rec(name):
            def s_(ex_, st, args, f, e):
                k = st.store.get(("NREC", ()), INT(0))[1]
                return [(TOP, {("NREC", ()): INT(k + 1), ("REC", (k,)): ("val", name) + tuple(args)})]
            return s_
        sums = {"sort_buf": rec("sort_buf"), "write_stream": rec("write_stream"), "rebuild_ring": rec("rebuild_ring"),
                "ring_check": rec("ring_check"), "malloc": lambda ex_, st, a, f, e: [(PTR("HEAP", (0,)), {})],
                "free": lambda ex_, st, a, f, e: [(TOP, {})]}
        exq = absint.Explorer(prog, effects=eff, summaries=sums, loop_bound=rsize + n + 4, max_depth=4,
                              inline=lambda nm, d: nm in ("find_destination", "find_min_clock", "ovni_ev_size",
                                                          "ovni_payload_size", "get_jumbo_payload_size"))
        return exq.run(esp5, [PTR("SP")], store)

    ncases = 0
    for npre in range(0, 4):
        for pre in itertools.combinations_with_replacement((10, 20, 30), npre):
            for nreg in (1, 2):
                for regc in itertools.product((5, 25, 50), repeat=nreg):
                    clocks = list(pre) + [40] + list(regc)
                    n = len(clocks)
                    rstart = npre + 1
                    clock0 = min(regc)
                    for rsize in (3, 4, n + 3):
                        ncases += 1
                        outs = plan_case(clocks, rstart, rsize)
                        rets = [o for o in outs if o.kind == "ret"]
                        inst = "execute_sort_plan:clocks=%s:region-from=%d:ring=%d" % (",".join(map(str, clocks)), rstart, rsize)
                        bad = []
                        if not rets or any(o.kind == "die" for o in outs):
                            bad.append("the plan aborts or does not return")
                        held = list(range(max(0, n - (rsize - 1)), n))
                        cands = [j for j in held if clocks[j] < clock0]
                        must_succeed = bool(cands) or n <= rsize - 2
                        may_fail = not cands and n >= rsize - 1
                        for o in rets:
                            if o.ret == INT(0):
                                k = o.store.get(("NREC", ()), INT(0))[1]
                                recs = [o.store[("REC", (i,))] for i in range(k)]
                                byname = {r[1]: r[2:] for r in recs}
                                if sorted(byname) != ["rebuild_ring", "ring_check", "sort_buf", "write_stream"]:
                                    bad.append("the plan performs %s" % [r[1] for r in recs])
                                    continue
                                first = byname["sort_buf"][0]
                                nxt = PTR("SBUF", (EVSZ * n,))
                                if first[0] != "ptr" or first[1] != "SBUF" or first[2][0] % EVSZ:
                                    bad.append("the sorted range starts at %s" % (first,))
                                    continue
                                fi = first[2][0] // EVSZ
                                size = INT(EVSZ * (n - fi))
                                if fi > 0 and max(clocks[:fi]) > min(clocks[fi:]):
                                    bad.append("the range to sort starts at event %d (clock %d) although event(s) before it "
                                               "are later (clock %d) than an event inside the range (clock %d): the stream "
                                               "stays unsorted" % (fi, clocks[fi], max(clocks[:fi]), min(clocks[fi:])))
                                if byname["sort_buf"] != (first, PTR("HEAP", (0,)), size):
                                    bad.append("sort_buf gets %s" % (byname["sort_buf"],))
                                if byname["write_stream"] != (INT(9), PTR("SBUF", (0,)), first, PTR("HEAP", (0,)), size):
                                    bad.append("the sorted bytes are written back with %s" % (byname["write_stream"],))
                                rb = byname["rebuild_ring"]
                                if rb[0] != PTR("RING") or rb[2] != first or rb[3] != nxt or rb[1][0] != "int" or \
                                        o.store.get(("RA", (rb[1][1],))) != first:
                                    bad.append("the ring is rebuilt with %s, whose slot does not hold the first sorted event" % (rb,))
                                if byname["ring_check"] != (PTR("RING"), rb[1]):
                                    bad.append("ring_check starts at %s" % (byname["ring_check"],))
                            elif o.ret is not None and o.ret[0] == "int" and o.ret[1] < 0:
                                if not may_fail:
                                    bad.append("the plan fails although an event earlier than the region (or the stream's "
                                               "beginning) is inside the look-back ring")
                            else:
                                bad.append("returns %s" % (o.ret,))
                        if must_succeed and not any(o.ret == INT(0) for o in rets):
                            bad.append("no successful path")
                        ctx.check(not bad, "R16.5", inst, esp5.loc(), "; ".join(sorted(set(bad))))
    ctx.need(ncases >= 300, "R16.5: only %d cases generated" % ncases)

    # ---- R16.4 ------------------------------------------------------------------------------------
    esp = prog.fn("execute_sort_plan", SC)
    ex = absint.Explorer(prog, effects=eff, summaries={
        "find_destination": lambda ex_, st, a, f, e: [(INT(-1), {})],
        "find_min_clock": lambda ex_, st, a, f, e: [(INT(5), {})]})
    outs = ex.run(esp, [PTR("SP")], {("SP", F("sortplan", "bad0")): PTR("EVB"),
                                     ("EVB", F("ovni_ev", "header") + F("ovni_ev_header", "clock")): INT(9)})
    ctx.check(outs and not [o for o in outs if o.kind == "ret" and o.ret == INT(0)], "R16.4",
              "execute_sort_plan:no-destination-fails", esp.loc(),
              "execute_sort_plan succeeds although no destination was found in the look-back window")
    main = prog.fn("main", SC)
    ef = errflow.ErrFlow(prog, main, registry=reg, loop_bound=4)
    ef.propagates(esp)
    for (g, c, where, ok, detail) in ef.checked_sites:
        ctx.check(ok, "R16.4", "propagate:%s->%s" % (g, c), where, "error of %s dropped in %s: %s" % (g, c, detail))
    if all(ok for (_g, _c, _w, ok, _d) in ef.checked_sites):
        ctx.check(len(ef.checked_sites) >= 3, "R16.4", "propagate:chain-length", main.loc(),
                  "propagation chain has %d links" % len(ef.checked_sites))


_run_base = run


def run(ctx):
    _run_base(ctx)
    prog = ctx.prog
    ctx.rule("R16.6", "the look-back window is per stream: process_trace is evaluated on two streams; when the second "
             "stream is started the window holds no event of the first")
    from rules import round3
    round3.check_ring_per_stream(ctx, "R16.6")
    ctx.rule("R16.7", "the ring helpers R16.5 summarises, on concrete rings of four slots, wrapped and not: ring_check "
             "aborts exactly on a decreasing pair (equal clocks are what a stable sort leaves); rebuild_ring walks from "
             "start to the tail inside [0, size) and stores consecutive events")
    from rules import round4
    round4.check_ring_helpers(ctx, "R16.7")
    ctx.rule("R16.8", "check mode accepts what sort mode produces, and only OU[ / OU] delimit a region: stream_check "
             "fails exactly on a decreasing pair of clocks; the two marker predicates are evaluated on 18 (model, "
             "category, value) triples each")
    from rules import round5
    round5.check_sort_check_mode(ctx, "R16.8")
    round5.check_region_markers(ctx, "R16.8")

"""C18 — event catalogue consistency: declared, decodable and handled events coincide.

R18.1 set equality declared(model) = handled(model) over all 65 536 (c, v) pairs
R18.2 shape agreement: each declared event, given a payload of its declared
      shape, still reaches an accepting path, and every payload read reached by
      it lies inside the declared payload
R18.3 catalogue self-consistency (what model_evspec_init would reject)
R18.4 the decoder's argument layout (ev_spec.c) is the packed wire layout the handlers use
"""
import json
import os
import re

from ovsa import dispatch, models
from ovsa.facts import VERIF

ELEM_SIZE = {"i8": 1, "u8": 1, "i16": 2, "u16": 2, "i32": 4, "u32": 4, "i64": 8, "u64": 8}


def spec():
    with open(os.path.join(VERIF, "spec", "C18.json")) as f:
        return json.load(f)


def shape_of(m):
    sh = {}
    for e in m.events:
        if e.parsed is None:
            continue
        p = dispatch.pair(e.mcv[1], e.mcv[2])
        if e.parsed["jumbo"]:
            sh[p] = (None, 1)
        else:
            sh[p] = (e.parsed["payload_size"], 0)
    return sh


def payload_reads(f):
    """(node, offset, size) for reads ev->payload->X[k] with constant k."""
    out = []
    for i, n in enumerate(f.nodes):
        if n["k"] != "ArraySubscriptExpr":
            continue
        b = f.nodes[f.strip(n["c"][0])]
        if b["k"] == "MemberExpr" and b.get("rec") == "ovni_ev_payload" and b["field"] in ELEM_SIZE:
            k = f.val(n["c"][1])
            es = ELEM_SIZE[b["field"]]
            out.append((i, None if k is None else k * es, es))
    return out


def check_decoder_layout(ctx):
    """R18.4: the decoder (ev_spec.c) lays a signature's arguments out exactly as the events are written and as the
    handlers read them: packed, in order, each with the width of its type, after the 4-byte size of a jumbo."""
    from ovsa import absint, effects
    from ovsa.absint import INT, NULL, PTR, TOP
    prog = ctx.prog
    eff = effects.Effects(prog)
    ES = "src/emu/ev_spec.c"
    ctx.rule("R18.4", "ev_spec.c's parse_arg gives the k-th argument of a signature the offset at which the previous "
             "ones end (no padding) and the width of its type (u8/i8 1, u16/i16 2, u32/i32 4, u64/i64 8, str: "
             "rest), and parse_args starts at 0, or at 4 for a jumbo: the layout of the wire format, which the "
             "handlers and ovnidump rely on")

    def F(rec, field):
        return ((rec, field),)
    pa = prog.fn("parse_arg", ES)
    width = {"u8": 1, "i8": 1, "u16": 2, "i16": 2, "u32": 4, "i32": 4, "u64": 8, "i64": 8, "str": 0}
    n = 0
    for tname, w in sorted(width.items()):
        for before in (0, 1, 3, 4, 5, 12):
            for k in (0, 2):
                toks = [("str", tname), ("str", "arg")]
                cnt = [0]

                def s_tok(ex_, st, a, f, e, toks=toks, cnt=cnt):
                    i = cnt[0]
                    cnt[0] += 1
                    return [((toks[i] if i < len(toks) else NULL), {})]

                def s_strcmp(ex_, st, a, f, e):
                    if a[0][0] == "str" and a[1][0] == "str":
                        return [(INT(0 if a[0][1] == a[1][1] else 1), {})]
                    return None
                ex = absint.Explorer(prog, effects=eff, loop_bound=12, inline=lambda nm, d: nm == "parse_type",
                                     summaries={"strtok_r": s_tok, "strcmp": s_strcmp,
                                                "snprintf": lambda ex_, st, a, f, e: [(INT(3), {})],
                                                "__builtin___snprintf_chk": lambda ex_, st, a, f, e: [(INT(3), {})]})
                store = {("SPEC", F("ev_spec", "nargs")): INT(k), ("SPEC", F("ev_spec", "payload_size")): INT(before)}
                outs = [o for o in ex.run(pa, [PTR("SPEC"), ("str", tname + " arg")], store) if o.kind == "ret"]
                acc = [o for o in outs if o.ret == INT(0)]
                argp = F("ev_spec", "args") + (k,)
                inst = "parse_arg:%s:after-%d-bytes:arg%d" % (tname, before, k)
                n += 1
                good = bool(acc) and len(acc) == len(outs)
                got = None
                for o in acc:
                    got = (o.store.get(("SPEC", argp + F("ev_arg", "offset"))), o.store.get(("SPEC", argp + F("ev_arg", "size"))),
                           o.store.get(("SPEC", F("ev_spec", "payload_size"))), o.store.get(("SPEC", F("ev_spec", "nargs"))))
                    if got != (INT(before), INT(w), INT(before + w), INT(k + 1)):
                        good = False
                ctx.check(good, "R18.4", inst, pa.loc(),
                          "argument of type %s following %d payload bytes gets (offset, size, new payload size, nargs) = %s; "
                          "the packed wire layout is (%d, %d, %d, %d)" %
                          (tname, before, tuple(str(x) for x in got) if got else "no accepting path",
                           before, w, before + w, k + 1))
    pas = prog.fn("parse_args", ES)
    for jumbo in (0, 1):
        ex = absint.Explorer(prog, effects=eff, loop_bound=3, summaries={"strtok_r": lambda ex_, st, a, f, e: [(NULL, {})]})
        outs = [o for o in ex.run(pas, [PTR("SPEC"), ("str", "()")], {("SPEC", F("ev_spec", "is_jumbo")): INT(jumbo)})
                if o.kind == "ret" and o.ret == INT(0)]
        want = 4 if jumbo else 0
        ctx.check(bool(outs) and all(o.store.get(("SPEC", F("ev_spec", "payload_size"))) == INT(want) for o in outs),
                  "R18.4", "parse_args:jumbo=%d:first-offset" % jumbo, pas.loc(),
                  "the first argument of a %s event is placed at %s, expected %d" %
                  ("jumbo" if jumbo else "normal",
                   sorted({str(o.store.get(("SPEC", F("ev_spec", "payload_size")))) for o in outs}), want))
    ctx.need(n >= 100, "R18.4: %d cases" % n)

    # the check the printer makes before decoding accepts every declared event carrying a payload of its
    # declared shape (fixed arguments: exactly the declared bytes; a trailing string: the declared bytes plus
    # a terminated string)
    from ovsa import models as _models
    chk = prog.fn("ev_spec_check_payload", ES, required=False) if "required" in prog.fn.__code__.co_varnames else None
    if chk is None:
        cands = [g for g in prog.fns_in(ES) if g.name == "ev_spec_check_payload"]
        chk = cands[0] if cands else None
    ctx.need(chk is not None, "ev_spec_check_payload not found")
    tyv = {nm.lower(): v for nm, v in prog.enums["ev_arg_type"]["enumerators"]}
    ndec = 0
    for m in _models.discover(prog):
        for e in m.events:
            if e.parsed is None or not e.parsed["args"]:
                continue
            ndec += 1
            has_str = any(a[0] == "str" for a in e.parsed["args"])
            for slen in ((0, 1, 4) if has_str else (None,)):
                have = e.parsed["payload_size"] + ((slen + 1) if has_str else 0)
                store = {("SPEC", F("ev_spec", "nargs")): INT(len(e.parsed["args"])),
                         ("SPEC", F("ev_spec", "payload_size")): INT(e.parsed["payload_size"]),
                         ("SPEC", F("ev_spec", "is_jumbo")): INT(1 if e.parsed["jumbo"] else 0),
                         ("EV", F("emu_ev", "payload")): PTR("PL"), ("EV", F("emu_ev", "payload_size")): INT(have),
                         ("EV", F("emu_ev", "is_jumbo")): INT(1 if e.parsed["jumbo"] else 0)}
                for k_, (ty, nm, off, sz) in enumerate(e.parsed["args"]):
                    ap = F("ev_spec", "args") + (k_,)
                    store[("SPEC", ap + F("ev_arg", "type"))] = INT(tyv[ty])
                    store[("SPEC", ap + F("ev_arg", "offset"))] = INT(off)
                    store[("SPEC", ap + F("ev_arg", "size"))] = INT(sz)
                from rules.strutil import byte_store, s_memchr
                data = bytearray(b"\x41" * have)
                if has_str:
                    data[-1] = 0
                store.update(byte_store("PL", bytes(data)))
                exc = absint.Explorer(prog, effects=eff, loop_bound=max(len(e.parsed["args"]), have) + 4,
                                      summaries={"memchr": s_memchr})
                outs = [o for o in exc.run(chk, [PTR("SPEC"), PTR("EV")], store) if o.kind == "ret"]
                ctx.check(bool(outs) and all(o.ret == INT(0) for o in outs), "R18.4",
                          "%s:%s:declared-shape-decodable%s" % (m.name, e.mcv, "" if slen in (None, 4) else ":string-of-%d" % slen), chk.loc(),
                          "%s carrying a payload of its declared shape '%s' (%d bytes%s) is refused by the printer's "
                          "payload check: ovnidump prints UNKNOWN for a listed event" %
                          (e.mcv, e.sig, have, ", string terminated" if has_str else ""))
    ctx.need(ndec >= 15, "R18.4: only %d declared events with arguments" % ndec)


def run(ctx):
    prog = ctx.prog
    sp = spec()
    ms = models.discover(prog)
    check_decoder_layout(ctx)
    ctx.rule("R18.1", "for every model: the set of (category,value) codes declared in model_evlist equals the "
             "set for which the model's event hook can reach a successful return, computed by abstract "
             "interpretation of the dispatch over all 65536 pairs; exemptions: value-agnostic categories and "
             "legacy codes accepted under a warn(), both frozen in spec/C18.json")
    ctx.rule("R18.2", "every declared event, with ev->payload_size/is_jumbo bound to its declared shape, still "
             "reaches an accepting path; every constant-offset payload read it reaches lies inside the "
             "declared payload")
    ctx.rule("R18.3", "catalogue self-consistency: signatures parse with ev_spec.c's grammar, no duplicate MCV, "
             "model character matches the registry, every %{name} in a description names a declared argument, "
             "the hook's own model-character test agrees")
    total_pairs = 0
    for m in ms:
        evfn = prog.fn(m.hooks["event"])
        where = "%s:%d" % (m.file, m.line)
        declared = {}
        # ---- R18.3 -------------------------------------------------
        seen = {}
        for e in m.events:
            inst = "%s:%s" % (m.name, e.sig[:3])
            w = "%s:%d" % (m.evlist_global["file"], e.line)
            if e.error:
                ctx.fail("R18.3", inst + ":parse", w, "signature '%s' would be rejected by ev_spec_compile: %s"
                         % (e.sig, e.error))
                continue
            if e.mcv in seen:
                ctx.fail("R18.3", inst + ":duplicate", w, "MCV %s declared twice" % e.mcv)
            else:
                ctx.ok("R18.3", inst + ":unique", w)
            seen[e.mcv] = e
            ctx.check(ord(e.mcv[0]) == m.char, "R18.3", inst + ":model-char", w,
                      "MCV %s does not start with the model character '%c'" % (e.mcv, m.char))
            names = {a[1] for a in e.parsed["args"]}
            bad = []
            desc = e.desc or ""
            j = 0
            while j < len(desc):
                if desc[j] == "%":
                    if j + 1 < len(desc) and desc[j + 1] == "%":
                        j += 2
                        continue
                    mm = re.match(r"%([^{}%]*)\{([^}]*)\}", desc[j:])
                    if not mm:
                        bad.append("malformed format at col %d" % j)
                        break
                    if mm.group(2) not in names:
                        bad.append("%%{%s} names no declared argument" % mm.group(2))
                    j += mm.end()
                else:
                    j += 1
            if "%" in desc:
                ctx.check(not bad, "R18.3", inst + ":description-args", w, "; ".join(bad))
            declared[dispatch.pair(e.mcv[1], e.mcv[2])] = e

        # ---- R18.1 -------------------------------------------------
        d = dispatch.Dispatch(prog, mchar=m.char)
        r = d.explore(evfn, dispatch.FULL)
        total_pairs += 65536
        handled = r.ok
        agnostic = sp["value_agnostic_categories"].get(m.name, {})
        legacy = sp["legacy_accepted_with_warning"].get(m.name, {})
        warned = set()
        for ps in d.warned.values():
            warned |= ps
        for p, e in sorted(declared.items()):
            inst = "%s:%s:declared-is-handled" % (m.name, e.mcv)
            w = "%s:%d" % (m.evlist_global["file"], e.line)
            ctx.check(p in handled, "R18.1", inst, w,
                      "%s is listed in the catalogue but %s rejects it on every path (unknown-event error)"
                      % (e.mcv, evfn.name))
        undeclared = set(handled) - set(declared)
        for cat in agnostic:
            c = ord(cat)
            inst = "%s:%s*:value-agnostic" % (m.name, cat)
            allv = {c * 256 + v for v in range(256)}
            some_decl = any((p >> 8) == c for p in declared)
            ctx.check(some_decl and allv <= handled, "R18.1", inst, where,
                      "category %s is frozen as value-agnostic (%s) but the handler no longer accepts every "
                      "value or the catalogue lists none" % (cat, agnostic[cat]))
            undeclared -= allv
        for code, why in legacy.items():
            p = dispatch.pair(code[0], code[1])
            inst = "%s:%s:legacy" % (m.name, code)
            if p in undeclared:
                ctx.check(p in warned, "R18.1", inst, where,
                          "legacy code %s is accepted without the warning the exemption relies on" % code)
                undeclared.discard(p)
            else:
                ctx.ok("R18.1", inst, where, "legacy code no longer accepted or now declared", nontrivial=False)
        for p in sorted(handled & set(declared)):
            ctx.ok("R18.1", "%s:%c%s:handled-is-declared" % (m.name, m.char, dispatch.pair_str(p)), where)
        for p in sorted(undeclared):
            ctx.fail("R18.1", "%s:%c%s:handled-is-declared" % (m.name, m.char, dispatch.pair_str(p)),
                     evfn.loc(), "%s accepts code %c%s but the catalogue (model_evlist) does not list it"
                     % (evfn.name, m.char, dispatch.pair_str(p)))

        # ---- R18.2 -------------------------------------------------
        sh = shape_of(m)
        d2 = dispatch.Dispatch(prog, mchar=m.char, shape=sh)
        P = frozenset(declared)
        r2 = d2.explore(evfn, P)
        for p, e in sorted(declared.items()):
            if e.parsed is None or p not in handled:
                continue
            inst = "%s:%s:shape-accepted" % (m.name, e.mcv)
            w = "%s:%d" % (m.evlist_global["file"], e.line)
            if p in r2.ok:
                ctx.ok("R18.2", inst, w, nontrivial=bool(e.parsed["args"]))
            else:
                ctx.fail("R18.2", inst, w,
                         "with the declared shape '%s' (payload %s bytes%s) every path of %s rejects the event"
                         % (e.sig, e.parsed["payload_size"], ", jumbo" if e.parsed["jumbo"] else "",
                            evfn.name))
        # payload reads reached by declared events
        for fkey in sorted(d2.visited_fns):
            f = prog.functions[fkey]
            for node, off, size in payload_reads(f):
                pos = f.where_up(node)
                if pos is None:
                    continue
                reach = d2.reach.get((fkey, pos[0]), set())
                if f.in_macro(node, "dbg"):
                    continue    # debug print, compiled out in the default configuration (see C19)
                for p in sorted(reach):
                    e = declared.get(p)
                    if e is None or e.parsed is None:
                        continue
                    inst = "%s:%s:read@%s:%s" % (m.name, e.mcv, f.name, f.src(node))
                    if off is None:
                        ctx.fail("R18.2", inst, f.loc(node), "payload read with non-constant index")
                        continue
                    ps = e.parsed["payload_size"]
                    if e.parsed["jumbo"]:
                        ctx.ok("R18.2", inst, f.loc(node), "jumbo: variable size", nontrivial=False)
                        continue
                    ctx.check(off + size <= ps, "R18.2", inst, f.loc(node),
                              "handler reads payload bytes [%d,%d) for %s but the catalogue declares a payload "
                              "of %d bytes (%s)" % (off, off + size, e.mcv, ps, e.sig))
    ctx.note("pairs evaluated per model: 65536; models: %d; total %d" % (len(ms), total_pairs))


_run_base = run


def run(ctx):
    _run_base(ctx)
    prog = ctx.prog
    ctx.rule("R18.5", "listed events are processed where they are legal: the flags the models' thread-state "
             "preconditions test mean what the thread model documents (C04 R4.3: active in running, cooling and "
             "warming), and the duplicate table a model declares reaches its thread channels (identical nested "
             "regions are legal where the model says so)")
    from rules import round3
    round3.share(ctx, "R18.5", "C04", lambda i_: i_["rule"] == "R4.3" and i_["inst"].startswith("thread_set_state:TH_ST_"),
                 "thread-flags:", "listed events are rejected in a state where they are legal", 6)
    round3.check_dup_table_on_thread_spec(ctx, "R18.5")
    ctx.rule("R18.6", "ovnidump substitutes the whole argument: print_arg, for each of the 8 numeric types, formats "
             "the value built from all bytes of the argument (concrete payload bytes, little endian)")
    from rules import round4
    round4.check_print_arg_width(ctx, "R18.6")
    ctx.rule("R18.7", "decoding and pairing: the format table of ev_spec.c prints each numeric type with a conversion "
             "of its own signedness and width; every listed enter / leave pair pushes and pops the same value (C08 R8.2's "
             "instances: a listed leave event that pops another value is rejected where it is legal)")
    from rules import round5
    round5.check_type_formats(ctx, "R18.7")
    round5.share(ctx, "R18.7", "C08", lambda i_: i_["rule"] == "R8.2" and (":push-pop" in i_["inst"] or "one-enter-one-leave" in i_["inst"]),
                 "pair:", "a listed event is rejected in a context where it is legal", 100)
    ctx.rule("R18.8", "ovnidump's decode buffer holds the longest description plus the longest label a model accepts")
    from rules import round6
    round6.check_dump_buffer_fits(ctx, "R18.8")
    ctx.rule("R18.9", "every listed event is processed wherever the model's documented precondition holds: the handlers' "
             "guard is not stricter than it (C08 R8.3's accepted-when instances: an event accepted for a running thread "
             "but refused for a merely active one, where the model requires active, is listed yet illegal there)")
    round5.share(ctx, "R18.9", "C08", lambda i_: i_["rule"] == "R8.3" and ":accepted-when:" in i_["inst"], "context:",
                 "a listed event is refused in a context where it is legal", 100)

"""C17 — mark API end to end.

R17.1 metadata keys and channel-type tokens agree between runtime and emulator
R17.2 event shape: what ovni_mark_push/pop/set emit is what the catalogue declares and mark_event reads
R17.3 refusals on both sides (zero values, type range, undefined / redefined types, conflicts)
R17.4 where it shows: PRV type 100 + type, thread tracking ACTIVE, CPU tracking RUNNING
"""
import re

from ovsa import absint, effects, models
from ovsa.absint import INT, NULL, PTR, TOP

OV = "src/rt/ovni.c"
MK = "src/emu/ovni/mark.c"


def F(rec, field):
    return ((rec, field),)


def literals(f):
    return [n["s"] for n in f.nodes if n["k"] == "StringLiteral" and not any(m in n.get("m", ()) for m in ("die", "err", "warn", "dbg"))]


def run(ctx):
    prog = ctx.prog
    eff = effects.Effects(prog)
    E = prog.enum_val
    ctx.rule("R17.1", "the runtime writes ovni.mark.<type>.title / .chan_type in {single, stack} / .labels.<value> "
             "and the emulator reads exactly those key names under ovni.mark and understands exactly those tokens")
    ctx.rule("R17.2", "ovni_mark_push / pop / set emit OM[ / OM] / OM= with a payload of the 64-bit value followed "
             "by the 32-bit type; the catalogue declares (i64 value, i32 type); mark_event requires 12 bytes, reads "
             "them at offsets 0 and 8 and maps [ ] = to chan_push / chan_pop / chan_set of that value on the "
             "type's channel")
    ctx.rule("R17.3", "zero values, types outside [0,100), labels for undefined types and redefinitions are refused "
             "at run time; zero values, undefined types, out-of-range types and title / channel-type / label "
             "conflicts are refused in emulation")
    ctx.rule("R17.4", "a mark type is shown under Paraver type PRV_OVNI_MARK + type, tracked on threads while "
             "ACTIVE and on CPUs for the RUNNING thread, as a stack channel iff declared 'stack'")

    # ---- R17.1 -----------------------------------------------------------------------
    mt = prog.fn("ovni_mark_type", OV)
    ml = prog.fn("ovni_mark_label", OV)
    pm = prog.fn("parse_mark", MK)
    st = prog.fn("scan_thread", MK)
    GETTER_FAMILY = ("json_object_dotget_value", "json_object_dotget_string", "json_object_dotget_object",
                     "json_object_dothas_value", "json_object_get_value", "json_object_get_string")

    def meta_getters(defined, keyof=None, gets=None):
        """Summaries for the parson getters the runtime may use to ask whether a key is already present:
        the k-th query answers defined[k] (present: a value / the string 'OLD' / 1; absent: NULL / 0)."""
        cnt = [0]

        def mk(name):
            def s_(ex_, st_, a, f, e):
                if gets is not None and keyof is not None:
                    gets.append(keyof(st_, a[1]))
                d = defined[min(cnt[0], len(defined) - 1)]
                cnt[0] += 1
                if name.endswith("_string"):
                    return [((("str", "OLD") if d else NULL), {})]
                if "has_value" in name:
                    return [(INT(1 if d else 0), {})]
                return [((PTR("V") if d else NULL), {})]
            return s_
        out = {n: mk(n) for n in GETTER_FAMILY}

        def s_strcmp(ex_, st_, a, f, e):
            if a[0][0] == "str" and a[1][0] == "str":
                return [(INT(0 if a[0][1] == a[1][1] else 1), {})]
            return None
        out["strcmp"] = s_strcmp
        return out

    def rt_keys(fn, args, defined):
        """Keys (and string values) the runtime function passes to the JSON setters / getters,
        with snprintf evaluated on its constant format and arguments."""
        sets, gets = [], []

        def strval(st_, a):
            if a[0] == "str":
                return a[1]
            if a[0] == "int":
                return a[1]
            if a[0] == "ptr":
                path = a[2][:-1] if a[2] and a[2][-1] == 0 else a[2]
                v = st_.store.get((a[1], path))
                if v and v[0] == "str":
                    return v[1]
            return None

        def s_snprintf(ex_, st_, a, f, e):
            fmt = strval(st_, a[2])
            vals = [strval(st_, x) for x in a[3:]]
            if fmt is None or any(v is None for v in vals) or a[0][0] != "ptr":
                return None
            try:
                out = fmt % tuple(vals)
            except Exception:
                return None
            d = a[0]
            path = d[2][:-1] if d[2] and d[2][-1] == 0 else d[2]
            return [(INT(len(out)), {(d[1], path): ("str", out)})]

        def s_set(ex_, st_, a, f, e):
            sets.append((strval(st_, a[1]), strval(st_, a[2])))
            return [(INT(0), {})]
        sums = meta_getters(defined, keyof=strval, gets=gets)
        sums.update({"get_thread_metadata": lambda ex_, st_, a, f, e: [(PTR("META"), {})],
                     "json_object_dotset_string": s_set,
                     "snprintf": s_snprintf, "__builtin___snprintf_chk": s_snprintf})
        ex = absint.Explorer(prog, effects=eff, summaries=sums)
        ex.run(fn, args, {})
        return sets, gets
    sets_t0, gets_t = rt_keys(mt, [INT(5), INT(0), ("str", "T")], [False])
    sets_t1, _ = rt_keys(mt, [INT(5), INT(E("OVNI_MARK_STACK")), ("str", "T")], [False])
    sets_l, gets_l = rt_keys(ml, [INT(5), INT(3), ("str", "L")], [True, False])
    allkeys = [k for k, v in sets_t0 + sets_t1 + sets_l]
    ctx.need(all(k is not None for k in allkeys) and allkeys, "cannot resolve the mark keys the runtime writes: %s" % allkeys)
    suffixes = set()
    for k in allkeys:
        m = re.match(r"ovni\.mark\.5(?:\.([a-z_]+))?(?:\.3)?$", k)
        ctx.need(m is not None, "unexpected runtime mark key %r" % k)
        if m.group(1):
            suffixes.add(m.group(1))
    tokens_w = {v for k, v in sets_t0 + sets_t1 if k and k.endswith("chan_type")}
    rl = literals(pm)
    keys_r = {s for s in rl if s in ("title", "chan_type", "labels") or s.endswith("_type") or s in ("label", "chantype", "chan-type")}
    tokens_r = set()
    # parse_mark and the private helpers only it uses (the token comparison may live in one of them)
    priv_pm = prog.helper_closure({pm.name}, pm.file)
    for g_ in [pm] + [g for g in prog.reachable_fns([pm]) if g.file == pm.file and g.name in priv_pm and g is not pm]:
        for i, n in enumerate(g_.nodes):
            if n["k"] == "CallExpr" and n.get("callee") == "strcmp":
                for a in n["args"]:
                    an = g_.nodes[g_.strip(a)]
                    if an["k"] == "StringLiteral":
                        tokens_r.add(an["s"])
    root_r = [s for s in literals(st) if s.startswith("ovni.")]
    ctx.check(suffixes == {"title", "chan_type", "labels"}, "R17.1", "runtime:mark-keys", mt.loc(),
              "the runtime writes mark keys with suffixes %s" % sorted(suffixes))
    ctx.check(keys_r == suffixes, "R17.1", "emulator:mark-keys", pm.loc(),
              "the emulator reads %s of a mark but the runtime writes %s" % (sorted(keys_r), sorted(suffixes)))
    ctx.check(root_r == ["ovni.mark"], "R17.1", "emulator:mark-root", st.loc(),
              "the emulator looks for marks under %s; the runtime writes them under ovni.mark" % root_r)
    ctx.check(tokens_w == tokens_r == {"single", "stack"}, "R17.1", "chan_type:tokens", pm.loc(),
              "channel type tokens: runtime writes %s, emulator understands %s" % (sorted(tokens_w), sorted(tokens_r)))
    # which token for which flag
    for flag, sets_, want in ((0, sets_t0, "single"), (E("OVNI_MARK_STACK"), sets_t1, "stack")):
        got = [v for k, v in sets_ if k and k.endswith("chan_type")]
        ctx.check(got == [want], "R17.1", "ovni_mark_type:flags=%d->%s" % (flag, want), mt.loc(),
                  "with flags %d the runtime records channel type %s" % (flag, got))
    ctx.check(any(k == "ovni.mark.5.title" and v == "T" for k, v in sets_t0), "R17.1", "ovni_mark_type:title-stored",
              mt.loc(), "the title is not stored under ovni.mark.<type>.title: %s" % sets_t0)
    ctx.check(("ovni.mark.5.labels.3", "L") in sets_l, "R17.1", "ovni_mark_label:label-stored", ml.loc(),
              "the label is not stored under ovni.mark.<type>.labels.<value>: %s" % sets_l)
    for tok, want in (("single", E("CHAN_SINGLE")), ("stack", E("CHAN_STACK"))):
        got = []

        def s_create(ex_, st_, args, f, e, got=got):
            got.append(args[2])
            return [(PTR("MT"), {})]

        def s_getstr(ex_, st_, args, f, e, tok=tok):
            k = args[1][1] if args[1][0] == "str" else ""
            return [(("str", tok if k == "chan_type" else "Title"), {})]

        def s_strcmp(ex_, st_, args, f, e):
            a, b = args[0], args[1]
            if a[0] == "str" and b[0] == "str":
                return [(INT(0 if a[1] == b[1] else 1), {})]
            return None
        ex = absint.Explorer(prog, effects=eff, summaries={
            "strtol": lambda ex_, st_, a, f, e: [(INT(5), {})], "create_mark_type": s_create,
            "json_value_get_object": lambda ex_, st_, a, f, e: [(PTR("MARK"), {})],
            "json_object_get_string": s_getstr, "strcmp": s_strcmp,
            "find_mark_type": lambda ex_, st_, a, f, e: [(NULL, {})],
            "json_object_has_value": lambda ex_, st_, a, f, e: [(INT(0), {})],
            "__errno_location": lambda ex_, st_, a, f, e: [(PTR("ERRNO"), {})]},
            nondet_fields=())
        outs = ex.run(pm, [PTR("MEMU"), ("str", "5"), PTR("MV")], {("ERRNO", ()): INT(0)})
        # endptr checks depend on strtol's out parameter: both outcomes explored
        ctx.check(INT(want) in got, "R17.1", "parse_mark:%s->chan-type" % tok, pm.loc(),
                  "token '%s' creates a channel of type %s" % (tok, got))

    # ---- R17.2 runtime side ----------------------------------------------------------------
    ovni = [m for m in models.discover(prog) if m.name == "ovni"][0]
    decl = {e.mcv: e for e in ovni.events}
    for fname, mcv in (("ovni_mark_push", "OM["), ("ovni_mark_pop", "OM]"), ("ovni_mark_set", "OM=")):
        fn = prog.fn(fname, OV)
        adds, mcvs = [], []

        def s_add(ex_, st_, args, f, e, adds=adds):
            # what is appended: the object the source pointer designates (identified by the value it holds)
            src = args[1]
            held = st_.store.get((src[1], src[2])) if src[0] == "ptr" else None
            adds.append((held, args[2]))
            return [(TOP, {})]

        def s_mcv(ex_, st_, args, f, e, mcvs=mcvs):
            mcvs.append(args[1])
            return [(TOP, {})]
        emitted = []
        ex = absint.Explorer(prog, effects=eff, summaries={
            "ovni_payload_add": s_add, "ovni_ev_set_mcv": s_mcv,
            "ovni_ev_add": lambda ex_, st_, a, f, e, em=emitted: (em.append(1), [(TOP, {})])[1],
            "ovni_clock_now": lambda ex_, st_, a, f, e: [(INT(1), {})]})
        outs = ex.run(fn, [INT(7), INT(42)], {})
        live = [o for o in outs if o.kind in ("ret", "exit")]
        params = [p["name"] for p in fn.params]
        good = bool(live) and mcvs == [("str", mcv)] and len(adds) == 2 and emitted == [1]
        if good:
            (p0, n0), (p1, n1) = adds
            # called with type 7 and value 42: first the 8 bytes of the value, then the 4 bytes of the type
            good = n0 == INT(8) and n1 == INT(4) and p0 == INT(42) and p1 == INT(7)
        ctx.check(good, "R17.2", "%s:emits-%s(value,type)" % (fname, mcv), fn.loc(),
                  "%s builds MCV %s with payload parts %s" % (fname, mcvs, [(str(a[0])[:40], a[1]) for a in adds]))
        d = decl.get(mcv)
        okd = d is not None and d.parsed and [(a[0], a[2]) for a in d.parsed["args"]] == [("i64", 0), ("i32", 8)] \
            and d.parsed["payload_size"] == 12
        ctx.check(okd, "R17.2", "catalogue:%s:(i64@0,i32@8)" % mcv, "%s:%d" % (ovni.evlist_global["file"], d.line if d else 0),
                  "the catalogue declares %s as '%s'" % (mcv, d.sig if d else None))
        # refusal of zero
        outs = ex.run(fn, [INT(7), INT(0)], {})
        ctx.check(outs and all(o.kind == "die" for o in outs), "R17.3", "%s:zero-value-refused" % fname, fn.loc(),
                  "%s accepts the value 0 (shown as 'no value' in Paraver)" % fname)

    # ---- R17.2 emulator side -------------------------------------------------------------------
    me = prog.fn("mark_event", MK)

    def run_event(v, psize=12, value=42, typ=7, found=True):
        calls = []

        def mk(name):
            def s(ex_, st_, args, f, e):
                calls.append((name, tuple(args)))
                return [(INT(0), {})]
            return s
        ex = absint.Explorer(prog, effects=eff, summaries={
            "chan_push": mk("chan_push"), "chan_pop": mk("chan_pop"), "chan_set": mk("chan_set"),
            "value_int64": lambda ex_, st_, a, f, e: [(("val", "i64", a[0]), {})],
            "extend_get": lambda ex_, st_, a, f, e: [(PTR("EXT:%s" % (a[0][1] if a[0][0] == "ptr" else "?")), {})],
            "find_mark_type": lambda ex_, st_, a, f, e, found=found, calls=calls:
                (calls.append(("find", tuple(a))), [((PTR("MT") if found else NULL), {})])[1]},
            field_values={("ovni_mark_thread", "channels"): PTR("CHS", (0,))})
        store = {("EMU", F("emu", "ev")): PTR("EV"), ("EMU", F("emu", "thread")): PTR("TH"),
                 ("EV", F("emu_ev", "payload_size")): INT(psize), ("EV", F("emu_ev", "payload")): PTR("PL"),
                 ("EV", F("emu_ev", "v")): INT(ord(v)),
                 ("PL", F("ovni_ev_payload", "i64") + (0,)): INT(value),
                 ("PL", F("ovni_ev_payload", "i32") + (2,)): INT(typ),
                 ("PL", F("ovni_ev_payload", "i32") + (0,)): INT(-1), ("PL", F("ovni_ev_payload", "i32") + (1,)): INT(-2),
                 ("MT", F("mark_type", "index")): INT(3)}
        outs = ex.run(me, [PTR("EMU")], store)
        acc = [o for o in outs if o.kind == "ret" and o.ret == INT(0)]
        return acc, calls
    for v, want in (("[", "chan_push"), ("]", "chan_pop"), ("=", "chan_set")):
        acc, calls = run_event(v)
        eff_calls = [c for c in calls if c[0].startswith("chan_")]
        find = [c for c in calls if c[0] == "find"]
        good = bool(acc) and [c[0] for c in eff_calls] == [want] and \
            eff_calls[0][1] == (PTR("CHS", (3,)), ("val", "i64", INT(42))) and find and find[0][1][1] == INT(7)
        ctx.check(good, "R17.2", "mark_event:%s->%s" % (v, want), me.loc(),
                  "event OM%s does %s (type looked up: %s); expected %s(channel of the type, value)" %
                  (v, [(c[0], [str(a) for a in c[1]]) for c in eff_calls], [str(c[1][1]) for c in find], want))
    for ps in (0, 8, 11, 13, 16):
        acc, calls = run_event("=", psize=ps)
        ctx.check(not acc and not [c for c in calls if c[0].startswith("chan_")], "R17.2",
                  "mark_event:payload=%d-refused" % ps, me.loc(), "a mark event with %d payload bytes is accepted" % ps)
    acc, calls = run_event("?")
    ctx.check(not acc, "R17.2", "mark_event:unknown-value-refused", me.loc(), "an unknown mark event value is accepted")

    # ---- R17.3 -------------------------------------------------------------------------------------
    acc, calls = run_event("=", value=0)
    ctx.check(not acc and not [c for c in calls if c[0].startswith("chan_")], "R17.3", "mark_event:zero-value-refused",
              me.loc(), "the emulator accepts a mark with value 0")
    acc, calls = run_event("=", found=False)
    ctx.check(not acc and not [c for c in calls if c[0].startswith("chan_")], "R17.3", "mark_event:undefined-type-refused",
              me.loc(), "the emulator accepts a mark of a type no thread defined")

    def rt_dies(fn, args, defined):
        sums = meta_getters(defined)
        sums.update({"get_thread_metadata": lambda ex_, st_, a, f, e: [(PTR("META"), {})],
                     "json_object_dotset_string": lambda ex_, st_, a, f, e: [(INT(0), {})],
                     "snprintf": lambda ex_, st_, a, f, e: [(INT(10), {})],
                     "__builtin___snprintf_chk": lambda ex_, st_, a, f, e: [(INT(10), {})]})
        ex = absint.Explorer(prog, effects=eff, summaries=sums)
        outs = ex.run(fn, args, {})
        return bool(outs) and all(o.kind == "die" for o in outs), bool([o for o in outs if o.kind in ("ret", "exit")])
    for t in (-1, 0, 99, 100, 250):
        dies, lives = rt_dies(mt, [INT(t), INT(0), ("str", "T")], [False])
        inst = "ovni_mark_type:type=%d" % t
        if 0 <= t < 100:
            ctx.check(lives, "R17.3", inst, mt.loc(), "a valid mark type %d is refused" % t)
        else:
            ctx.check(dies, "R17.3", inst, mt.loc(), "mark type %d outside [0,100) is accepted" % t)
    dies, lives = rt_dies(mt, [INT(5), INT(0), ("str", "T")], [True])
    ctx.check(dies, "R17.3", "ovni_mark_type:redefinition-refused", mt.loc(), "a mark type can be defined twice")
    dies, lives = rt_dies(mt, [INT(5), INT(0), NULL], [False])
    ctx.check(dies, "R17.3", "ovni_mark_type:null-title-refused", mt.loc(), "a mark type without title is accepted")
    for (t, v, defined, want_die, what) in ((5, 1, [True, False], False, "valid label"),
                                           (5, 0, [True, False], True, "label for value 0"),
                                           (5, -3, [True, False], True, "label for a negative value"),
                                           (5, 1, [False, False], True, "label for an undefined type"),
                                           (5, 1, [True, True], True, "second label for the same value"),
                                           (100, 1, [True, False], True, "label for a type outside [0,100)")):
        dies, lives = rt_dies(ml, [INT(t), INT(v), ("str", "L")], defined)
        inst = "ovni_mark_label:%s" % what.replace(" ", "-")
        if want_die:
            ctx.check(dies, "R17.3", inst, ml.loc(), "the runtime accepts a %s" % what)
        else:
            ctx.check(lives, "R17.3", inst, ml.loc(), "the runtime refuses a %s" % what)

    # emulator conflicts
    def run_parse(typestr_val, title, chan, existing, labels=None):
        """labels: None = the mark has no label table; 0 / -1 = it has one and parse_labels returns that."""
        parsed = []
        def s_getstr(ex_, st_, args, f, e):
            k = args[1][1] if args[1][0] == "str" else ""
            return [(("str", chan if k == "chan_type" else title), {})]

        def s_strcmp(ex_, st_, args, f, e):
            a, b = args[0], args[1]
            sa = a[1] if a[0] == "str" else None
            sb = b[1] if b[0] == "str" else None
            if a == PTR("MT", F("mark_type", "title") + (0,)):
                sa = existing[0] if existing else None
            if sa is None or sb is None:
                return None
            return [(INT(0 if sa == sb else 1), {})]

        def s_strtol(ex_, st_, args, f, e):
            upd = {}
            if args[1][0] == "ptr":
                upd[(args[1][1], args[1][2])] = PTR("STREND")
            return [(INT(typestr_val), upd)]
        created = []
        ex = absint.Explorer(prog, effects=eff, summaries={
            "strtol": s_strtol, "json_value_get_object": lambda ex_, st_, a, f, e: [(PTR("MARK"), {})],
            "json_object_get_string": s_getstr, "strcmp": s_strcmp,
            "find_mark_type": lambda ex_, st_, a, f, e: [((PTR("MT") if existing else NULL), {})],
            "create_mark_type": lambda ex_, st_, a, f, e, c=created: (c.append(tuple(a)), [(PTR("NEWMT"), {})])[1],
            "json_object_has_value": lambda ex_, st_, a, f, e: [(INT(0 if labels is None else 1), {})],
            "json_object_get_object": lambda ex_, st_, a, f, e: [(PTR("LABELS"), {})],
            "parse_labels": lambda ex_, st_, a, f, e: (parsed.append(tuple(a)), [(INT(labels or 0), {})])[1],
            "__errno_location": lambda ex_, st_, a, f, e: [(PTR("ERRNO"), {})]})
        store = {("ERRNO", ()): INT(0), ("STREND", (0,)): INT(0), ("STREND", ()): INT(0)}
        if existing:
            store[("MT", F("mark_type", "ctype"))] = INT(E("CHAN_STACK") if existing[1] == "stack" else E("CHAN_SINGLE"))
        outs = ex.run(pm, [PTR("MEMU"), ("str", "5"), PTR("MV")], store)
        acc = [o for o in outs if o.kind == "ret" and o.ret == INT(0)]
        rej = [o for o in outs if o.kind == "ret" and o.ret != INT(0)]
        if labels is not None:
            return acc, rej, parsed
        return acc, rej, created
    # label tables are merged for every thread that defines the type, not only for the first one
    for (existing, lret, what) in ((None, 0, "new type with labels"), (("A", "single"), 0, "existing type, more labels"),
                                   (("A", "single"), -1, "existing type, conflicting label"),
                                   (None, -1, "new type, bad label")):
        acc, rej, parsed = run_parse(5, "A", "single", existing, labels=lret)
        inst = "parse_mark:labels:%s" % what.replace(" ", "-").replace(",", "")
        tobj = PTR("MT") if existing else PTR("NEWMT")
        if lret == 0:
            ctx.check(bool(acc) and (tobj, PTR("LABELS")) in parsed, "R17.3", inst, pm.loc(),
                      "the labels a thread gives for a%s mark type are not merged into it (parse_labels calls: %s): "
                      "labels are lost and conflicts between threads go unnoticed" %
                      ("n already defined" if existing else " new", parsed))
        else:
            ctx.check(not acc and bool(rej), "R17.3", inst, pm.loc(),
                      "a label conflict found while merging the labels of a%s mark type is not refused" %
                      ("n already defined" if existing else " new"))
    for (tv, title, chan, existing, want, what) in (
            (5, "A", "single", None, True, "new type"),
            (5, "A", "single", ("A", "single"), True, "same definition from another thread"),
            (5, "B", "single", ("A", "single"), False, "title conflict"),
            (5, "A", "stack", ("A", "single"), False, "channel type conflict"),
            (5, "A", "queue", None, False, "unknown channel type"),
            (100, "A", "single", None, False, "type 100"),
            (-1, "A", "single", None, False, "negative type")):
        acc, rej, created = run_parse(tv, title, chan, existing)
        inst = "parse_mark:%s" % what.replace(" ", "-")
        if want:
            ctx.check(bool(acc), "R17.3", inst, pm.loc(), "the emulator refuses a %s" % what)
        else:
            ctx.check(not acc and bool(rej), "R17.3", inst, pm.loc(), "the emulator accepts a %s" % what)
    al = prog.fn("add_label", MK)
    for (exists, same, want) in ((False, False, True), (True, True, True), (True, False, False)):
        # the registered label is a concrete string of the abstract store: compared with strcmp or by hand
        from rules.strutil import FOLD as _FOLD
        sums_al = dict(_FOLD)
        sums_al.update({
            "find_label": lambda ex_, st_, a, f, e, x=exists: [((PTR("LAB") if x else NULL), {})],
            "calloc": lambda ex_, st_, a, f, e: [(PTR("NEWLAB"), {})],
            "snprintf": lambda ex_, st_, a, f, e: [(INT(3), {})], "__builtin___snprintf_chk": lambda ex_, st_, a, f, e: [(INT(3), {})]})
        ex = absint.Explorer(prog, effects=eff, summaries=sums_al, loop_bound=12 if exists else 2)
        outs = ex.run(al, [PTR("MT"), INT(3), ("str", "lab")],
                      {("LAB", F("mark_label", "label")): ("str", "lab" if same else "lag")})
        acc = [o for o in outs if o.kind == "ret" and o.ret == INT(0)]
        inst = "add_label:exists=%s:same=%s" % (exists, same)
        if want:
            ctx.check(bool(acc), "R17.3", inst, al.loc(), "a consistent label is refused")
        else:
            ctx.check(not acc, "R17.3", inst, al.loc(), "two threads can give different labels to one value")

    # ---- R17.4 ----------------------------------------------------------------------------------------
    cm = prog.fn("create_mark_type", MK)
    ex = absint.Explorer(prog, effects=eff, summaries={
        "find_mark_type": lambda ex_, st_, a, f, e: [(NULL, {})],
        "calloc": lambda ex_, st_, a, f, e: [(PTR("NEWMT"), {})],
        "snprintf": lambda ex_, st_, a, f, e: [(INT(3), {})], "__builtin___snprintf_chk": lambda ex_, st_, a, f, e: [(INT(3), {})]})
    for ctype in (E("CHAN_SINGLE"), E("CHAN_STACK")):
        outs = ex.run(cm, [PTR("MEMU"), INT(7), INT(ctype), ("str", "T")], {("MEMU", F("ovni_mark_emu", "ntypes")): INT(2)})
        acc = [o for o in outs if o.kind == "ret" and o.ret == PTR("NEWMT")]
        base = E("PRV_OVNI_MARK")
        good = bool(acc) and all(o.store.get(("NEWMT", F("mark_type", "prvtype"))) == INT(base + 7) and
                                 o.store.get(("NEWMT", F("mark_type", "ctype"))) == INT(ctype) and
                                 o.store.get(("NEWMT", F("mark_type", "index"))) == INT(2) and
                                 o.store.get(("MEMU", F("ovni_mark_emu", "ntypes"))) == INT(3) for o in acc)
        ctx.check(good, "R17.4", "create_mark_type:ctype=%d" % ctype, cm.loc(),
                  "mark type 7 is created with prvtype %s / ctype %s" %
                  ([o.store.get(("NEWMT", F("mark_type", "prvtype"))) for o in acc],
                   [o.store.get(("NEWMT", F("mark_type", "ctype"))) for o in acc]))
    ctx.check(E("PRV_OVNI_MARK") == 100, "R17.4", "PRV_OVNI_MARK=100", "src/emu/emu_prv.h",
              "PRV_OVNI_MARK is %d, documented 100" % E("PRV_OVNI_MARK"))
    # evaluated with one mark type of each channel kind: what track_init / chan_init receive (public functions
    # of other modules, recorded at the call), however the values get there
    for fname, want in (("create_thread_chan", "TRACK_TH_ACT"), ("init_cpu", "TRACK_TH_RUN")):
        fn = prog.fn(fname, MK)
        for ctype_name in ("CHAN_SINGLE", "CHAN_STACK"):
            modes, kinds = [], []
            sums4 = {"track_init": lambda ex_, st_, a, f, e, modes=modes: (modes.append(a[3]), [(INT(0), {})])[1],
                     "chan_init": lambda ex_, st_, a, f, e, kinds=kinds: (kinds.append(a[1]), [(TOP, {})])[1],
                     "calloc": lambda ex_, st_, a, f, e: [(PTR("MEM%d" % (len(modes) + len(kinds) + e), (0,)), {})],
                     "extend_get": lambda ex_, st_, a, f, e: [(PTR("EXT"), {})],
                     "bay_register": lambda ex_, st_, a, f, e: [(INT(0), {})],
                     "chan_prop_set": lambda ex_, st_, a, f, e: [(TOP, {})]}
            ex4 = absint.Explorer(prog, effects=eff, summaries=sums4, loop_bound=4)
            store4 = {("MEMU", F("ovni_mark_emu", "ntypes")): INT(1), ("MEMU", F("ovni_mark_emu", "types")): PTR("MT1"),
                      ("MT1", F("mark_type", "index")): INT(0), ("MT1", F("mark_type", "type")): INT(5),
                      ("MT1", F("mark_type", "ctype")): INT(E(ctype_name)),
                      ("MT1", F("mark_type", "hh") + F("UT_hash_handle", "next")): NULL}
            outs4 = ex4.run(fn, [PTR("MEMU"), PTR("BAY"), PTR("OBJ")], store4)
            acc4 = [o for o in outs4 if o.kind == "ret" and o.ret == INT(0)]
            ctx.check(bool(acc4) and modes and all(m == INT(E(want)) for m in modes), "R17.4",
                      "%s:tracking=%s:%s" % (fname, want, ctype_name), fn.loc(),
                      "%s initialises the mark tracks with mode %s, documented %s" % (fname, modes, want))
            if fname == "create_thread_chan":
                ctx.check(kinds and all(k_ == INT(E(ctype_name)) for k_ in kinds), "R17.4",
                          "create_thread_chan:channel-kind-from-type:%s" % ctype_name, fn.loc(),
                          "a mark type declared %s gets channels of kind %s" % (ctype_name, kinds))


_run_base = run


def run(ctx):
    _run_base(ctx)
    prog = ctx.prog
    ctx.rule("R17.5", "marks are shown exactly while the thread is active and on the CPU where it runs: the "
             "active-thread selector accepts running, cooling and warming (C06 R6.2), a change of selection "
             "disconnects the previous input whatever its index (C06 R6.4), and a migration recounts both the old and "
             "the new CPU (C05 R5.1)")
    from rules import round3
    round3.share(ctx, "R17.5", "C06", lambda i_: (i_["rule"] == "R6.2" and i_["inst"].startswith("thread_select_")) or
                 (i_["rule"] == "R6.4" and i_["inst"].startswith("cb_select:")), "view:",
                 "marks leak into, or vanish from, the thread or CPU timeline", 8)
    round3.share(ctx, "R17.5", "C05", lambda i_: i_["rule"] == "R5.1" and "migrate" in i_["inst"], "migration:",
                 "the CPU the thread left keeps showing its marks", 1)
    ctx.rule("R17.6", "the CPU row of the marks selects on the CPU's running-thread channel (C06 R6.3's instances for "
             "mark.c's own connect function)")
    from rules import round4
    round4.share(ctx, "R17.6", "C06", lambda i_: i_["rule"] == "R6.3" and i_["inst"].startswith("mark:"), "cpu-row:",
                 "a warming thread's marks show on the CPU and the running thread's marks vanish", 2)
    ctx.rule("R17.7", "every label of every stream is checked against what other threads defined: parse_labels hands "
             "each label to add_label - also when the value already has a label - and fails when add_label refuses")
    from rules import round5
    round5.check_every_label_goes_through_add_label(ctx, "R17.7")
    ctx.rule("R17.8", "whether the trace uses marks is decided after every thread was scanned (mark_create on thread "
             "lists where only a later thread defines mark types)")
    from rules import round6
    round6.check_mark_create_scans_all(ctx, "R17.8")
    ctx.rule("R17.9", "every mark type that can be defined can be used: the types ovni_mark_type accepts are accepted "
             "by ovni_mark_push / pop / set")
    from rules import round6
    round6.check_mark_type_range_agrees(ctx, "R17.9")
    ctx.rule("R17.10", "a conflicting definition is refused wherever it stands: the failure of parse_mark (title, channel "
             "type or label conflict between threads) is followed site by site to main's exit status - scan_thread is "
             "evaluated on a thread with three types of which parse_mark refuses every subset: it fails unless none is "
             "refused (a later type must not overwrite an earlier failure)")
    from rules import round8
    round8.check_failure_reaches_main(ctx, "R17.10", "parse_mark", "src/emu/ovni/mark.c", "mark-conflict",
                                      "a title, channel-type or label conflict between threads is accepted", 4)
    round8.check_scan_thread_keeps_failure(ctx, "R17.10")
    ctx.rule("R17.11", "marks show for every thread and CPU, not only for those whose own stream defines types: "
             "connect_thread / connect_cpu connect all elements of a list of three to the Paraver rows whichever of them "
             "carry mark metadata (8 subsets each)")
    round8.check_mark_connect_covers_all(ctx, "R17.11")

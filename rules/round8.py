"""Rules added after the eighth round of seeded changes (cooperating sites, multi-step sequences, rarely taken
fault paths, unusual but legal inputs).  Each function takes the rule id under which the calling property
reports it."""
from ovsa import absint, effects
from ovsa.absint import INT, NULL, PTR, TOP

OV = "src/rt/ovni.c"
O_ACC, O_WRONLY, O_RDWR, O_CREAT, O_TRUNC, O_APPEND = 3, 1, 2, 0o100, 0o1000, 0o2000


# ------------------------------------------------------------------------------------------------ runtime

def check_final_copy_truncates(ctx, rule):
    """The relocated stream is exactly the temporary one: on every successful path of move_thread_to_final the
    destination is opened in a way that discards what a previous run left at the same path (fopen "w…",
    open(... O_TRUNC), or the whole file is replaced by rename), never appended to or overwritten in place."""
    prog = ctx.prog
    eff = effects.Effects(prog)
    mtf = prog.fn("move_thread_to_final", OV)
    SRC, DST = ("str", "TMP/stream.obs"), ("str", "FINAL/stream.obs")

    def s_fopen(ex_, st, a, f_, e):
        mode = a[1][1] if len(a) > 1 and a[1][0] == "str" else "?"
        return [(PTR("FILE:" + mode), {})]

    def s_fdopen(ex_, st, a, f_, e):
        mode = a[1][1] if len(a) > 1 and a[1][0] == "str" else "?"
        return [(PTR("FDFILE:" + mode), {})]
    zero = lambda ex_, st, a, f_, e: [(INT(0), {})]
    sums = {"fopen": s_fopen, "fdopen": s_fdopen, "open": lambda ex_, st, a, f_, e: [(INT(9), {})],
            "creat": lambda ex_, st, a, f_, e: [(INT(9), {})],
            "fread": zero, "read": zero, "ferror": zero, "fclose": zero, "close": zero, "fflush": zero, "fsync": zero,
            "fdatasync": zero, "remove": zero, "unlink": zero, "rename": zero, "feof": lambda ex_, st, a, f_, e: [(INT(1), {})]}
    ex = absint.Explorer(prog, effects=eff, summaries=sums, loop_bound=3)
    outs = [o for o in ex.run(mtf, [SRC, DST], {}) if o.kind == "ret" and o.ret == INT(0)]
    ctx.need(outs, "move_thread_to_final: no successful path")
    bad, seen = [], 0
    for o in outs:
        calls = [(ev[1], ev[2]) for ev in o.events if ev[0] == "call"]
        opens = []
        for name, a in calls:
            if not a or a[0] != DST and not (name == "rename" and len(a) > 1 and a[1] == DST):
                continue
            if name in ("fopen", "freopen"):
                mode = a[1][1] if len(a) > 1 and a[1][0] == "str" else None
                opens.append(("fopen mode %r" % mode, mode is not None and mode[:1] == "w"))
            elif name == "open":
                fl = a[1] if len(a) > 1 else TOP
                ctx.need(fl[0] == "int", "move_thread_to_final: open() flags of the destination are not a constant")
                opens.append(("open flags %#o" % fl[1], bool(fl[1] & O_TRUNC) and not fl[1] & O_APPEND
                              and (fl[1] & O_ACC) in (O_WRONLY, O_RDWR)))
            elif name == "creat":
                opens.append(("creat", True))
            elif name == "rename":
                opens.append(("rename", True))
        ctx.need(opens, "move_thread_to_final: a successful path never opens or replaces the destination (calls: %s)"
                 % sorted({c[0] for c in calls}))
        seen += 1
        if not opens[0][1]:
            bad.append("the destination is opened with %s" % opens[0][0])
    ctx.check(not bad, rule, "move_thread_to_final:destination-truncated", mtf.loc(),
              "%s: what an earlier run left at the same path survives after the end of the copy, so the final stream is "
              "not the stream the thread wrote" % "; ".join(sorted(set(bad))),
              note="%d successful paths" % seen)


def check_copy_all_sizes(ctx, rule):
    """The relocation copy is complete for a source of any size: move_thread_to_final is evaluated against a model
    of stdio (fread returns what is left, at most the chunk; end-of-file is flagged only by a short read) on files of
    0 bytes, less than a chunk, exactly one, two and three chunks and a chunk plus a rest.  It must return 0, hand
    every byte to fwrite exactly once and in order, and remove the source."""
    prog = ctx.prog
    eff = effects.Effects(prog)
    mtf = prog.fn("move_thread_to_final", OV)
    SRC, DST = ("str", "TMP/stream.obs"), ("str", "FINAL/stream.obs")
    LEFT, EOF_, WR, CH = ("MODEL", ("left",)), ("MODEL", ("eof",)), ("MODEL", ("written",)), ("MODEL", ("chunk",))

    def s_fopen(ex_, st, a, f_, e):
        mode = a[1][1] if len(a) > 1 and a[1][0] == "str" else "?"
        return [(PTR("FILE:" + mode[:1]), {})]

    def s_fread(ex_, st, a, f_, e):
        if len(a) < 4 or a[1][0] != "int" or a[2][0] != "int":
            return [(TOP, {})]
        want = a[1][1] * a[2][1]
        left = st.store[LEFT][1]
        got = min(left, want)
        upd = {LEFT: INT(left - got), CH: INT(want)}
        if got < want:
            upd[EOF_] = INT(1)
        return [(INT(got // a[1][1] if a[1][1] else 0), upd)]

    def s_fwrite(ex_, st, a, f_, e):
        if len(a) < 4 or a[1][0] != "int" or a[2][0] != "int":
            return [(TOP, {WR: TOP})]
        w = st.store[WR]
        return [(a[2], {WR: INT(w[1] + a[1][1] * a[2][1]) if w[0] == "int" else TOP})]
    zero = lambda ex_, st, a, f_, e: [(INT(0), {})]
    sums = {"fopen": s_fopen, "fread": s_fread, "fwrite": s_fwrite, "ferror": zero, "fclose": zero, "fflush": zero,
            "fsync": zero, "fileno": lambda ex_, st, a, f_, e: [(INT(9), {})], "remove": zero, "unlink": zero,
            "feof": lambda ex_, st, a, f_, e: [(st.store[EOF_], {})]}
    # the chunk is whatever the function asks fread for: found with a first run on an empty file
    ex = absint.Explorer(prog, effects=eff, summaries=sums, loop_bound=8)
    probe = ex.run(mtf, [SRC, DST], {LEFT: INT(0), EOF_: INT(0), WR: INT(0), CH: INT(0)})
    chunks = {o.store.get(CH) for o in probe if o.kind == "ret"}
    ctx.need(len(chunks) == 1 and list(chunks)[0][0] == "int" and list(chunks)[0][1] > 0,
             "move_thread_to_final: the chunk size of the copy is not a constant (%s)" % chunks)
    chunk = list(chunks)[0][1]
    for size, tag in ((0, "empty"), (chunk - 24, "below-one-chunk"), (chunk, "one-chunk"), (2 * chunk, "two-chunks"),
                      (3 * chunk, "three-chunks"), (chunk + 24, "chunk-and-rest")):
        outs = ex.run(mtf, [SRC, DST], {LEFT: INT(size), EOF_: INT(0), WR: INT(0), CH: INT(0)})
        bad = []
        if len(outs) != 1:
            bad.append("%d outcomes (%s)" % (len(outs), sorted({o.kind for o in outs})))
        for o in outs:
            calls = [ev[1] for ev in o.events if ev[0] == "call"]
            if o.kind != "ret" or o.ret != INT(0):
                bad.append("ends with %s %s" % (o.kind, o.ret if o.kind == "ret" else ""))
            elif o.store.get(WR) != INT(size):
                bad.append("writes %s of %d bytes" % (o.store.get(WR), size))
            elif "remove" not in calls and "unlink" not in calls:
                bad.append("the source is not removed")
        ctx.check(not bad, rule, "move_thread_to_final:source-of-%d-bytes:%s" % (size, tag), mtf.loc(),
                  "a stream of %d bytes (chunk %d) is not relocated although no operation fails: %s; the stream and "
                  "its metadata stay behind in the temporary directory" % (size, chunk, "; ".join(sorted(set(bad)))))


# ------------------------------------------------------------------------------------------------ thread life cycle

def check_lifecycle_accepts_whatever_the_cpu_holds(ctx, rule):
    """A legal life-cycle transition is refused only by the layers below (a failing recount, i.e. real
    oversubscription): with every call out of ovni/event.c succeeding, pre_thread returns 0 on every path of every
    documented (event, state) cell, whatever else the CPU holds - nothing, a paused thread, a cooling or warming
    thread, and for the virtual CPU other running threads."""
    import json
    import os
    prog = ctx.prog
    EVFILE = "src/emu/ovni/event.c"
    sp = json.load(open(os.path.join(os.path.dirname(os.path.dirname(os.path.abspath(__file__))), "spec", "C04.json")))
    eff = effects.Effects(prog)
    pre_thread = prog.fn("pre_thread", EVFILE)

    def F(rec, field):
        return ((rec, field),)

    def unk(cal, args, f, e):
        d = prog.decls.get(cal) if cal else None
        if d and d[0]["ret"].rstrip().endswith("*"):
            return [PTR("CPUX") if "cpu" in cal else PTR("ret:" + cal)]
        return [INT(0)]
    ex = absint.Explorer(prog, inline=lambda n, d: d.file == EVFILE, effects=eff, on_unknown_call=unk)
    n = 0
    for ch, evs in sorted(sp["events"].items()):
        for stname in evs["from"]:
            own_run = 1 if (stname in sp["running"] and ch != "x") else 0
            own_act = 1 if (stname in sp["active"] and ch != "x") else 0
            for virt, orun, oact in ((0, 0, 0), (0, 0, 1), (0, 0, 2), (1, 0, 1), (1, 1, 1), (1, 2, 3)):
                st = {("EMU", F("emu", "thread")): PTR("TH"), ("EMU", F("emu", "ev")): PTR("EV"),
                      ("EMU", F("emu", "loom")): PTR("LOOM"),
                      ("TH", F("thread", "state")): INT(prog.enum_val(stname)),
                      ("TH", F("thread", "cpu")): PTR("CPU0") if sp["states"][stname]["cpu"] else NULL,
                      ("TH", F("thread", "tid")): INT(4242),
                      ("TH", F("thread", "is_running")): INT(1 if stname in sp["running"] else 0),
                      ("TH", F("thread", "is_active")): INT(1 if stname in sp["active"] else 0),
                      ("EV", F("emu_ev", "v")): INT(ord(ch)), ("EV", F("emu_ev", "payload_size")): INT(4),
                      ("EV", F("emu_ev", "has_payload")): INT(1), ("EV", F("emu_ev", "payload")): PTR("PAY")}
                for c in ("CPU0", "CPUX"):
                    st[(c, F("cpu", "is_virtual"))] = INT(virt)
                    st[(c, F("cpu", "nth_running"))] = INT(orun + own_run)
                    st[(c, F("cpu", "nth_active"))] = INT(oact + own_act)
                    st[(c, F("cpu", "nthreads"))] = INT(oact + 1 + (1 if ch != "x" else 0))
                outs = ex.run(pre_thread, [PTR("EMU")], st)
                rets = [o for o in outs if o.kind == "ret"]
                ctx.need(rets and all(o.ret is not None and o.ret[0] == "int" for o in rets),
                         "pre_thread cannot be evaluated with succeeding callees (%s in %s)" % (evs["name"], stname))
                refused = [o for o in outs if o.kind != "ret" or o.ret[1] != 0]
                n += 1
                ctx.check(not refused, rule, "%s:%s:cpu-%s-others-running-%d-active-%d" %
                          (evs["name"], stname, "virtual" if virt else "physical", orun, oact), pre_thread.loc(),
                          "the documented transition %s from %s is refused by the handler itself on %d of %d paths although "
                          "every callee succeeds, when the %s CPU holds %d other running and %d other active threads: only "
                          "running threads oversubscribe a CPU" %
                          (evs["name"], stname, len(refused), len(outs), "virtual" if virt else "physical", orun, oact))
    ctx.need(n >= 48, "only %d (event, state, CPU content) cells evaluated" % n)

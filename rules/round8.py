"""Rules added after the eighth round of seeded changes (cooperating sites, multi-step sequences, rarely taken
fault paths, unusual but legal inputs).  Each function takes the rule id under which the calling property
reports it."""
from ovsa import absint, effects
from ovsa.absint import INT, NULL, PTR, TOP

OV = "src/rt/ovni.c"
O_ACC, O_WRONLY, O_RDWR, O_CREAT, O_TRUNC, O_APPEND = 3, 1, 2, 0o100, 0o1000, 0o2000


# ------------------------------------------------------------------------------------------------ runtime

def check_final_copy_truncates(ctx, rule):
    """The relocated stream is exactly the temporary one: on every successful path of move_thread_to_final the
    destination is opened in a way that discards what a previous run left at the same path (fopen "w…",
    open(... O_TRUNC), or the whole file is replaced by rename), never appended to or overwritten in place."""
    prog = ctx.prog
    eff = effects.Effects(prog)
    mtf = prog.fn("move_thread_to_final", OV)
    SRC, DST = ("str", "TMP/stream.obs"), ("str", "FINAL/stream.obs")

    def s_fopen(ex_, st, a, f_, e):
        mode = a[1][1] if len(a) > 1 and a[1][0] == "str" else "?"
        return [(PTR("FILE:" + mode), {})]

    def s_fdopen(ex_, st, a, f_, e):
        mode = a[1][1] if len(a) > 1 and a[1][0] == "str" else "?"
        return [(PTR("FDFILE:" + mode), {})]
    zero = lambda ex_, st, a, f_, e: [(INT(0), {})]
    sums = {"fopen": s_fopen, "fdopen": s_fdopen, "open": lambda ex_, st, a, f_, e: [(INT(9), {})],
            "creat": lambda ex_, st, a, f_, e: [(INT(9), {})],
            "fread": zero, "read": zero, "ferror": zero, "fclose": zero, "close": zero, "fflush": zero, "fsync": zero,
            "fdatasync": zero, "remove": zero, "unlink": zero, "rename": zero, "feof": lambda ex_, st, a, f_, e: [(INT(1), {})]}
    ex = absint.Explorer(prog, effects=eff, summaries=sums, loop_bound=3)
    outs = [o for o in ex.run(mtf, [SRC, DST], {}) if o.kind == "ret" and o.ret == INT(0)]
    ctx.need(outs, "move_thread_to_final: no successful path")
    bad, seen = [], 0
    for o in outs:
        calls = [(ev[1], ev[2]) for ev in o.events if ev[0] == "call"]
        opens = []
        for name, a in calls:
            if not a or a[0] != DST and not (name == "rename" and len(a) > 1 and a[1] == DST):
                continue
            if name in ("fopen", "freopen"):
                mode = a[1][1] if len(a) > 1 and a[1][0] == "str" else None
                opens.append(("fopen mode %r" % mode, mode is not None and mode[:1] == "w"))
            elif name == "open":
                fl = a[1] if len(a) > 1 else TOP
                ctx.need(fl[0] == "int", "move_thread_to_final: open() flags of the destination are not a constant")
                opens.append(("open flags %#o" % fl[1], bool(fl[1] & O_TRUNC) and not fl[1] & O_APPEND
                              and (fl[1] & O_ACC) in (O_WRONLY, O_RDWR)))
            elif name == "creat":
                opens.append(("creat", True))
            elif name == "rename":
                opens.append(("rename", True))
        ctx.need(opens, "move_thread_to_final: a successful path never opens or replaces the destination (calls: %s)"
                 % sorted({c[0] for c in calls}))
        seen += 1
        if not opens[0][1]:
            bad.append("the destination is opened with %s" % opens[0][0])
    ctx.check(not bad, rule, "move_thread_to_final:destination-truncated", mtf.loc(),
              "%s: what an earlier run left at the same path survives after the end of the copy, so the final stream is "
              "not the stream the thread wrote" % "; ".join(sorted(set(bad))),
              note="%d successful paths" % seen)


def check_copy_all_sizes(ctx, rule):
    """The relocation copy is complete for a source of any size: move_thread_to_final is evaluated against a model
    of stdio (fread returns what is left, at most the chunk; end-of-file is flagged only by a short read) on files of
    0 bytes, less than a chunk, exactly one, two and three chunks and a chunk plus a rest.  It must return 0, hand
    every byte to fwrite exactly once and in order, and remove the source."""
    prog = ctx.prog
    eff = effects.Effects(prog)
    mtf = prog.fn("move_thread_to_final", OV)
    SRC, DST = ("str", "TMP/stream.obs"), ("str", "FINAL/stream.obs")
    LEFT, EOF_, WR, CH = ("MODEL", ("left",)), ("MODEL", ("eof",)), ("MODEL", ("written",)), ("MODEL", ("chunk",))

    def s_fopen(ex_, st, a, f_, e):
        mode = a[1][1] if len(a) > 1 and a[1][0] == "str" else "?"
        return [(PTR("FILE:" + mode[:1]), {})]

    def s_fread(ex_, st, a, f_, e):
        if len(a) < 4 or a[1][0] != "int" or a[2][0] != "int":
            return [(TOP, {})]
        want = a[1][1] * a[2][1]
        left = st.store[LEFT][1]
        got = min(left, want)
        upd = {LEFT: INT(left - got), CH: INT(want)}
        if got < want:
            upd[EOF_] = INT(1)
        return [(INT(got // a[1][1] if a[1][1] else 0), upd)]

    def s_fwrite(ex_, st, a, f_, e):
        if len(a) < 4 or a[1][0] != "int" or a[2][0] != "int":
            return [(TOP, {WR: TOP})]
        w = st.store[WR]
        return [(a[2], {WR: INT(w[1] + a[1][1] * a[2][1]) if w[0] == "int" else TOP})]
    zero = lambda ex_, st, a, f_, e: [(INT(0), {})]
    sums = {"fopen": s_fopen, "fread": s_fread, "fwrite": s_fwrite, "ferror": zero, "fclose": zero, "fflush": zero,
            "fsync": zero, "fileno": lambda ex_, st, a, f_, e: [(INT(9), {})], "remove": zero, "unlink": zero,
            "feof": lambda ex_, st, a, f_, e: [(st.store[EOF_], {})]}
    # the chunk is whatever the function asks fread for: found with a first run on an empty file
    ex = absint.Explorer(prog, effects=eff, summaries=sums, loop_bound=8)
    probe = ex.run(mtf, [SRC, DST], {LEFT: INT(0), EOF_: INT(0), WR: INT(0), CH: INT(0)})
    chunks = {o.store.get(CH) for o in probe if o.kind == "ret"}
    ctx.need(len(chunks) == 1 and list(chunks)[0][0] == "int" and list(chunks)[0][1] > 0,
             "move_thread_to_final: the chunk size of the copy is not a constant (%s)" % chunks)
    chunk = list(chunks)[0][1]
    for size, tag in ((0, "empty"), (chunk - 24, "below-one-chunk"), (chunk, "one-chunk"), (2 * chunk, "two-chunks"),
                      (3 * chunk, "three-chunks"), (chunk + 24, "chunk-and-rest")):
        outs = ex.run(mtf, [SRC, DST], {LEFT: INT(size), EOF_: INT(0), WR: INT(0), CH: INT(0)})
        bad = []
        if len(outs) != 1:
            bad.append("%d outcomes (%s)" % (len(outs), sorted({o.kind for o in outs})))
        for o in outs:
            calls = [ev[1] for ev in o.events if ev[0] == "call"]
            if o.kind != "ret" or o.ret != INT(0):
                bad.append("ends with %s %s" % (o.kind, o.ret if o.kind == "ret" else ""))
            elif o.store.get(WR) != INT(size):
                bad.append("writes %s of %d bytes" % (o.store.get(WR), size))
            elif "remove" not in calls and "unlink" not in calls:
                bad.append("the source is not removed")
        ctx.check(not bad, rule, "move_thread_to_final:source-of-%d-bytes:%s" % (size, tag), mtf.loc(),
                  "a stream of %d bytes (chunk %d) is not relocated although no operation fails: %s; the stream and "
                  "its metadata stay behind in the temporary directory" % (size, chunk, "; ".join(sorted(set(bad)))))


# ------------------------------------------------------------------------------------------------ thread life cycle

def check_lifecycle_accepts_whatever_the_cpu_holds(ctx, rule):
    """A legal life-cycle transition is refused only by the layers below (a failing recount, i.e. real
    oversubscription): with every call out of ovni/event.c succeeding, pre_thread returns 0 on every path of every
    documented (event, state) cell, whatever else the CPU holds - nothing, a paused thread, a cooling or warming
    thread, and for the virtual CPU other running threads."""
    import json
    import os
    prog = ctx.prog
    EVFILE = "src/emu/ovni/event.c"
    sp = json.load(open(os.path.join(os.path.dirname(os.path.dirname(os.path.abspath(__file__))), "spec", "C04.json")))
    eff = effects.Effects(prog)
    pre_thread = prog.fn("pre_thread", EVFILE)

    def F(rec, field):
        return ((rec, field),)

    def unk(cal, args, f, e):
        d = prog.decls.get(cal) if cal else None
        if d and d[0]["ret"].rstrip().endswith("*"):
            return [PTR("CPUX") if "cpu" in cal else PTR("ret:" + cal)]
        return [INT(0)]
    ex = absint.Explorer(prog, inline=lambda n, d: d.file == EVFILE, effects=eff, on_unknown_call=unk)
    n = 0
    for ch, evs in sorted(sp["events"].items()):
        for stname in evs["from"]:
            own_run = 1 if (stname in sp["running"] and ch != "x") else 0
            own_act = 1 if (stname in sp["active"] and ch != "x") else 0
            for virt, orun, oact in ((0, 0, 0), (0, 0, 1), (0, 0, 2), (1, 0, 1), (1, 1, 1), (1, 2, 3)):
                st = {("EMU", F("emu", "thread")): PTR("TH"), ("EMU", F("emu", "ev")): PTR("EV"),
                      ("EMU", F("emu", "loom")): PTR("LOOM"),
                      ("TH", F("thread", "state")): INT(prog.enum_val(stname)),
                      ("TH", F("thread", "cpu")): PTR("CPU0") if sp["states"][stname]["cpu"] else NULL,
                      ("TH", F("thread", "tid")): INT(4242),
                      ("TH", F("thread", "is_running")): INT(1 if stname in sp["running"] else 0),
                      ("TH", F("thread", "is_active")): INT(1 if stname in sp["active"] else 0),
                      ("EV", F("emu_ev", "v")): INT(ord(ch)), ("EV", F("emu_ev", "payload_size")): INT(4),
                      ("EV", F("emu_ev", "has_payload")): INT(1), ("EV", F("emu_ev", "payload")): PTR("PAY")}
                for c in ("CPU0", "CPUX"):
                    st[(c, F("cpu", "is_virtual"))] = INT(virt)
                    st[(c, F("cpu", "nth_running"))] = INT(orun + own_run)
                    st[(c, F("cpu", "nth_active"))] = INT(oact + own_act)
                    st[(c, F("cpu", "nthreads"))] = INT(oact + 1 + (1 if ch != "x" else 0))
                outs = ex.run(pre_thread, [PTR("EMU")], st)
                rets = [o for o in outs if o.kind == "ret"]
                ctx.need(rets and all(o.ret is not None and o.ret[0] == "int" for o in rets),
                         "pre_thread cannot be evaluated with succeeding callees (%s in %s)" % (evs["name"], stname))
                refused = [o for o in outs if o.kind != "ret" or o.ret[1] != 0]
                n += 1
                ctx.check(not refused, rule, "%s:%s:cpu-%s-others-running-%d-active-%d" %
                          (evs["name"], stname, "virtual" if virt else "physical", orun, oact), pre_thread.loc(),
                          "the documented transition %s from %s is refused by the handler itself on %d of %d paths although "
                          "every callee succeeds, when the %s CPU holds %d other running and %d other active threads: only "
                          "running threads oversubscribe a CPU" %
                          (evs["name"], stname, len(refused), len(outs), "virtual" if virt else "physical", orun, oact))
    ctx.need(n >= 48, "only %d (event, state, CPU content) cells evaluated" % n)


# ------------------------------------------------------------------------------------------------ task views

def check_task_transition_dispatch(ctx, rule):
    """The task view follows the body that runs after the event.  Both task models reduce an event to a transition
    letter (x, e, p, r, and the nested forms X = execute over a running body, E = end with a body still running) and
    dispatch it to three channel functions.  expand_transition_value is evaluated on the 4 events x 4 (was running,
    runs now) combinations, and update_task_channels on the six letters: x, r publish the body that runs now; e, p
    clear the view; X and E switch from the previous to the current body."""
    import json
    import os
    prog = ctx.prog
    eff = effects.Effects(prog)
    sp = json.load(open(os.path.join(os.path.dirname(os.path.dirname(os.path.abspath(__file__))), "spec", "C07.json")))

    def F(rec, field):
        return ((rec, field),)
    n = 0
    for model in ("nosv", "nanos6"):
        evfile = "src/emu/%s/event.c" % model
        fn = sp[model]["chan_functions"]
        etv = prog.fn("expand_transition_value", evfile)
        utc = prog.fn("update_task_channels", evfile)
        ex = absint.Explorer(prog, effects=eff)
        for v in "xepr":
            for was in (0, 1):
                for now in (0, 1):
                    want = "X" if (v == "x" and was) else "E" if (v == "e" and now) else v
                    # arguments by parameter type and name: the event may arrive through the emulator or by value
                    args, ints = [], [INT(was), INT(now)]
                    for prm in etv.params:
                        ct = prm["ctype"].replace(" ", "")
                        if ct == "structemu*":
                            args.append(PTR("EMU"))
                        elif ct == "char*":
                            args.append(PTR("TR"))
                        elif ct in ("char", "uint8_t", "unsignedchar"):
                            args.append(INT(ord(v)))
                        elif ct == "int" and ints:
                            args.append(ints.pop(0))
                        else:
                            args = None
                            break
                    ctx.need(args is not None and not ints and PTR("TR") in args,
                             "%s: expand_transition_value has parameters this rule cannot map (%s)" %
                             (model, [prm["ctype"] for prm in etv.params]))
                    outs = ex.run(etv, args,
                                  {("EMU", F("emu", "ev")): PTR("EV"), ("EV", F("emu_ev", "v")): INT(ord(v))})
                    acc = [o for o in outs if o.kind == "ret" and o.ret == INT(0)]
                    got = sorted({str(o.store.get(("TR", ()))) for o in acc})
                    n += 1
                    ctx.check(len(acc) == len(outs) and bool(acc) and all(o.store.get(("TR", ())) == INT(ord(want)) for o in acc),
                              rule, "%s:expand_transition_value:%s:was-running-%d:runs-now-%d" % (model, v, was, now),
                              etv.loc(), "event '%s' with a body running before: %d, after: %d must become transition '%s'; "
                              "got %s on %d of %d paths" % (v, was, now, want, got, len(acc), len(outs)))
        for tr, role in (("x", "running"), ("r", "running"), ("e", "stopped"), ("p", "stopped"), ("X", "switch"), ("E", "switch")):
            called = []

            def mk(r):
                def s(ex_, st, a, f_, e, r=r):
                    called.append((r, tuple(a[1:])))
                    return [(INT(0), {})]
                return s
            ex2 = absint.Explorer(prog, effects=eff, summaries={fn[r]: mk(r) for r in fn})
            outs = ex2.run(utc, [PTR("EMU"), INT(ord(tr)), PTR("PREV"), PTR("NEXT")], {})
            acc = [o for o in outs if o.kind == "ret" and o.ret == INT(0)]
            want_args = {"running": (PTR("NEXT"),), "stopped": (), "switch": (PTR("PREV"), PTR("NEXT"))}[role]
            n += 1
            ctx.check(bool(acc) and len(acc) == len(outs) and called == [(role, want_args)], rule,
                      "%s:update_task_channels:%s" % (model, tr), utc.loc(),
                      "transition '%s' must call %s%s exactly once and succeed; it calls %s (%d of %d paths succeed): the "
                      "thread and CPU rows do not show the body that runs after the event" %
                      (tr, fn[role], tuple(str(a) for a in want_args), [(fn[c[0]], tuple(str(a) for a in c[1])) for c in called],
                       len(acc), len(outs)))
    ctx.need(n == 44, "%d transition instances evaluated, 44 expected" % n)


def check_init_after_free_refused(ctx, rule):
    """A thread that was freed has a finished stream (marker written, files possibly relocated): a second
    ovni_thread_init in that thread must be refused before anything is reset, opened or allocated, otherwise the
    second life rewrites the finished stream from offset 0 (or writes to a temporary directory that nobody relocates
    if the process is killed) under metadata that already says finished."""
    from rules.round3 import _rt_store, RT, F
    prog = ctx.prog
    eff = effects.Effects(prog)
    ti = prog.fn("ovni_thread_init", OV)
    io = []

    def mk(name, ret):
        def s(ex_, st, a, f, e):
            io.append(name)
            return [(ret, {})]
        return s
    ex = absint.Explorer(prog, effects=eff, loop_bound=2, max_depth=5, inline=lambda n, d: d.file == OV,
                         summaries={"open": mk("open", INT(9)), "malloc": mk("malloc", PTR("NEWBUF", (0,))),
                                    "mkdir": mk("mkdir", INT(0)), "mkpath": mk("mkpath", INT(0)),
                                    "write": mk("write", TOP), "json_value_init_object": mk("json", PTR("NEWMETA"))})
    store = _rt_store(prog, 0)
    store[(RT, F("ovni_rthread", "finished"))] = INT(1)
    outs = ex.run(ti, [INT(5)], store)
    ctx.need(outs, "ovni_thread_init cannot be evaluated on a finished thread")
    alive = [o for o in outs if o.kind != "die"]
    ctx.check(not alive and not io, rule, "ovni_thread_init:init-after-free-refused", ti.loc(),
              "ovni_thread_init on a thread whose stream is finished returns on %d of %d paths%s: the finished stream is "
              "reopened and rewritten while its metadata says it is complete" %
              (len(alive), len(outs), (" after calling %s" % sorted(set(io))) if io else ""))


# ------------------------------------------------------------------------------------------------ error flow

def check_failure_reaches_main(ctx, rule, fname, file, tag, consequence, min_sites):
    """The failure of `fname` is followed call site by call site (function tables included) up to the exit status of
    ovniemu's main: at no site may it be dropped, overwritten or turned into success."""
    from ovsa import errflow
    prog = ctx.prog
    main = prog.fn("main", "src/emu/ovniemu.c")
    fn = prog.fn(fname, file)
    ef = errflow.ErrFlow(prog, main, registry=errflow.Registry(prog))
    drops = ef.propagates(fn, pointer=fn.ret.rstrip().endswith("*"))
    n_ = 0
    for (g, c, where, ok, detail) in ef.checked_sites:
        n_ += 1
        ctx.check(ok, rule, "%s:%s->%s" % (tag, g, c), where,
                  "the failure of %s is dropped in %s: %s; %s" % (g, c, detail, consequence))
    for (c, n, detail) in drops:
        if n is None:
            ctx.fail(rule, "%s:%s:unreached" % (tag, c.name), c.loc(), detail)
    ctx.need(n_ >= min_sites, "only %d call sites between %s and main" % (n_, fname))


# ------------------------------------------------------------------------------------------------ marks

def check_mark_connect_covers_all(ctx, rule):
    """A mark type needs to be defined by one thread only, and any thread may then use it: the channels the event
    handlers write exist for every thread (R17.8), so the connection to the Paraver rows must cover every thread and
    every CPU too, whatever their own metadata says.  connect_thread / connect_cpu of ovni/mark.c are evaluated on
    lists of three, with the metadata look-ups answering "no mark object" for any subset of them."""
    import itertools
    prog = ctx.prog
    eff = effects.Effects(prog)
    MC = "src/emu/ovni/mark.c"

    def F(rec, field):
        return ((rec, field),)
    n = 0
    for fname, callee, head, link, rec in (("connect_thread", "connect_thread_prv", "threads", "gnext", "thread"),
                                           ("connect_cpu", "connect_cpu_prv", "cpus", "next", "cpu")):
        fn = prog.fn(fname, MC)
        for has in itertools.product((0, 1), repeat=3):
            done = []

            def s_conn(ex_, st, a, f, e):
                done.append(a[1][1] if a[1][0] == "ptr" else "?")
                return [(INT(0), {})]

            def s_meta(ex_, st, a, f, e, has=has):
                # json look-up on an object reached from element Xk: present iff has[k]
                o = a[0]
                k = int(o[1][-1]) if o[0] == "ptr" and isinstance(o[1], str) and o[1][-1:].isdigit() else 0
                return [((PTR("MARKOBJ%d" % k) if has[k] else NULL), {})]
            sums = {callee: s_conn, "recorder_find_pvt": lambda ex_, st, a, f, e: [(PTR("PVT"), {})],
                    "pvt_get_prv": lambda ex_, st, a, f, e: [(PTR("PRV"), {})],
                    "pvt_get_pcf": lambda ex_, st, a, f, e: [(PTR("PCF"), {})],
                    "init_pcf": lambda ex_, st, a, f, e: [(INT(0), {})],
                    "extend_get": lambda ex_, st, a, f, e: [(PTR("OEMU"), {})]}
            for g in ("json_object_dotget_object", "json_object_get_object", "json_object_dotget_value",
                      "json_object_get_value", "json_object_dothas_value", "json_object_has_value"):
                sums[g] = s_meta
            ex = absint.Explorer(prog, effects=eff, loop_bound=5, opaque={callee, "init_pcf"}, summaries=sums)
            store = {("EMU", F("emu", "system") + F("system", head)): PTR("X0"),
                     ("EMU", F("emu", "system") + F("system", "n" + head)): INT(3)}
            for i in range(3):
                store[("X%d" % i, F(rec, link))] = PTR("X%d" % (i + 1)) if i < 2 else NULL
                store[("X%d" % i, F(rec, "meta"))] = PTR("META%d" % i)
            outs = [o for o in ex.run(fn, [PTR("EMU")], store) if o.kind == "ret"]
            n += 1
            good = bool(outs) and all(o.ret == INT(0) for o in outs) and sorted(set(done)) == ["X0", "X1", "X2"]
            ctx.check(good, rule, "%s:own-mark-metadata=%s" % (fname, "".join(map(str, has))), fn.loc(),
                      "with three %ss of which %s carry mark definitions of their own, %s connects %s to the Paraver rows "
                      "(expected all three): a %s that uses a type defined elsewhere loses its marks from the timeline" %
                      (rec, [i for i in range(3) if has[i]], fname, sorted(set(done)), rec))
    ctx.need(n == 16, "%d connect cases" % n)


def check_scan_thread_keeps_failure(ctx, rule):
    """scan_thread walks the mark types of one thread: it must fail when parse_mark refuses any of them, the first
    as well as the last (three types, every non-empty subset refused)."""
    import itertools
    prog = ctx.prog
    eff = effects.Effects(prog)
    st_ = prog.fn("scan_thread", "src/emu/ovni/mark.c")

    def F(rec, field):
        return ((rec, field),)
    n = 0
    for refused in itertools.product((0, 1), repeat=3):
        seen = []

        def s_parse(ex_, st, a, f, e, refused=refused):
            k = a[2][1] if a[2][0] == "ptr" else "?"
            seen.append(k)
            i = int(k[-1]) if k[-1:].isdigit() else 0
            return [(INT(-1 if refused[i] else 0), {})]

        def s_at(prefix):
            def s(ex_, st, a, f, e):
                if len(a) > 1 and a[1][0] == "int":
                    return [(("str", "%d" % (a[1][1] + 1)) if prefix == "name" else PTR("MARKVAL%d" % a[1][1]), {})]
                return [(TOP, {})]
            return s
        sums = {"parse_mark": s_parse, "json_object_dotget_object": lambda ex_, st, a, f, e: [(PTR("MARKS"), {})],
                "json_object_get_object": lambda ex_, st, a, f, e: [(PTR("MARKS"), {})],
                "json_object_get_count": lambda ex_, st, a, f, e: [(INT(3), {})],
                "json_object_get_name": s_at("name"), "json_object_get_value_at": s_at("value")}
        ex = absint.Explorer(prog, effects=eff, loop_bound=6, opaque={"parse_mark"}, summaries=sums)
        outs = [o for o in ex.run(st_, [PTR("MEMU"), PTR("TH")], {("TH", F("thread", "meta")): PTR("META")})
                if o.kind == "ret"]
        ctx.need(outs and all(o.ret is not None and o.ret[0] == "int" for o in outs),
                 "scan_thread cannot be evaluated on a thread with three mark types")
        n += 1
        if any(refused):
            ok_ = all(o.ret[1] != 0 for o in outs)
            what = "returns success on %d of %d paths" % (sum(1 for o in outs if o.ret[1] == 0), len(outs))
        else:
            ok_ = all(o.ret[1] == 0 for o in outs) and sorted(set(seen)) == ["MARKVAL0", "MARKVAL1", "MARKVAL2"]
            what = "fails or parses only %s" % sorted(set(seen))
        ctx.check(ok_, rule, "scan_thread:refused-types=%s" % "".join(map(str, refused)), st_.loc(),
                  "with parse_mark refusing types %s of 3, scan_thread %s: a definition that conflicts with another "
                  "thread's is accepted" % ([i for i in range(3) if refused[i]], what))
    ctx.need(n == 8, "%d scan_thread cases" % n)


# ------------------------------------------------------------------------------------------------ metadata

def check_lib_version_mandatory_everywhere(ctx, rule):
    """ovni.lib.version and ovni.lib.commit are mandatory attributes of every thread stream: report_libovni_version
    is evaluated on three threads with one of the two keys (or the whole metadata) missing in the first, the second or
    the third one; it must fail in all nine cases and succeed when nothing is missing."""
    prog = ctx.prog
    eff = effects.Effects(prog)
    fn = prog.fn("report_libovni_version", "src/emu/system.c")

    def F(rec, field):
        return ((rec, field),)
    cases = [(None, None)] + [(k, what) for k in range(3) for what in ("ovni.lib.version", "ovni.lib.commit", "metadata")]
    n = 0
    for k, what in cases:
        def s_get(ex_, st, a, f, e, k=k, what=what):
            o, key = a[0], a[1]
            if o[0] != "ptr" or key[0] != "str":
                return [(TOP, {})]
            i = int(o[1][-1])
            if i == k and key[1] == what:
                return [(NULL, {})]
            return [(("str", "1.11.0" if key[1].endswith("version") else "abcdef"), {})]

        def s_strcmp(ex_, st, a, f, e):
            if a[0][0] == "str" and a[1][0] == "str":
                return [(INT(0 if a[0][1] == a[1][1] else 1), {})]
            return None
        ex = absint.Explorer(prog, effects=eff, loop_bound=5,
                             summaries={"json_object_dotget_string": s_get, "json_object_get_string": s_get, "strcmp": s_strcmp})
        store = {("SYS", F("system", "threads")): PTR("T0")}
        for i in range(3):
            store[("T%d" % i, F("thread", "gnext"))] = PTR("T%d" % (i + 1)) if i < 2 else NULL
            store[("T%d" % i, F("thread", "meta"))] = NULL if (i == k and what == "metadata") else PTR("META%d" % i)
            store[("T%d" % i, F("thread", "id"))] = ("str", "thread.%d" % i)
        outs = [o for o in ex.run(fn, [PTR("SYS")], store) if o.kind in ("ret", "exit")]
        ctx.need(outs and all(o.kind != "ret" or (o.ret is not None and o.ret[0] == "int") for o in outs),
                 "report_libovni_version cannot be evaluated on three threads")
        n += 1
        succ = [o for o in outs if o.kind == "ret" and o.ret[1] == 0]
        if k is None:
            ctx.check(len(succ) == len(outs), rule, "report_libovni_version:complete-metadata", fn.loc(),
                      "three threads with complete and equal library attributes are refused")
        else:
            ctx.check(not succ, rule, "report_libovni_version:thread-%d-lacks-%s" % (k, what), fn.loc(),
                      "the %s thread of three lacks %s and report_libovni_version still succeeds on %d of %d paths: a "
                      "stream without a mandatory attribute is emulated as ok" % (("first", "second", "third")[k], what, len(succ), len(outs)))
    ctx.need(n == 10, "%d library-attribute cases" % n)


def check_only_relocation_deletes_files(ctx, rule):
    """Who may delete a file: in the runtime (src/rt/ovni.c, src/common.c) a call of remove / unlink / unlinkat /
    rename lies in move_thread_to_final or in a private helper only it uses - the one place where the deletion is
    guarded by a completed copy (R10.2, R10.4).  Directories are removed with rmdir, which refuses non-empty ones."""
    prog = ctx.prog
    DEL = ("remove", "unlink", "unlinkat", "rename", "renameat")
    allowed = set(prog.helper_closure({"move_thread_to_final"}, OV)) | {"move_thread_to_final"}
    sites, bad = 0, []
    for f in sorted(prog.functions.values(), key=lambda g: (g.file, g.line)):
        if f.file not in (OV, "src/common.c"):
            continue
        for i in f.calls():
            cal = f.nodes[i].get("callee")
            if cal in DEL:
                sites += 1
                if not (f.file == OV and f.name in allowed):
                    bad.append("%s() in %s at %s" % (cal, f.name, f.loc(i)))
    ctx.need(sites >= 1, "no remove/unlink call found in the runtime: the relocation is not what this rule knows")
    ctx.check(not bad, rule, "runtime:file-deletion-only-after-copy", prog.fn("move_thread_to_final", OV).loc(),
              "files are deleted outside the relocation copy: %s; nothing there establishes that a complete copy exists "
              "elsewhere, so a stream kept after a failed relocation can lose its only copy" % "; ".join(bad),
              note="%d deletion sites, all in move_thread_to_final" % sites)

"""Shared rules about the small infrastructure every model sits on (value.h, extend.c, chan.c read side,
the Paraver record writer).  Each takes the rule id under which the calling property reports it."""
from ovsa import absint, effects
from ovsa.absint import INT, NULL, PTR, TOP


def F(rec, field):
    return ((rec, field),)


def _memcmp_fields(ex_, st, a, f, e):
    """memcmp of two objects of the abstract store: equal iff every known field agrees."""
    if a[0][0] != "ptr" or a[1][0] != "ptr":
        return None

    def fields(p):
        out = {}
        for k, v in st.store.items():
            if k[0] == p[1] and k[1][:len(p[2])] == p[2] and len(k[1]) > len(p[2]):
                out[k[1][len(p[2]):]] = v
        return out
    x, y = fields(a[0]), fields(a[1])
    if not x or not y or set(x) != set(y):
        return None
    return [(INT(0 if x == y else 1), {})]


def check_value(ctx, rule):
    """value_is_equal is equality of (type, payload)."""
    prog = ctx.prog
    eff = effects.Effects(prog)
    VH = "src/emu/value.h"
    veq = [g for g in prog.functions.values() if g.name == "value_is_equal" and g.file.endswith("value.h")]
    ctx.need(veq, "value_is_equal not found")
    veq = veq[0]
    VN, VI = prog.enum_val("VALUE_NULL"), prog.enum_val("VALUE_INT64")
    cases = [((VI, 3), (VI, 3), 1), ((VI, 3), (VI, 4), 0), ((VN, 0), (VN, 0), 1), ((VN, 0), (VI, 0), 0), ((VI, 0), (VI, 0), 1)]
    for (ta, ia), (tb, ib), want in cases:
        ex = absint.Explorer(prog, effects=eff, summaries={"memcmp": _memcmp_fields})
        store = {("A", F("value", "type")): INT(ta), ("A", F("value", "i")): INT(ia),
                 ("B", F("value", "type")): INT(tb), ("B", F("value", "i")): INT(ib)}
        outs = [o for o in ex.run(veq, [PTR("A"), PTR("B")], store) if o.kind == "ret"]
        got = sorted({str(o.ret) for o in outs})
        good = len(outs) >= 1 and all(o.ret is not None and o.ret[0] == "int" and (o.ret[1] != 0) == bool(want) for o in outs)
        ctx.check(good, rule, "value_is_equal:(%d,%d)-vs-(%d,%d)" % (ta, ia, tb, ib), veq.loc(),
                  "value_is_equal on (type %d, %d) and (type %d, %d) gives %s, expected %s: duplicate detection and "
                  "stack matching compare values with it" % (ta, ia, tb, ib, got, "true" if want else "false"))


def check_extend(ctx, rule):
    prog = ctx.prog
    eff = effects.Effects(prog)
    es, eg = prog.fn("extend_set", "src/emu/extend.c"), prog.fn("extend_get", "src/emu/extend.c")
    ex = absint.Explorer(prog, effects=eff)
    for idc in (ord("V"), ord("6"), 0, 255):
        o = [o for o in ex.run(es, [PTR("EXT"), INT(idc), PTR("CTX")], {}) if o.kind in ("ret", "exit")]
        ctx.need(len(o) == 1, "extend_set cannot be evaluated")
        st = o[0].store
        same = [x.ret for x in ex.run(eg, [PTR("EXT"), INT(idc)], st) if x.kind == "ret"]
        other = [x.ret for x in ex.run(eg, [PTR("EXT"), INT((idc + 1) % 256)], st) if x.kind == "ret"]
        ctx.check(same == [PTR("CTX")] and PTR("CTX") not in other, rule, "extend:set-get:id=%d" % idc, es.loc(),
                  "extend_get(id %d) after extend_set(id %d, ctx) returns %s (and %s for the neighbouring id): each "
                  "model must find its own per-thread / per-CPU state" % (idc, idc, [str(x) for x in same], [str(x) for x in other]))


def check_chan_read(ctx, rule):
    """What a reader sees: chan_read returns the value last set / the top of the stack / null for an empty
    stack; chan_flush clears the dirty mark and remembers that value as last_value."""
    prog = ctx.prog
    eff = effects.Effects(prog)
    CH = "src/emu/chan.c"
    crs = [g for g in prog.functions.values() if g.name == "chan_read" and g.file.startswith("src/emu/chan.")]
    ctx.need(crs, "chan_read not found")
    cr, cf = crs[0], prog.fn("chan_flush", CH)
    SINGLE, STACK = prog.enum_val("CHAN_SINGLE"), prog.enum_val("CHAN_STACK")

    def s_null(ex_, st, a, f, e):
        return [(("agg", ((F("value", "type"), INT(prog.enum_val("VALUE_NULL"))), (F("value", "i"), INT(0)))), {})]
    V7 = {F("value", "type"): INT(prog.enum_val("VALUE_INT64")), F("value", "i"): INT(7)}
    V9 = {F("value", "type"): INT(prog.enum_val("VALUE_INT64")), F("value", "i"): INT(9)}

    def put(store, path, val):
        for k_, v_ in val.items():
            store[("C", path + k_)] = v_
    cases = []
    s1 = {("C", F("chan", "type")): INT(SINGLE), ("C", F("chan", "is_dirty")): INT(1)}
    put(s1, F("chan", "data") + F("chan_data", "value"), V7)
    cases.append(("single", s1, V7))
    for n_, want in ((0, None), (1, V7), (2, V9)):
        s2 = {("C", F("chan", "type")): INT(STACK), ("C", F("chan", "is_dirty")): INT(1),
              ("C", F("chan", "data") + F("chan_data", "stack") + F("chan_stack", "n")): INT(n_)}
        put(s2, F("chan", "data") + F("chan_data", "stack") + F("chan_stack", "values") + (0,), V7)
        put(s2, F("chan", "data") + F("chan_data", "stack") + F("chan_stack", "values") + (1,), V9)
        cases.append(("stack-depth-%d" % n_, s2, want))
    for name, store, want in cases:
        ex = absint.Explorer(prog, effects=eff, summaries={"value_null": s_null}, max_depth=4)
        outs = [o for o in ex.run(cr, [PTR("C"), PTR("OUT")], dict(store)) if o.kind == "ret"]
        good = bool(outs) and all(o.ret == INT(0) for o in outs)
        for o in outs:
            t_, i_ = o.store.get(("OUT", F("value", "type"))), o.store.get(("OUT", F("value", "i")))
            if want is None:
                good = good and t_ == INT(prog.enum_val("VALUE_NULL"))
            else:
                good = good and t_ == want[F("value", "type")] and i_ == want[F("value", "i")]
        ctx.check(good, rule, "chan_read:" + name, cr.loc(),
                  "chan_read on a %s channel yields %s" % (name, [(str(o.store.get(("OUT", F("value", "type")))),
                                                                  str(o.store.get(("OUT", F("value", "i"))))) for o in outs]))
        outs = [o for o in ex.run(cf, [PTR("C")], dict(store)) if o.kind == "ret"]
        good = bool(outs) and all(o.ret == INT(0) and o.store.get(("C", F("chan", "is_dirty"))) == INT(0) for o in outs)
        for o in outs:
            t_ = o.store.get(("C", F("chan", "last_value") + F("value", "type")))
            i_ = o.store.get(("C", F("chan", "last_value") + F("value", "i")))
            if want is None:
                good = good and t_ == INT(prog.enum_val("VALUE_NULL"))
            else:
                good = good and t_ == want[F("value", "type")] and i_ == want[F("value", "i")]
        ctx.check(good, rule, "chan_flush:" + name, cf.loc(),
                  "chan_flush on a dirty %s channel does not clear the dirty mark and remember the current value" % name)
    store = {("C", F("chan", "type")): INT(SINGLE), ("C", F("chan", "is_dirty")): INT(0)}
    outs = [o for o in absint.Explorer(prog, effects=eff).run(cf, [PTR("C")], store) if o.kind == "ret"]
    ctx.check(bool(outs) and all(o.ret != INT(0) for o in outs), rule, "chan_flush:not-dirty-refused", cf.loc(),
              "flushing a channel that is not dirty is accepted")


def check_prv_emit(ctx, rule):
    """The record writer: emit() evaluated on (flags, value, duplicate or not); the oracle is the documented
    meaning of the flags (prv.h): a record '2:0:1:1:<row+1>:<time>:<type>:<value>' is written for a new value;
    a duplicate is skipped (SKIPDUP; SKIPDUPNULL for null), written (EMITDUP) or an error (no flag); NEXT adds
    one; the value 0 is an error unless ZERO; null is written as 0."""
    prog = ctx.prog
    eff = effects.Effects(prog)
    PRV = "src/emu/pv/prv.c"
    em = prog.fn("emit", PRV)
    E = prog.enum_val
    FL = {n: E("PRV_" + n) for n in ("EMITDUP", "SKIPDUP", "NEXT", "ZERO", "SKIPDUPNULL")}
    VN, VI = E("VALUE_NULL"), E("VALUE_INT64")

    def piece(st, v):
        if v[0] == "int":
            return str(v[1])
        if v[0] == "str":
            return v[1]
        return "<?>"

    def s_fprintf(ex_, st, a, f, e):
        import re
        if len(a) < 2 or a[1][0] != "str":
            return [(INT(1), {("OUT", ()): ("str", st.store.get(("OUT", ()), ("str", ""))[1] + "<?>")})]
        args_ = list(a[2:])
        txt = re.sub(r"%%|%[-0-9.]*l*[sdiu]", lambda m: "%" if m.group(0) == "%%" else (piece(st, args_.pop(0)) if args_ else "<?>"), a[1][1])
        return [(INT(1), {("OUT", ()): ("str", st.store.get(("OUT", ()), ("str", ""))[1] + txt)})]

    def s_read(ex_, st, a, f, e):
        out = a[1]
        upd = {}
        for k_, v_ in st.store.items():
            if k_[0] == "CHVAL":
                upd[(out[1], out[2] + k_[1])] = v_
        return [(INT(0), upd)]
    cases = []
    for flags in ((), ("SKIPDUP",), ("SKIPDUPNULL",), ("EMITDUP",), ("ZERO",), ("NEXT",), ("NEXT", "SKIPDUP"), ("ZERO", "SKIPDUP")):
        for val in (("int", 5), ("int", 0), ("null", 0)):
            for dup in (0, 1):
                cases.append((flags, val, dup))
    n = 0
    for flags, val, dup in cases:
        fv = sum(FL[x] for x in flags)
        vt, vi = (VI, val[1]) if val[0] == "int" else (VN, 0)
        store = {("RC", F("prv_chan", "chan")): PTR("CH"), ("RC", F("prv_chan", "flags")): INT(fv),
                 ("RC", F("prv_chan", "row_base1")): INT(4), ("RC", F("prv_chan", "type")): INT(77),
                 ("RC", F("prv_chan", "last_value_set")): INT(1),
                 ("RC", F("prv_chan", "last_value") + F("value", "type")): INT(vt if dup else VI),
                 ("RC", F("prv_chan", "last_value") + F("value", "i")): INT(vi if dup else 1234),
                 ("PRV", F("prv", "time")): INT(1000), ("PRV", F("prv", "file")): PTR("FILE"),
                 ("CHVAL", F("value", "type")): INT(vt), ("CHVAL", F("value", "i")): INT(vi),
                 (("G", "src/common.c", "is_debug_enabled"), ()): INT(0)}
        ex = absint.Explorer(prog, effects=eff, max_depth=4, summaries={
            "chan_read": s_read, "memcmp": _memcmp_fields, "fprintf": s_fprintf,
            "__fprintf_chk": lambda ex_, st, a, f, e: s_fprintf(ex_, st, [a[0]] + list(a[2:]), f, e)},
            inline=lambda nm, d: d.file.endswith("value.h") and nm in ("value_is_equal", "value_is_null"))
        outs = [o for o in ex.run(em, [PTR("PRV"), PTR("RC")], store) if o.kind == "ret"]
        # oracle
        emitdup, skipdup, skipnull = "EMITDUP" in flags, "SKIPDUP" in flags, "SKIPDUPNULL" in flags
        want_err, want_line = False, True
        if dup and not emitdup:
            if skipdup or (skipnull and val[0] == "null"):
                want_line = False
            elif not skipnull:
                want_err = True
        out_val = 0
        if val[0] == "int":
            out_val = val[1] + (1 if "NEXT" in flags else 0)
            if want_line and not want_err and out_val == 0 and "ZERO" not in flags:
                want_err = True
        n += 1
        inst = "emit:flags=%s:value=%s:%s" % ("+".join(flags) or "none", "null" if val[0] == "null" else val[1], "dup" if dup else "new")
        got = sorted({(str(o.ret), o.store.get(("OUT", ()), ("str", ""))[1]) for o in outs})
        if want_err:
            good = bool(outs) and all(o.ret != INT(0) for o in outs) and all(not o.store.get(("OUT", ()), ("str", ""))[1] for o in outs)
        elif not want_line:
            good = bool(outs) and all(o.ret == INT(0) and not o.store.get(("OUT", ()), ("str", ""))[1] for o in outs)
        else:
            line = "2:0:1:1:4:1000:77:%d\n" % out_val
            good = bool(outs) and all(o.ret == INT(0) and o.store.get(("OUT", ()), ("str", ""))[1] == line for o in outs)
        ctx.check(good, rule, inst, em.loc(),
                  "channel with flags %s holding %s (%s): emit gives %s; expected %s" %
                  (flags or "none", "null" if val[0] == "null" else val[1], "same as the last record" if dup else "a new value", got,
                   "an error" if want_err else ("no record" if not want_line else "the record 2:0:1:1:4:1000:77:%d" % out_val)))
    ctx.need(n >= 40, "%s: %d emit cases" % (rule, n))


def check_mux_setup(ctx, rule):
    """mux_init / mux_set_input: the output tolerates re-writes while dirty and repeated values (a select and an
    input may change in one event; a newly selected input may hold the value already shown), the select callback
    is registered enabled and the input callbacks disabled (an input feeds the output only while selected),
    `selected` starts at 'none'."""
    prog = ctx.prog
    eff = effects.Effects(prog)
    MX = "src/emu/mux.c"
    mi, msi = prog.fn("mux_init", MX), prog.fn("mux_set_input", MX)
    E = prog.enum_val
    props, cbs = [], []

    def s_prop(ex_, st, a, f, e):
        props.append((a[0], a[1], a[2]))
        return [(TOP, {})]

    def s_addcb(ex_, st, a, f, e):
        cbs.append(tuple(a))
        return [(PTR("CB%d" % len(cbs)), {})]
    sums = {"chan_prop_set": s_prop, "bay_add_cb": s_addcb, "chan_get_type": lambda ex_, st, a, f, e: [(INT(E("CHAN_SINGLE")), {})],
            "bay_find": lambda ex_, st, a, f, e: [(PTR("BCH"), {})],
            "calloc": lambda ex_, st, a, f, e: [(PTR("INPUTS", (0,)), {})],
            "value_null": lambda ex_, st, a, f, e: [(("val", "null"), {})]}

    def s_memset(ex_, st, a, f, e):
        upd = {(a[0][1], ("zeroinit",)): INT(1)} if a[0][0] == "ptr" and a[1] == INT(0) else {}
        for k in list(st.store):
            if a[0][0] == "ptr" and k[0] == a[0][1]:
                upd[k] = INT(0)
        return [(TOP, upd)]
    sums["memset"] = s_memset
    sums["__builtin___memset_chk"] = s_memset
    ex = absint.Explorer(prog, effects=eff, summaries=sums)
    outs = [o for o in ex.run(mi, [PTR("MUX"), PTR("BAY"), PTR("SEL"), PTR("OUT"), ("fn", "selfn"), INT(3)], {})
            if o.kind == "ret" and o.ret == INT(0)]
    want_props = {(PTR("OUT"), INT(E("CHAN_DIRTY_WRITE")), INT(1)), (PTR("OUT"), INT(E("CHAN_ALLOW_DUP")), INT(1))}
    ctx.check(bool(outs) and want_props <= set(props), rule, "mux_init:output-properties", mi.loc(),
              "mux_init sets the channel properties %s on its output; it needs DIRTY_WRITE and ALLOW_DUP (select and input "
              "may be written in the same event; a newly selected input may repeat the value shown)" %
              [tuple(str(x) for x in p) for p in props])
    sel_cbs = [c for c in cbs if len(c) >= 6 and c[3] == ("fn", "cb_select")]
    ctx.check(bool(outs) and len(sel_cbs) == 1 and sel_cbs[0][1] == INT(E("BAY_CB_DIRTY")) and sel_cbs[0][2] == PTR("SEL") and
              sel_cbs[0][4] == PTR("MUX") and sel_cbs[0][5] == INT(1), rule, "mux_init:select-callback-enabled", mi.loc(),
              "mux_init registers %s; expected cb_select on the select channel, dirty phase, enabled" %
              [tuple(str(x) for x in c) for c in cbs])
    ctx.check(bool(outs) and all(o.store.get(("MUX", F("mux", "ninputs"))) == INT(3) and
                                 o.store.get(("MUX", F("mux", "select"))) == PTR("SEL") and
                                 o.store.get(("MUX", F("mux", "output"))) == PTR("OUT") and
                                 o.store.get(("MUX", F("mux", "select_func"))) == ("fn", "selfn") for o in outs),
              rule, "mux_init:fields", mi.loc(), "mux_init does not record select / output / select function / number of inputs")
    del cbs[:]
    store = {("MUX", F("mux", "output")): PTR("OUT"), ("MUX", F("mux", "inputs")): PTR("INPUTS", (0,)),
             ("MUX", F("mux", "bay")): PTR("BAY"), ("INPUTS", (1,) + F("mux_input", "chan")): NULL}
    outs = [o for o in ex.run(msi, [PTR("MUX"), INT(1), PTR("INCH")], store) if o.kind == "ret" and o.ret == INT(0)]
    in_cbs = [c for c in cbs if len(c) >= 6 and c[3] == ("fn", "cb_input")]
    good = bool(outs) and len(in_cbs) == 1 and in_cbs[0][1] == INT(E("BAY_CB_DIRTY")) and in_cbs[0][2] == PTR("INCH") and \
        in_cbs[0][5] == INT(0) and all(o.store.get(("INPUTS", (1,) + F("mux_input", "chan"))) == PTR("INCH") and
                                       o.store.get(("INPUTS", (1,) + F("mux_input", "index"))) == INT(1) and
                                       o.store.get(("INPUTS", (1,) + F("mux_input", "output"))) == PTR("OUT") for o in outs)
    ctx.check(good, rule, "mux_set_input:callback-disabled-until-selected", msi.loc(),
              "mux_set_input(1, ch) registers %s and stores (chan, index, output) = %s; expected cb_input on the input "
              "channel, disabled until the input is selected, and the input bound to the mux output" %
              ([tuple(str(x) for x in c) for c in cbs],
               [(str(o.store.get(("INPUTS", (1,) + F("mux_input", "chan")))), str(o.store.get(("INPUTS", (1,) + F("mux_input", "index")))),
                 str(o.store.get(("INPUTS", (1,) + F("mux_input", "output"))))) for o in outs]))
    outs = [o for o in ex.run(msi, [PTR("MUX"), INT(1), PTR("OUT")], store) if o.kind == "ret"]
    ctx.check(bool(outs) and all(o.ret != INT(0) for o in outs), rule, "mux_set_input:output-as-input-refused", msi.loc(),
              "the output channel of a mux can be connected as one of its inputs")


def check_bay(ctx, rule):
    """The patch bay's callback lists: a callback added disabled is not called, one added (or later) enabled is
    called with (channel, argument), a disabled one is removed; propagate_chan calls every callback of the phase
    in list order and stops with a failure when one fails."""
    prog = ctx.prog
    eff = effects.Effects(prog)
    BY = "src/emu/bay.c"
    add, en, dis, prop = (prog.fn(n_, BY) for n_ in ("bay_add_cb", "bay_enable_cb", "bay_disable_cb", "propagate_chan"))
    E = prog.enum_val
    DIRTY = E("BAY_CB_DIRTY")
    CBL = F("bay_chan", "cb") + (DIRTY,)
    DBG = (("G", "src/common.c", "is_debug_enabled"), ())
    ncb = [0]

    def s_calloc(ex_, st, a, f, e):
        ncb[0] += 1
        nm = "NEWCB%d" % ncb[0]
        return [(PTR(nm), {(nm, ("zeroinit",)): INT(1)})]
    base = {DBG: INT(0), ("BC", F("bay_chan", "is_dirty")): INT(0), ("BC", CBL): NULL,
            ("BC", F("bay_chan", "chan")): PTR("CH"), ("BC", F("bay_chan", "ncallbacks") + (DIRTY,)): INT(0)}
    ex = absint.Explorer(prog, effects=eff, loop_bound=6, max_depth=4, inline=lambda n_, d: d.file == BY,
                         summaries={"find_bay_chan": lambda ex_, st, a, f, e: [(PTR("BC"), {})], "calloc": s_calloc})

    def called_after(store):
        calls = []

        def mk(name, ret):
            def s_(ex_, st, a, f, e):
                k = st.store.get(("NCALL", ()), INT(0))[1]
                return [(INT(ret), {("NCALL", ()): INT(k + 1), ("CALL", (k,)): ("val", name) + tuple(a)})]
            return s_
        exp = absint.Explorer(prog, effects=eff, loop_bound=6,
                              summaries={"cbA": mk("cbA", 0), "cbB": mk("cbB", 0), "cbFAIL": mk("cbFAIL", -1)})
        outs = [o for o in exp.run(prop, [PTR("BC"), INT(DIRTY)], dict(store)) if o.kind == "ret"]
        res = []
        for o in outs:
            k = o.store.get(("NCALL", ()), INT(0))[1]
            res.append((o.ret, [o.store[("CALL", (i,))] for i in range(k)]))
        return res
    # add disabled: not called
    o = [o for o in ex.run(add, [PTR("BAY"), INT(DIRTY), PTR("CH"), ("fn", "cbA"), PTR("ARGA"), INT(0)], dict(base))
         if o.kind == "ret" and o.ret is not None and o.ret[0] == "ptr"]
    ctx.need(len(o) == 1, "bay_add_cb(disabled) cannot be evaluated (%d outcomes)" % len(o))
    res = called_after(o[0].store)
    ctx.check(bool(res) and all(r == INT(0) and not c for r, c in res), rule, "bay:added-disabled-not-called", add.loc(),
              "a callback registered disabled is called by the propagation: %s" % [[str(x) for x in c] for _, c in res])
    cbA = o[0].ret
    # enable it, add a second one enabled: both called, in order, with (chan, arg)
    o2 = [x for x in ex.run(en, [cbA], o[0].store) if x.kind in ("ret", "exit")]
    ctx.need(len(o2) == 1, "bay_enable_cb cannot be evaluated")
    o3 = [x for x in ex.run(add, [PTR("BAY"), INT(DIRTY), PTR("CH"), ("fn", "cbB"), PTR("ARGB"), INT(1)], o2[0].store)
          if x.kind == "ret" and x.ret is not None and x.ret[0] == "ptr"]
    ctx.need(len(o3) == 1, "bay_add_cb(enabled) cannot be evaluated")
    res = called_after(o3[0].store)
    want = [("val", "cbA", PTR("CH"), PTR("ARGA")), ("val", "cbB", PTR("CH"), PTR("ARGB"))]
    ctx.check(bool(res) and all(r == INT(0) and c == want for r, c in res), rule, "bay:enabled-called-in-order", prop.loc(),
              "with callbacks A (enabled later) and B (added enabled) the propagation calls %s; expected A(chan, argA) then "
              "B(chan, argB)" % [[tuple(str(y) for y in x) for x in c] for _, c in res])
    # disable the first: only the second is called
    o4 = [x for x in ex.run(dis, [cbA], o3[0].store) if x.kind in ("ret", "exit")]
    ctx.need(len(o4) == 1, "bay_disable_cb cannot be evaluated")
    res = called_after(o4[0].store)
    ctx.check(bool(res) and all(r == INT(0) and c == want[1:] for r, c in res), rule, "bay:disabled-not-called", dis.loc(),
              "after disabling callback A the propagation calls %s; expected only B" %
              [[tuple(str(y) for y in x) for x in c] for _, c in res])
    # a failing callback fails the propagation
    o5 = [x for x in ex.run(add, [PTR("BAY"), INT(DIRTY), PTR("CH"), ("fn", "cbFAIL"), PTR("ARGF"), INT(1)], dict(base))
          if x.kind == "ret" and x.ret is not None and x.ret[0] == "ptr"]
    ctx.need(len(o5) == 1, "bay_add_cb cannot be evaluated")
    res = called_after(o5[0].store)
    ctx.check(bool(res) and all(r != INT(0) for r, c in res), rule, "bay:callback-failure-propagates", prop.loc(),
              "a failing callback does not make the propagation fail")

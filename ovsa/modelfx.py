"""Per-event channel effects of a model, from the dispatch abstract interpretation."""
from . import dispatch


def event_effects(prog, m):
    """{mcv: [(call, chan_idx, value, where)]} for the declared events of model m.
    chan_idx / value are ints, 'null', or None when not a function of (c, v)."""
    d = dispatch.Dispatch(prog, mchar=m.char)
    evfn = prog.fn(m.hooks["event"])
    declared = {dispatch.pair(e.mcv[1], e.mcv[2]): e for e in m.events}
    r = d.explore(evfn, frozenset(declared))
    out = {e.mcv: [] for e in m.events}
    for (fkey, node, cal, avs), pairs in sorted(d.effects.items(), key=lambda kv: (kv[0][0], kv[0][1])):
        f = prog.functions[fkey]
        for p in sorted(pairs):
            e = declared.get(p)
            if e is None:
                continue
            ch = _conc(d, avs[0], p) if len(avs) > 0 else None
            val = _conc(d, avs[1], p) if len(avs) > 1 else None
            out[e.mcv].append((cal, ch, val, f.loc(node), f.name))
    return out, r, d


def _conc(d, av, p):
    if av[0] == "chan":
        return d.concrete(av[1], p)
    if av[0] == "val":
        if av[1] == ("null",):
            return "null"
        return d.concrete(av[1], p)
    return None

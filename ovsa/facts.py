"""S0 + S1: source list from the CMakeLists, generated headers, fact extraction.

Everything is recomputed from the working tree given as `root` (normally /repo).
Nothing under <root>/_build is read.  Facts are cached by *content* hash under
/verif/.cache so that a stale entry can never be hit.
"""
import concurrent.futures
import glob
import hashlib
import json
import os
import pickle
import re
import shutil
import subprocess
import sys
import tempfile

VERIF = os.path.dirname(os.path.dirname(os.path.abspath(__file__)))
OVX = os.path.join(VERIF, "ovx", "ovx")
CACHE = os.path.join(VERIF, ".cache")

# Units that exist in the tree but are not analysed, one reason each.
SKIP_UNITS = {
    "src/emu/ovnisync.c": "needs <mpi.h> (not installed); anchors no property",
}

BASE_FLAGS = ["-std=c11", "-D_POSIX_C_SOURCE=200809L", "-UNDEBUG",
              "-Wno-everything"]


class AnalysisBroken(Exception):
    """The analyser cannot see what it must see: exit 2, never a verdict."""


def _read(path):
    with open(path, "rb") as f:
        return f.read()


def cmake_sources(root):
    """Source files listed by add_library/add_executable in the three
    CMakeLists the build uses.  Returns sorted repo-relative paths."""
    out = set()
    for cm in ("src/CMakeLists.txt", "src/rt/CMakeLists.txt",
               "src/emu/CMakeLists.txt"):
        p = os.path.join(root, cm)
        if not os.path.exists(p):
            raise AnalysisBroken("missing %s" % cm)
        text = _read(p).decode()
        text = re.sub(r"#.*", "", text)
        for m in re.finditer(r"add_(library|executable)\s*\(([^)]*)\)", text, re.S):
            toks = m.group(2).split()
            for t in toks[1:]:
                if t in ("STATIC", "SHARED", "OBJECT", "MODULE"):
                    continue
                if t.endswith(".c"):
                    rel = os.path.normpath(os.path.join(os.path.dirname(cm), t))
                    out.add(rel)
    return sorted(out)


def unit_list(root):
    listed = cmake_sources(root)
    on_disk = sorted(os.path.relpath(p, root) for p in
                     glob.glob(os.path.join(root, "src", "**", "*.c"), recursive=True))
    for u in listed:
        if not os.path.exists(os.path.join(root, u)):
            raise AnalysisBroken("CMake lists %s which does not exist" % u)
    for u in on_disk:
        if u not in listed:
            raise AnalysisBroken("%s is under src/ but no CMake target lists it "
                                 "(the analyser would see less than the build)" % u)
    return [u for u in listed if u not in SKIP_UNITS]


def project_version(root):
    text = _read(os.path.join(root, "CMakeLists.txt")).decode()
    m = re.search(r"project\s*\(\s*OVNI[^)]*VERSION\s+([0-9.]+)", text)
    if not m:
        raise AnalysisBroken("cannot find project(... VERSION x.y.z)")
    return m.group(1)


def generate_headers(root, gendir):
    ver = project_version(root)
    src = _read(os.path.join(root, "include", "ovni.h.in")).decode()
    src = src.replace("@PROJECT_VERSION@", ver).replace("@OVNI_GIT_COMMIT@", "unknown")
    with open(os.path.join(gendir, "ovni.h"), "w") as f:
        f.write(src)
    cfg = _read(os.path.join(root, "src", "config.h.in")).decode()
    cfg = cfg.replace('#cmakedefine OVNI_CONFIG_DIR "@OVNI_CONFIG_DIR@"',
                      '#define OVNI_CONFIG_DIR "/usr/local/share/ovni"')
    with open(os.path.join(gendir, "config.h"), "w") as f:
        f.write(cfg)
    return ver


def _resource_dir():
    return subprocess.check_output(["clang", "-print-resource-dir"]).decode().strip()


_RES = None


def flags_for(root, gendir, extra=()):
    global _RES
    if _RES is None:
        _RES = _resource_dir()
    inc = [gendir, "src/include", "src/emu", "src", "include"]
    fl = list(BASE_FLAGS) + list(extra)
    for i in inc:
        fl.append("-I" + (i if os.path.isabs(i) else os.path.join(root, i)))
    fl += ["-resource-dir", _RES]
    return fl


def _headers_digest(root, gendir):
    h = hashlib.sha256()
    hs = sorted(glob.glob(os.path.join(root, "src", "**", "*.h"), recursive=True))
    hs += sorted(glob.glob(os.path.join(gendir, "*.h")))
    for p in hs:
        h.update(os.path.relpath(p, root).encode() if p.startswith(root) else
                 os.path.basename(p).encode())
        h.update(b"\0")
        h.update(_read(p))
        h.update(b"\0")
    return h.hexdigest()


def _ovx_digest():
    if not os.path.exists(OVX):
        # a fresh restore: build the extractor now (what setup_cmd does)
        subprocess.run(["sh", os.path.join(VERIF, "setup.sh")], stdout=subprocess.DEVNULL, stderr=subprocess.DEVNULL)
    if not os.path.exists(OVX):
        raise AnalysisBroken("extractor %s not built (run ./setup.sh)" % OVX)
    return hashlib.sha256(_read(OVX)).hexdigest()


def _extract_one(args):
    root, gendir, unit, flags, key = args
    os.makedirs(CACHE, exist_ok=True)
    out = os.path.join(CACHE, key + ".json")
    try:
        # another process may prune the cache at any moment: read now, fall through if the entry vanished
        with open(out) as f:
            data = json.load(f)
        os.utime(out, None)
        return unit, data, True
    except (OSError, ValueError):
        pass
    import threading
    tmp = out + ".%d.%d.tmp" % (os.getpid(), threading.get_ident())
    cmd = [OVX, "-o", tmp, os.path.join(root, unit), "--"] + flags
    r = subprocess.run(cmd, stdout=subprocess.PIPE, stderr=subprocess.PIPE)
    if r.returncode != 0 or not os.path.exists(tmp):
        try:
            os.unlink(tmp)
        except OSError:
            pass
        raise AnalysisBroken("extraction failed for %s:\n%s" %
                             (unit, r.stderr.decode()[-2000:]))
    # make the facts root-neutral
    text = _read(tmp).decode()
    text = text.replace(gendir.rstrip("/") + "/", "<gen>/")
    text = text.replace(root.rstrip("/") + "/", "")
    data = json.loads(text)
    with open(tmp, "w") as f:
        f.write(text)
    os.replace(tmp, out)
    return unit, data, False


def extract(root, extra_flags=(), jobs=16, quiet=True, save_tree=True):
    """Return (facts_by_unit, info).  facts_by_unit: {unit: parsed JSON}."""
    root = os.path.abspath(root)
    units = unit_list(root)
    gendir = tempfile.mkdtemp(prefix="ovgen.")
    try:
        ver = generate_headers(root, gendir)
        flags = flags_for(root, gendir, extra_flags)
        hd = _headers_digest(root, gendir)
        od = _ovx_digest()
        neutral_flags = [f.replace(root, "<root>").replace(gendir, "<gen>") for f in flags]
        jobs_args = []
        keys = {}
        for u in units:
            h = hashlib.sha256()
            h.update(od.encode())
            h.update(hd.encode())
            h.update(" ".join(neutral_flags).encode())
            h.update(u.encode())
            h.update(_read(os.path.join(root, u)))
            k = h.hexdigest()[:32]
            keys[u] = k
            jobs_args.append((root, gendir, u, flags, k))
        tree_h = hashlib.sha256(("".join(keys[u] for u in units)).encode()).hexdigest()[:32]
        pk = os.path.join(CACHE, "tree-" + tree_h + ".pickle")
        info = {"units": units, "version": ver, "tree_key": tree_h,
                "flags": neutral_flags, "skipped_units": dict(SKIP_UNITS)}
        if os.path.exists(pk):
            try:
                with open(pk, "rb") as f:
                    facts = pickle.load(f)
                try:
                    os.utime(pk, None)
                except OSError:
                    pass
                info["cache"] = "tree"
                return facts, info
            except Exception:
                pass
        facts = {}
        hits = 0
        with concurrent.futures.ThreadPoolExecutor(max_workers=jobs) as ex:
            for unit, data, hit in ex.map(_extract_one, jobs_args):
                hits += 1 if hit else 0
                facts[unit] = data
        info["cache"] = "%d/%d units" % (hits, len(units))
        if not save_tree:
            return facts, info
        os.makedirs(CACHE, exist_ok=True)
        tmp = pk + ".%d.tmp" % os.getpid()
        with open(tmp, "wb") as f:
            pickle.dump(facts, f, protocol=pickle.HIGHEST_PROTOCOL)
        os.replace(tmp, pk)
        _prune_cache()
        return facts, info
    finally:
        shutil.rmtree(gendir, ignore_errors=True)


def _prune_cache(max_bytes=1500 << 20, min_age=1800):
    """Oldest entries first; never an entry younger than min_age seconds (another check running at the same
    time may be about to read it, or be writing it)."""
    import time
    try:
        ents = []
        now = time.time()
        for n in os.listdir(CACHE):
            p = os.path.join(CACHE, n)
            try:
                st = os.stat(p)
            except OSError:
                continue
            if now - st.st_mtime < min_age:
                continue
            ents.append((st.st_mtime, st.st_size, p))
        total = sum(e[1] for e in ents)
        ents.sort()
        while total > max_bytes and ents:
            m, s, p = ents.pop(0)
            os.unlink(p)
            total -= s
    except OSError:
        pass

"""E9: exact evaluation of event dispatch over all 65 536 (category, value)
pairs.  Abstract interpretation of the handler CFGs where the only tracked
quantities are the event's c and v bytes, constant tables indexed by them, and
the ok/fail outcome of callee handlers.  Every other condition is
non-deterministic.  A condition that mentions a tracked quantity in a form the
engine does not understand raises AnalysisBroken (never a guess).

pair = c * 256 + v
"""
import collections

from .facts import AnalysisBroken
from .prog import init_elems, init_int

FULL = frozenset(range(65536))
UNK = ("unk",)
CMP = {"==": lambda a, b: a == b, "!=": lambda a, b: a != b, "<": lambda a, b: a < b,
       ">": lambda a, b: a > b, "<=": lambda a, b: a <= b, ">=": lambda a, b: a >= b}
PAIRFUN = ("const", "c", "v", "tbl", "m", "psize", "jumbo", "haspl")
EFFECT_CALLS = ("chan_push", "chan_pop", "chan_set")


def pair(c, v):
    return (ord(c) if isinstance(c, str) else c) * 256 + (ord(v) if isinstance(v, str) else v)


def unpair(p):
    return p >> 8, p & 255


def pair_str(p):
    c, v = unpair(p)
    f = lambda x: chr(x) if 33 <= x <= 126 else "\\x%02x" % x
    return f(c) + f(v)


class Result:
    __slots__ = ("ok", "fail")

    def __init__(self, ok, fail):
        self.ok = ok
        self.fail = fail


class Dispatch:
    def __init__(self, prog, mchar=None, shape=None):
        """mchar: value bound to ev->m (None = unknown).  shape: optional
        {pair: (payload_size or None, is_jumbo)} binding ev->payload_size,
        ev->is_jumbo and ev->has_payload for those pairs (declared shapes)."""
        self.prog = prog
        self.mchar = mchar
        self.shape = shape
        self.reach = collections.defaultdict(set)     # (fnkey, block) -> pairs
        self.warned = collections.defaultdict(set)    # fnkey -> pairs that executed a warn()
        self._tables = {}
        self._memo = {}
        self._active = set()
        self.effects = collections.defaultdict(set)   # (fnkey, node, args) -> pairs
        self.visited_fns = set()
        self.warn_returns = collections.defaultdict(set)   # fnkey -> pairs that pass a warn() before return 0

    # ---- tables ------------------------------------------------------
    def table(self, key):
        """(file, name) -> {pair: tuple(ints)} for a const int T[256][256][k]."""
        if key not in self._tables:
            g = self.prog.globals.get(key)
            if g is None or "init" not in g:
                raise AnalysisBroken("table %s has no initialiser" % (key,))
            t = {}
            for c, row in init_elems(g["init"]).items():
                for v, ent in init_elems(row).items():
                    es = init_elems(ent)
                    n = ent.get("n", 3)
                    t[c * 256 + v] = tuple(init_int(es.get(i), 0) for i in range(n))
            self._tables[key] = (t, g["init"].get("n"), )
        return self._tables[key][0]

    def concrete(self, av, p):
        k = av[0]
        if k == "const":
            return av[1]
        if k == "c":
            return p >> 8
        if k == "v":
            return p & 255
        if k == "tbl":
            ent = self.table(av[1]).get(p)
            if ent is None:
                return 0
            return ent[av[2]] if av[2] < len(ent) else 0
        if k == "m":
            return self.mchar
        if k in ("psize", "jumbo", "haspl"):
            if self.shape is None or p not in self.shape:
                return None
            ps, jb = self.shape[p]
            if k == "jumbo":
                return jb
            if k == "haspl":
                return None if ps is None else int(ps > 0)
            return ps
        if k in ("chan", "val"):
            return self.concrete(av[1], p)
        return None

    # ---- evaluation --------------------------------------------------
    def _escaped(self, f):
        if not hasattr(f, "_escaped"):
            esc = set()
            for n in f.nodes:
                if n["k"] == "UnaryOperator" and n.get("op") == "&":
                    j = f.strip(n["c"][0])
                    m = f.nodes[j]
                    if m["k"] == "DeclRefExpr" and m.get("dk") in ("local", "param"):
                        esc.add(m["name"])
            f._escaped = esc
        return f._escaped

    def eval(self, f, i, env, P):
        i = f.strip(i)
        n = f.nodes[i]
        k = n["k"]
        if "v" in n and k not in ("CallExpr",):
            return ("const", n["v"])
        if k == "DeclRefExpr":
            dk = n.get("dk")
            if dk in ("local", "param"):
                if n["name"] in self._escaped(f):
                    return UNK
                return env.get(n["name"], UNK)
            if dk == "global":
                key = (n.get("gfile"), n["name"])
                g = self.prog.globals.get(key)
                if g is not None and g.get("const") and g.get("init", {}).get("k") == "arr":
                    return ("tbl0", key)
            return UNK
        if k == "MemberExpr":
            if n.get("rec") == "emu_ev":
                fld = n["field"]
                if fld in ("c", "v", "m"):
                    return (fld,)
                if fld == "payload_size":
                    return ("psize",)
                if fld == "is_jumbo":
                    return ("jumbo",)
                if fld == "has_payload":
                    return ("haspl",)
            return UNK
        if k == "ArraySubscriptExpr":
            b = self.eval(f, n["c"][0], env, P)
            ix = self.eval(f, n["c"][1], env, P)
            if b[0] == "tbl0" and ix == ("c",):
                return ("tbl1", b[1])
            if b[0] == "tbl1" and ix == ("v",):
                return ("tbl2", b[1])
            if b[0] == "tbl2" and ix[0] == "const":
                return ("tbl", b[1], ix[1])
            if b[0] in ("tbl0", "tbl1", "tbl2"):
                raise AnalysisBroken("%s: table %s indexed in an unsupported way: %s" %
                                     (f.loc(i), b[1][1], f.src(i)))
            # &th->m.ch[idx]
            bj = f.strip(n["c"][0])
            bn = f.nodes[bj]
            if ix[0] in PAIRFUN and self._is_chan_array(f, bj, env):
                return ("chan", ix)
            return UNK
        if k == "UnaryOperator":
            if n["op"] == "&":
                return self.eval(f, n["c"][0], env, P)
            return UNK
        if k == "CallExpr":
            return self.eval_call(f, i, env, P)
        return UNK

    def _is_chan_array(self, f, j, env):
        n = f.nodes[j]
        if n["k"] == "MemberExpr" and n["field"] == "ch":
            return True
        if n["k"] == "DeclRefExpr" and env.get(n["name"]) == ("charr",):
            return True
        return False

    def eval_call(self, f, i, env, P):
        n = f.nodes[i]
        cal = n.get("callee")
        if cal is None:
            return UNK
        if cal == "value_int64" and len(n["args"]) == 1:
            a = self.eval(f, n["args"][0], env, P)
            return ("val", a) if a[0] in PAIRFUN else UNK
        if cal == "value_null":
            return ("val", ("null",))
        d = self.prog.resolve(f, cal)
        if d is None:
            return UNK
        args = [self.eval(f, a, env, P) for a in n["args"]]
        emu_arg = any(p.get("ctype") == "struct emu *" for p in d.params)
        tracked = any(a[0] in ("c", "v", "tbl", "tbl1", "tbl2") for a in args)
        if not (emu_arg or tracked):
            return UNK
        amap = {}
        for p, a in zip(d.params, args):
            if a[0] in ("c", "v", "const", "tbl", "chan", "val"):
                amap[p["name"]] = a
        r = self.explore(d, P, amap)
        return ("call", r.ok, r.fail)

    def mentions_tracked(self, f, i, env):
        # calls are opaque: the result of a callee that was not explored is
        # non-deterministic whatever its arguments are
        st = [i]
        ds = []
        while st:
            j = st.pop()
            if j < 0:
                continue
            if f.nodes[j]["k"] == "CallExpr":
                continue
            ds.append(j)
            st.extend(f.nodes[j]["c"])
        for j in ds:
            n = f.nodes[j]
            if n["k"] == "MemberExpr" and n.get("rec") == "emu_ev" and n["field"] in ("c", "v"):
                return True
            if n["k"] == "DeclRefExpr" and n.get("dk") in ("local", "param"):
                if n["name"] in self._escaped(f):
                    continue
                a = env.get(n["name"], UNK)
                if a[0] in ("c", "v", "tbl", "tbl1", "tbl2", "call"):
                    return True
        return False

    def split_val(self, av, P, op="!=", k=0):
        """Split P by (av op k)."""
        if av[0] in PAIRFUN:
            fn = CMP[op]
            if av[0] == "const":
                return (P, frozenset()) if fn(av[1], k) else (frozenset(), P)
            T, F = set(), set()
            for p in P:
                x = self.concrete(av, p)
                if x is None:
                    T.add(p)
                    F.add(p)
                elif fn(x, k):
                    T.add(p)
                else:
                    F.add(p)
            return frozenset(T), frozenset(F)
        if av[0] == "call":
            okp, failp = av[1] & P, av[2] & P
            fn = CMP[op]
            T, F = set(), set()
            (T if fn(0, k) else F).update(okp)
            if not (op == "==" and k == 0):
                T.update(failp)
            if not (op == "!=" and k == 0):
                F.update(failp)
            return frozenset(T), frozenset(F)
        return None

    def cond_split(self, f, i, env, P):
        i = f.strip(i)
        n = f.nodes[i]
        if "v" in n:
            return (P, frozenset()) if n["v"] else (frozenset(), P)
        k = n["k"]
        if k == "UnaryOperator" and n["op"] == "!":
            T, F = self.cond_split(f, n["c"][0], env, P)
            return F, T
        if k == "BinaryOperator" and n["op"] in CMP:
            a = self.eval(f, n["c"][0], env, P)
            b = self.eval(f, n["c"][1], env, P)
            op = n["op"]
            if a[0] == "const" and b[0] != "const":
                a, b = b, a
                op = {"<": ">", ">": "<", "<=": ">=", ">=": "<="}.get(op, op)
            if b[0] == "const":
                r = self.split_val(a, P, op, b[1])
                if r is not None:
                    return r
            elif a[0] in PAIRFUN and b[0] in PAIRFUN:
                fn = CMP[op]
                T, F = set(), set()
                for p in P:
                    x, y = self.concrete(a, p), self.concrete(b, p)
                    if x is None or y is None:
                        T.add(p)
                        F.add(p)
                    elif fn(x, y):
                        T.add(p)
                    else:
                        F.add(p)
                return frozenset(T), frozenset(F)
            if self.mentions_tracked(f, i, env):
                raise AnalysisBroken("%s: unrecognised dispatch condition %s" % (f.loc(i), f.src(i)))
            return P, P
        av = self.eval(f, i, env, P)
        r = self.split_val(av, P)
        if r is not None:
            return r
        if self.mentions_tracked(f, i, env):
            raise AnalysisBroken("%s: unrecognised dispatch condition %s" % (f.loc(i), f.src(i)))
        return P, P

    # ---- exploration ---------------------------------------------------
    def explore(self, f, P, args=None):
        args = args or {}
        key = (f.key, P, tuple(sorted(args.items())))
        if key in self._memo:
            return self._memo[key]
        if key in self._active:
            return Result(P, P)     # recursion: no information
        self._active.add(key)
        self.visited_fns.add(f.key)
        ok, fail = set(), set()
        env0 = tuple(sorted(args.items()))
        state = {(f.entry, env0): P}
        queue = collections.deque([(f.entry, env0)])
        steps = 0
        while queue:
            steps += 1
            if steps > 20000:
                raise AnalysisBroken("%s: dispatch exploration does not converge" % f.loc())
            b, envk = queue.popleft()
            Pb = state[(b, envk)]
            env = dict(envk)
            returned = False
            elems = f.elems(b)
            self.reach[(f.key, b)] |= Pb
            for e in elems:
                n = f.nodes[e]
                k = n["k"]
                if k == "CallExpr" and "warn" in n.get("m", ()):
                    self.warned[f.key] |= Pb
                if k == "DeclStmt":
                    for d in n["decls"]:
                        if "init" in d:
                            env[d["name"]] = self.eval(f, d["init"], env, Pb)
                            # struct chan *ch = th->m.ch;
                            ij = f.strip(d["init"])
                            if f.nodes[ij]["k"] == "MemberExpr" and f.nodes[ij]["field"] == "ch" \
                                    and d["ctype"] == "struct chan *":
                                env[d["name"]] = ("charr",)
                        else:
                            env.pop(d["name"], None)
                elif k == "BinaryOperator" and n["op"] == "=":
                    lj = f.strip(n["c"][0])
                    ln = f.nodes[lj]
                    if ln["k"] == "DeclRefExpr" and ln.get("dk") in ("local", "param"):
                        env[ln["name"]] = self.eval(f, n["c"][1], env, Pb)
                elif k in ("CompoundAssignOperator",) or (k == "UnaryOperator" and n["op"] in ("++", "--")):
                    lj = f.strip(n["c"][0])
                    ln = f.nodes[lj]
                    if ln["k"] == "DeclRefExpr":
                        env[ln["name"]] = UNK
                elif k == "CallExpr":
                    cal = n.get("callee")
                    if cal in EFFECT_CALLS:
                        avs = tuple(self.eval(f, a, env, Pb) for a in n["args"])
                        self.effects[(f.key, e, cal, avs)] |= Pb
                    elif cal is not None and f.parent(e) is not None and \
                            f.nodes[f.parent(e)]["k"] == "CompoundStmt":
                        pass
                elif k == "ReturnStmt":
                    returned = True
                    if n["val"] < 0:
                        ok |= Pb
                    else:
                        av = self.eval(f, n["val"], env, Pb)
                        r = self.split_val(av, Pb)
                        if r is None:
                            if self.mentions_tracked(f, n["val"], env):
                                raise AnalysisBroken("%s: unrecognised return value %s" %
                                                     (f.loc(e), f.src(n["val"])))
                            ok |= Pb
                            fail |= Pb
                        else:
                            fail |= r[0]
                            ok |= r[1]
                    break
            if returned or b in f.cut:
                continue
            blk = f.blocks[b]
            succs = blk["succs"]
            envk2 = tuple(sorted((k_, v_) for k_, v_ in env.items() if v_ != UNK))
            outs = []
            term = blk.get("term")
            if term is not None and f.nodes[term]["k"] == "SwitchStmt":
                av = self.eval(f, blk["cond"], env, Pb)
                rest = Pb
                for si, s in enumerate(succs):
                    if s is None:
                        continue
                    if si == len(succs) - 1:
                        outs.append((s, rest if av[0] in PAIRFUN else Pb))
                        continue
                    lab = f.blocks[s].get("label") or {}
                    if lab.get("kind") != "case":
                        raise AnalysisBroken("%s: switch successor without case label" % f.loc(term))
                    lo = lab.get("lo")
                    hi = lab.get("hi", lo)
                    if av[0] in PAIRFUN:
                        m, sure = set(), set()
                        for p in Pb:
                            x = self.concrete(av, p)
                            if x is None:
                                m.add(p)        # may match; also stays in rest
                            elif lo <= x <= hi:
                                m.add(p)
                                sure.add(p)
                        rest = rest - sure
                        outs.append((s, frozenset(m)))
                    else:
                        if self.mentions_tracked(f, blk["cond"], env):
                            raise AnalysisBroken("%s: unrecognised switch operand %s" %
                                                 (f.loc(term), f.src(blk["cond"])))
                        outs.append((s, Pb))
            elif len(succs) == 2 and term is not None:
                cond = blk.get("cond")
                cs = f.strip(cond) if cond is not None else None
                if cs is not None and f.nodes[cs]["k"] == "BinaryOperator" and \
                        f.nodes[cs]["op"] in ("&&", "||") and elems:
                    cond = elems[-1]
                if cond is None:
                    T, F = Pb, Pb
                else:
                    T, F = self.cond_split(f, cond, env, Pb)
                if succs[0] is not None:
                    outs.append((succs[0], T))
                if succs[1] is not None:
                    outs.append((succs[1], F))
            else:
                for s in succs:
                    if s is not None:
                        outs.append((s, Pb))
            for s, Ps in outs:
                if not Ps:
                    continue
                if s == f.exit:
                    # falling off the end of a void function
                    ok |= Ps
                    continue
                old = state.get((s, envk2))
                if old is None:
                    state[(s, envk2)] = Ps
                    queue.append((s, envk2))
                elif not Ps <= old:
                    state[(s, envk2)] = old | Ps
                    queue.append((s, envk2))
        r = Result(frozenset(ok), frozenset(fail))
        self._active.discard(key)
        self._memo[key] = r
        return r

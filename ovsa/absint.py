"""E3: finite-domain abstract path exploration with bounded inlining.

Values:   ('int', k) | ('ptr', root, path) | ('null',) | ('fn', name) | ('top',)
Location: (root, path)   root = rule-chosen object name | ('loc', frame, var) | ('G', name)
          path = tuple of (record, field) / integer index components

The engine walks the clang CFG of a function on *concrete* abstract pre-states
chosen by the rule (e.g. th->state = TH_ST_PAUSED, th->cpu = some CPU), decides
every branch whose condition it can evaluate, forks on the others (results of
infrastructure calls), inlines callees that the rule names, and returns every
outcome (return value, final store, event trace).  Tracked values are only
compared and assigned constants in the code this is used on, for which the
exploration is exact.
"""
import sys

from .facts import AnalysisBroken

sys.setrecursionlimit(20000)

TOP = ("top",)
NULL = ("null",)


def INT(k):
    return ("int", int(k))


def PTR(root, path=()):
    return ("ptr", root, tuple(path))


def truth(v):
    if v[0] == "int":
        return v[1] != 0
    if v[0] == "null":
        return False
    if v[0] in ("ptr", "fn", "str"):
        return True
    return None


ARITH = {
    "+": lambda a, b: a + b, "-": lambda a, b: a - b, "*": lambda a, b: a * b,
    "&": lambda a, b: a & b, "|": lambda a, b: a | b, "^": lambda a, b: a ^ b,
    "<<": lambda a, b: a << b if 0 <= b < 64 else None,
    ">>": lambda a, b: a >> b if 0 <= b < 64 else None,
    "/": lambda a, b: int(a / b) if b else None, "%": lambda a, b: (a - int(a / b) * b) if b else None,
}
CMPS = {
    "==": lambda a, b: a == b, "!=": lambda a, b: a != b, "<": lambda a, b: a < b,
    ">": lambda a, b: a > b, "<=": lambda a, b: a <= b, ">=": lambda a, b: a >= b,
}


def _clz(bits):
    def f(x):
        x &= (1 << bits) - 1
        if x == 0:
            raise ValueError("clz(0) is undefined")
        return bits - x.bit_length()
    return f


PURE_BUILTINS = {
    "__builtin_clz": _clz(32), "__builtin_clzl": _clz(64), "__builtin_clzll": _clz(64),
    "__builtin_popcount": lambda x: bin(x & 0xffffffff).count("1"),
    "__builtin_popcountl": lambda x: bin(x & (2 ** 64 - 1)).count("1"),
    "__builtin_popcountll": lambda x: bin(x & (2 ** 64 - 1)).count("1"),
    "abs": abs, "labs": abs, "llabs": abs,
    "__builtin_expect": lambda x, e: x,
}


# what the explorers of this process covered (reported in the evidence files)
STATS = {"runs": 0, "paths": 0, "functions": set()}


class Outcome:
    __slots__ = ("kind", "ret", "store", "events", "decisions", "cons")

    def __init__(self, kind, ret, store, events, decisions=(), cons=()):
        self.kind = kind        # 'ret' | 'die' | 'exit'
        self.ret = ret
        self.store = store
        self.events = events
        self.decisions = decisions
        self.cons = cons

    def ret_int(self):
        return self.ret[1] if self.ret and self.ret[0] == "int" else None

    def __repr__(self):
        return "<%s ret=%s events=%d>" % (self.kind, self.ret, len(self.events))


class PState:
    __slots__ = ("b", "idx", "store", "vals", "events", "visits", "decisions", "cons")

    def __init__(self, b, idx, store, vals, events, visits, decisions, cons=()):
        self.b = b
        self.idx = idx
        self.store = store
        self.vals = vals
        self.events = events
        self.visits = visits
        self.decisions = decisions
        self.cons = cons        # linear path constraints: ((terms), c) meaning sum(coef*sym) <= c

    def fork(self):
        return PState(self.b, self.idx, dict(self.store), dict(self.vals), self.events,
                      dict(self.visits), self.decisions, self.cons)


# ---- linear forms (E5): c0 + sum(coef * symbol), symbols have integer ranges ----

def to_lin(v):
    if v[0] == "int":
        return v[1], {}
    if v[0] == "lin":
        return v[1], dict(v[2])
    return None


def mk_lin(c0, terms):
    t = tuple(sorted((k, c) for k, c in terms.items() if c != 0))
    if not t:
        return INT(c0)
    return ("lin", int(c0), t)


NEG_OP = {"<": ">=", "<=": ">", ">": "<=", ">=": "<", "==": "!=", "!=": "=="}

TYPE_RANGE = {
    "unsigned char": (0, 255), "signed char": (-128, 127), "char": (-128, 127),
    "unsigned short": (0, 65535), "short": (-32768, 32767),
    "unsigned int": (0, 2**32 - 1), "int": (-2**31, 2**31 - 1),
    "unsigned long": (0, 2**64 - 1), "long": (-2**63, 2**63 - 1),
    "unsigned long long": (0, 2**64 - 1), "long long": (-2**63, 2**63 - 1), "_Bool": (0, 1),
}


class Explorer:
    def __init__(self, prog, inline=None, summaries=None, max_depth=4, max_paths=200000,
                 effects=None, distinct_roots=True, loop_bound=2, on_unknown_call=None,
                 nondet_fields=(), field_values=None, merge=False, on_call=None, on_load=None,
                 symbolic_roots=(), symbolic_ranges=None, auto_inline=True, opaque=()):
        self.prog = prog
        self.inline = inline or (lambda name, fn: False)
        # a static function of the caller's own file that the rule neither summarises nor declares opaque is
        # interpreted, not havocked: extracting a helper out of an analysed function must not change a verdict
        self.auto_inline = auto_inline
        self.opaque = set(opaque)
        self.summaries = summaries or {}
        self.max_depth = max_depth
        self.max_paths = max_paths
        self.effects = effects
        self.frame_counter = 0
        self.paths = 0
        self.loop_bound = loop_bound
        self.on_unknown_call = on_unknown_call
        self.nondet_fields = set(nondet_fields)
        # default value of a (record, field) when the store has no entry for
        # the location read (lets a rule model "every such field holds X")
        self.field_values = dict(field_values or {})
        self.null_derefs = []
        self._ro_cache = {}
        self.syms = {}          # symbol -> (lo, hi)
        self.on_call = on_call  # on_call(ex, st, f, node, callee, args): observe every call
        self.on_load = on_load  # on_load(ex, st, f, node, loc): observe every read of a location
        # integer loads from unknown locations under these roots yield one symbol per location
        # (kept in the store), so that two reads of the same bytes are known to be equal
        self.symbolic_roots = set(symbolic_roots)
        self.symbolic_ranges = dict(symbolic_ranges or {})   # C type -> assumed (lo, hi) of such loads
        self._nmem = 0
        # merge mode: path states reaching the same block with the same store
        # are explored once; events go to self.event_log instead of per-path
        # traces (for rules that need the set of effects, not their order)
        self.merge = merge
        self._pending_dies = []
        self.event_log = []
        self._span = {}

    # ---- linear forms ----------------------------------------------------------
    def sym(self, name, lo, hi):
        self.syms[name] = (lo, hi)
        return ("lin", 0, ((name, 1),))

    def bounds(self, cons, c0, terms):
        """(lo, hi) of c0 + sum(coef*sym) from the symbol ranges, tightened by
        path constraints over exactly the same (or the negated) linear form."""
        lo = hi = c0
        # per-symbol ranges tightened by single-symbol path constraints
        tight = {}
        for (ct, cc) in cons:
            if len(ct) == 1 and ct[0][0] in terms:
                sname, co = ct[0]
                r = tight.get(sname) or self.syms.get(sname)
                if r is None:
                    continue
                if co > 0:
                    r = (r[0], min(r[1], cc // co))
                else:
                    r = (max(r[0], -(cc // -co)), r[1])
                tight[sname] = r
        for sname, co in terms.items():
            r = tight.get(sname) or self.syms.get(sname)
            if r is None:
                return None, None
            a, b = co * r[0], co * r[1]
            lo += min(a, b)
            hi += max(a, b)
        def rng(sname):
            return tight.get(sname) or self.syms.get(sname)

        def hi_of(form):
            h = 0
            for sname, co in form.items():
                r = rng(sname)
                if r is None:
                    return None
                h += max(co * r[0], co * r[1])
            return h
        # combine each path constraint  C <= cc  with interval bounds of the rest:
        #   T = C + (T - C)  =>  T <= cc + hi(T - C);   -T = C + (-T - C)  =>  T >= -cc - hi(-T - C)
        for (ct, cc) in cons:
            cd = dict(ct)
            if not (set(cd) & set(terms)):
                continue
            d1 = dict(terms)
            for k_, c_ in cd.items():
                d1[k_] = d1.get(k_, 0) - c_
            h1 = hi_of({k_: c_ for k_, c_ in d1.items() if c_})
            if h1 is not None:
                hi = min(hi, c0 + cc + h1)
            d2 = {k_: -c_ for k_, c_ in terms.items()}
            for k_, c_ in cd.items():
                d2[k_] = d2.get(k_, 0) - c_
            h2 = hi_of({k_: c_ for k_, c_ in d2.items() if c_})
            if h2 is not None:
                lo = max(lo, c0 - cc - h2)
        return lo, hi

    def decide_cmp(self, cons, op, c0, terms):
        """Truth of (c0 + terms) op 0, or None."""
        lo, hi = self.bounds(cons, c0, terms)
        if lo is None:
            return None
        if op == "<":
            return True if hi < 0 else (False if lo >= 0 else None)
        if op == "<=":
            return True if hi <= 0 else (False if lo > 0 else None)
        if op == ">":
            return True if lo > 0 else (False if hi <= 0 else None)
        if op == ">=":
            return True if lo >= 0 else (False if hi < 0 else None)
        if op == "==":
            return True if lo == hi == 0 else (False if (lo > 0 or hi < 0) else None)
        if op == "!=":
            return False if lo == hi == 0 else (True if (lo > 0 or hi < 0) else None)
        return None

    @staticmethod
    def cmp_constraints(op, c0, terms):
        key = tuple(sorted(terms.items()))
        nkey = tuple(sorted((k, -c) for k, c in terms.items()))
        if op == "<":
            return ((key, -1 - c0),)
        if op == "<=":
            return ((key, -c0),)
        if op == ">":
            return ((nkey, c0 - 1),)
        if op == ">=":
            return ((nkey, c0),)
        if op == "==":
            return ((key, -c0), (nkey, c0))
        return ()

    def fits(self, cons, v, ctype):
        """Is the linear value v representable in C type ctype (no wrap)?"""
        r = TYPE_RANGE.get(ctype)
        l = to_lin(v)
        if r is None or l is None:
            return True
        lo, hi = self.bounds(cons, l[0], l[1])
        return lo is not None and lo >= r[0] and hi <= r[1]

    # ---- constant globals -------------------------------------------------
    def global_load(self, root, path):
        """Value of a never-written global (or part of it) from its initialiser."""
        _, gfile, name = root
        g = self.prog.globals.get((gfile, name))
        if g is None or "init" not in g:
            return None
        if not g.get("const") and self.effects is not None:
            if name not in self._ro_cache:
                self._ro_cache[name] = not self.effects.writers_of_global(name)
            if not self._ro_cache[name]:
                return None
        elif not g.get("const"):
            return None
        v = g["init"]
        for comp in path:
            if v is None:
                return INT(0)
            if isinstance(comp, tuple):
                if v.get("k") != "rec":
                    return None
                v = v["fields"].get(comp[1])
            else:
                if v.get("k") == "str":
                    return None
                if v.get("k") != "arr":
                    return None
                if comp < 0 or comp >= v.get("n", 0):
                    return None
                v = v["elems"].get(str(comp), v.get("filler"))
        return self._init_to_val(v, gfile)

    def _init_to_val(self, v, gfile):
        if v is None:
            return INT(0)
        k = v.get("k")
        if k == "int":
            return INT(v["v"])
        if k == "null":
            return NULL
        if k == "str":
            return ("str", v["s"])
        if k == "fn":
            return ("fn", v["name"])
        if k == "addr":
            tg = self.prog.glob(v["name"], gfile, required=False) or self.prog.glob(v["name"], required=False)
            if tg is None:
                return TOP
            return PTR(("G", tg["file"], tg["name"]), (0,) if tg.get("init", {}).get("k") == "arr" else ())
        return TOP

    # ---- store helpers -------------------------------------------------
    @staticmethod
    def load(store, loc):
        if loc is None:
            return TOP
        return store.get(loc, TOP)

    @staticmethod
    def havoc_root(store, root, prefix=()):
        for k in list(store):
            if k[0] == root and k[1] == ("zeroinit",):
                del store[k]
            elif k[0] == root and k[1][:len(prefix)] == tuple(prefix):
                store[k] = TOP

    def _all_zero_init(self, f, i):
        n = f.nodes[i]
        if n["k"] != "InitListExpr":
            return False
        for j in f.descendants(i, include_self=False):
            m = f.nodes[j]
            if m["k"] in ("InitListExpr", "ImplicitValueInitExpr", "ImplicitCastExpr", "ParenExpr"):
                continue
            if m["k"] in ("IntegerLiteral", "CharacterLiteral") and m.get("v") == 0:
                continue
            return False
        return True

    def _init_list(self, f, fid, st, root, path, i, check=False):
        """Store the elements of an initialiser list (semantic form) under root/path.  With check=True only
        tells whether the shape is understood (a struct with one child per field, or an array)."""
        n = f.nodes[i]
        t = n.get("t", "")
        kids = n["c"]
        if t.startswith("struct ") and "[" not in t:
            rec = self.prog.records.get(t[len("struct "):])
            if rec is None or rec.get("union") or len(rec["fields"]) != len(kids):
                return False
            keys = [((t[len("struct "):], fl["name"]),) for fl in rec["fields"]]
        elif t.endswith("]"):
            keys = [(k,) for k in range(len(kids))]
        else:
            return False
        for key, c in zip(keys, kids):
            cn = f.nodes[c]
            if cn["k"] == "InitListExpr":
                if not self._init_list(f, fid, st, root, path + key, c, check):
                    return False
                continue
            if check:
                continue
            if cn["k"] == "ImplicitValueInitExpr":
                ct = cn.get("t", "")
                if ct.endswith("*"):
                    st.store[(root, path + key)] = NULL
                elif ct.startswith("struct ") or ct.startswith("union ") or ct.endswith("]"):
                    st.store[(root, path + key + ("zeroinit",))] = INT(1)
                else:
                    st.store[(root, path + key)] = INT(0)
            else:
                st.store[(root, path + key)] = self.V(f, fid, c, st)
        return True

    # ---- main entry ------------------------------------------------------
    def run(self, f, args, store, events=(), depth=0, cons=()):
        """args: list of values for the parameters (missing = TOP)."""
        if depth == 0:
            self.paths = 0          # the path budget is per top-level exploration
            STATS["runs"] += 1
        STATS["functions"].add(f.key)
        self.frame_counter += 1
        fid = self.frame_counter
        store = dict(store)
        for p, a in zip(f.params, list(args) + [TOP] * (len(f.params) - len(args))):
            if isinstance(a, dict) or (isinstance(a, tuple) and a and a[0] == "agg"):
                # a struct passed by value: {path: value}
                for path, v in (a.items() if isinstance(a, dict) else a[1]):
                    store[(("loc", fid, p["name"]), tuple(path))] = v
                continue
            store[(("loc", fid, p["name"]), ())] = a
        outs = []
        init = PState(f.entry, 0, store, {}, tuple(events), {}, (), tuple(cons))
        work = [init]
        seen = set() if self.merge else None
        while work:
            st = work.pop()
            self._run_path(f, fid, st, work, outs, depth, seen)
            if self.paths > self.max_paths:
                raise AnalysisBroken("%s: path explosion (> %d paths)" % (f.loc(), self.max_paths))
        if depth == 0:
            STATS["paths"] += len(outs)
        if self.merge:
            uniq = {}
            for o in outs:
                uniq.setdefault((o.kind, o.ret, frozenset(o.store.items())), o)
            outs = list(uniq.values())
        # drop the frame's locals from the outcome stores
        for o in outs:
            for k in [k for k in o.store if isinstance(k[0], tuple) and k[0][:2] == ("loc", fid)]:
                del o.store[k]
        return outs

    def _run_path(self, f, fid, st, work, outs, depth, seen=None):
        while True:
            b = st.b
            blk = f.blocks[b]
            elems = f.elems(b)
            if st.idx == 0 and seen is not None:
                live = self._span_nodes(f)
                key = (b, frozenset(st.store.items()),
                       frozenset((k_, v_) for k_, v_ in st.vals.items() if k_ in live),
                       st.visits.get(b, 0) >= self.loop_bound)
                if key in seen:
                    return
                seen.add(key)
            if st.idx == 0:
                st.visits[b] = st.visits.get(b, 0) + 1
                if st.visits[b] > self.loop_bound:
                    # loop bound reached: leave the loop through the exit edge
                    # of its condition (over-approximation: the loop may end
                    # after any number of iterations); other blocks: abandon
                    t = blk.get("term")
                    if t is not None and f.nodes[t]["k"] in ("ForStmt", "WhileStmt", "DoStmt") \
                            and len(blk["succs"]) == 2 and blk["succs"][1] is not None:
                        st.decisions = st.decisions + (("loop-exit", t),)
                        st.b = blk["succs"][1]
                        st.idx = 0
                        continue
                    return
                for e in elems:
                    st.vals.pop(e, None)
            i = st.idx
            while i < len(elems):
                e = elems[i]
                n = f.nodes[e]
                k = n["k"]
                if k == "CallExpr":
                    self._pending_dies = []
                    res = self._call(f, fid, e, st, depth)
                    for od in self._pending_dies:
                        self.paths += 1
                        outs.append(Outcome("die", None, od.store, od.events, st.decisions + od.decisions, od.cons))
                    self._pending_dies = []
                    if res is None:
                        # no-return callee
                        self.paths += 1
                        outs.append(Outcome("die", None, st.store, st.events, st.decisions, st.cons))
                        return
                    if len(res) == 0:
                        return
                    # fork over callee outcomes
                    for r_ in res[1:]:
                        s2 = st.fork()
                        s2.store = dict(r_[1])
                        s2.events = r_[2]
                        s2.vals[e] = r_[0]
                        s2.idx = i + 1
                        if len(r_) > 3:
                            s2.cons = r_[3]
                        work.append(s2)
                    r_ = res[0]
                    st.store = dict(r_[1])
                    st.events = r_[2]
                    st.vals[e] = r_[0]
                    if len(r_) > 3:
                        st.cons = r_[3]
                elif k == "ReturnStmt":
                    rv = self.V(f, fid, n["val"], st) if n["val"] >= 0 else None
                    self.paths += 1
                    outs.append(Outcome("ret", rv, st.store, st.events, st.decisions, st.cons))
                    return
                elif k == "DeclStmt":
                    for d in n["decls"]:
                        loc = (("loc", fid, d["name"]), ())
                        if d.get("static"):
                            # initialised once, before the program starts: keep whatever an earlier call left
                            sroot = ("SL", f.file, f.name, d["name"])
                            if not any(k_[0] == sroot for k_ in st.store):
                                if "init" in d and f.nodes[d["init"]]["k"] != "InitListExpr":
                                    st.store[(sroot, ())] = self.V(f, fid, d["init"], st)
                                else:
                                    st.store[(sroot, ("zeroinit",))] = INT(1)
                            continue
                        if "init" in d and self._all_zero_init(f, d["init"]):
                            # struct/array local initialised with {0}
                            self.havoc_root(st.store, ("loc", fid, d["name"]))
                            st.store[(("loc", fid, d["name"]), ("zeroinit",))] = INT(1)
                        elif "init" in d and f.nodes[d["init"]]["k"] == "InitListExpr" and \
                                self._init_list(f, fid, st, ("loc", fid, d["name"]), (), d["init"], check=True):
                            # struct / array local with an initialiser list: element by element (the list is in
                            # semantic form: one child per field, in declaration order)
                            self.havoc_root(st.store, ("loc", fid, d["name"]))
                            self._init_list(f, fid, st, ("loc", fid, d["name"]), (), d["init"])
                        elif "init" in d:
                            st.store[loc] = self.V(f, fid, d["init"], st)
                        else:
                            st.store[loc] = TOP
                            self.havoc_root(st.store, ("loc", fid, d["name"]))
                else:
                    st.vals[e] = self.compute(f, fid, e, st)
                i += 1
            if b in f.cut:
                self.paths += 1
                outs.append(Outcome("die", None, st.store, st.events, st.decisions, st.cons))
                return
            succs = blk["succs"]
            term = blk.get("term")
            if b == f.exit or not succs:
                self.paths += 1
                outs.append(Outcome("exit", None, st.store, st.events, st.decisions, st.cons))
                return
            nxt = []
            if term is not None and f.nodes[term]["k"] == "SwitchStmt":
                v = self.V(f, fid, blk["cond"], st)
                matched = False
                for si, s in enumerate(succs):
                    if s is None:
                        continue
                    if si == len(succs) - 1:
                        if not matched or v[0] != "int":
                            nxt.append((s, None, ("switch", term, "default")))
                        continue
                    lab = f.blocks[s].get("label") or {}
                    lo = lab.get("lo")
                    hi = lab.get("hi", lo)
                    if v[0] == "int":
                        if lo is not None and lo <= v[1] <= hi:
                            nxt.append((s, None, ("switch", term, lo)))
                            matched = True
                    else:
                        nxt.append((s, None, ("switch", term, lo)))
            elif len(succs) == 2 and term is not None:
                cond = blk.get("cond")
                cs = f.strip(cond) if cond is not None else None
                if cs is not None and f.nodes[cs]["k"] == "BinaryOperator" and \
                        f.nodes[cs]["op"] in ("&&", "||") and elems and f.nodes[term]["k"] != "BinaryOperator":
                    cond = elems[-1]
                v = self.V(f, fid, cond, st) if cond is not None else TOP
                if v[0] == "lin":
                    v = ("cmp", "!=", v[1], v[2])
                cmpv = None
                if v[0] == "cmp":
                    t = self.decide_cmp(st.cons, v[1], v[2], dict(v[3]))
                    if t is None:
                        cmpv = v
                else:
                    t = truth(v)
                tn = f.nodes[term]
                for si, want in ((0, True), (1, False)):
                    if succs[si] is None:
                        continue
                    if t is None or t == want:
                        nxt.append((succs[si], (cond, want, term, cmpv), ("br", cond, want)))
            else:
                for s in succs:
                    if s is not None:
                        nxt.append((s, None, None))
            if not nxt:
                return
            for (s, refine, dec) in nxt[1:]:
                s2 = st.fork()
                self._take(f, s2, s, refine, dec)
                work.append(s2)
            s, refine, dec = nxt[0]
            self._take(f, st, s, refine, dec)

    def _span_nodes(self, f):
        """Nodes whose value may be consulted in a later block: members of
        expressions containing &&, || or ?: (the only expressions clang's CFG
        splits across blocks)."""
        if f.key not in self._span:
            live = set()
            for i, n in enumerate(f.nodes):
                if (n["k"] == "BinaryOperator" and n.get("op") in ("&&", "||")) or \
                        n["k"] == "ConditionalOperator":
                    top = i
                    for a in f.ancestors(i):
                        if "t" in f.nodes[a] or f.nodes[a]["k"] in ("ReturnStmt", "DeclStmt"):
                            top = a
                        else:
                            break
                    live.update(f.descendants(top))
            self._span[f.key] = live
        return self._span[f.key]

    def _take(self, f, st, s, refine, dec):
        if refine is not None:
            cond, want, term, cmpv = refine
            if cmpv is not None:
                op = cmpv[1] if want else NEG_OP[cmpv[1]]
                st.cons = st.cons + self.cmp_constraints(op, cmpv[2], dict(cmpv[3]))
                if op == "!=":
                    lo, hi = self.bounds(st.cons, cmpv[2], dict(cmpv[3]))
                    if lo == 0:
                        st.cons = st.cons + self.cmp_constraints(">", cmpv[2], dict(cmpv[3]))
                    elif hi == 0:
                        st.cons = st.cons + self.cmp_constraints("<", cmpv[2], dict(cmpv[3]))
            if cond is not None:
                st.vals[cond] = INT(1 if want else 0)
                cs = f.strip(cond)
                st.vals[cs] = INT(1 if want else 0)
            tn = f.nodes[term]
            if tn["k"] == "BinaryOperator" and tn.get("op") == "||" and want:
                st.vals[term] = INT(1)
            elif tn["k"] == "BinaryOperator" and tn.get("op") == "&&" and not want:
                st.vals[term] = INT(0)
        if dec is not None:
            st.decisions = st.decisions + (dec,)
        st.b = s
        st.idx = 0

    # ---- locations ---------------------------------------------------------
    def L(self, f, fid, i, st):
        n = f.nodes[i]
        k = n["k"]
        if k in ("ParenExpr", "ConstantExpr"):
            return self.L(f, fid, n["c"][0], st)
        if k in ("ImplicitCastExpr", "CStyleCastExpr"):
            if n.get("ck") in ("NoOp", "LValueBitCast", "BitCast"):
                return self.L(f, fid, n["c"][0], st)
            return None
        if k == "DeclRefExpr":
            dk = n.get("dk")
            if dk in ("local", "param"):
                return (("loc", fid, n["name"]), ())
            if dk == "slocal":
                # a static local outlives the call: it is not part of the frame
                return (("SL", f.file, f.name, n["name"]), ())
            if dk == "global":
                return (("G", n.get("gfile"), n["name"]), ())
            return None
        if k == "MemberExpr":
            # members of anonymous structs/unions are flattened into the
            # enclosing named record
            comp = ((n.get("rec", "?"), n["field"]),) if n["field"] != "" else ()
            if n["arrow"]:
                bv = self.V(f, fid, n["c"][0], st)
                if bv[0] == "ptr":
                    return (bv[1], bv[2] + comp)
                if bv[0] == "null":
                    # p->field with p known to be NULL on this path
                    self.null_derefs.append((f.key, i, f.loc(i), f.src(i)))
                return None
            bl = self.L(f, fid, n["c"][0], st)
            if bl is None:
                return None
            return (bl[0], bl[1] + comp)
        if k == "ArraySubscriptExpr":
            iv = self.V(f, fid, n["c"][1], st)
            if iv[0] == "lin":
                bv = self.V(f, fid, n["c"][0], st)
                if bv[0] == "ptr" and bv[2] and bv[2][-1] == 0:
                    return (bv[1], bv[2][:-1] + (iv,))
                return None
            if iv[0] != "int":
                return None
            bj = n["c"][0]
            bn = f.nodes[bj]
            if bn["k"] == "ImplicitCastExpr" and bn.get("ck") == "ArrayToPointerDecay":
                bl = self.L(f, fid, bn["c"][0], st)
                if bl is None:
                    return None
                return (bl[0], bl[1] + (iv[1],))
            bv = self.V(f, fid, bj, st)
            if bv[0] == "ptr":
                if bv[2] and isinstance(bv[2][-1], int):
                    return (bv[1], bv[2][:-1] + (bv[2][-1] + iv[1],))
                if iv[1] == 0:
                    return (bv[1], bv[2])
                return (bv[1], bv[2] + (iv[1],))
            return None
        if k == "UnaryOperator" and n["op"] == "*":
            bv = self.V(f, fid, n["c"][0], st)
            if bv[0] == "ptr":
                return (bv[1], bv[2])
            return None
        return None

    # ---- values --------------------------------------------------------------
    def V(self, f, fid, i, st):
        if i is None or i < 0:
            return TOP
        if i in st.vals:
            return st.vals[i]
        return self.compute(f, fid, i, st)

    def compute(self, f, fid, i, st):
        n = f.nodes[i]
        k = n["k"]
        if "v" in n and k not in ("CallExpr", "BinaryOperator", "UnaryOperator", "CompoundAssignOperator"):
            return INT(n["v"])
        if "v" in n and k in ("BinaryOperator", "UnaryOperator") and n.get("op") not in \
                ("=", "++", "--"):
            return INT(n["v"])
        if n.get("null"):
            return NULL
        if k == "StringLiteral":
            return ("str", n["s"])
        c = n["c"]
        if k in ("ParenExpr", "ConstantExpr"):
            return self.V(f, fid, c[0], st)
        if k in ("ImplicitCastExpr", "CStyleCastExpr"):
            ck = n.get("ck")
            if ck == "LValueToRValue":
                sub = f.nodes[f.strip(c[0], casts=False)]
                if sub["k"] == "UnaryOperator" and sub.get("op") == "*":
                    # *p where p points into a known string (a C string pointer advanced k characters is the
                    # suffix of the string)
                    pv = self.V(f, fid, sub["c"][0], st)
                    if pv[0] == "str":
                        return INT(ord(pv[1][0])) if pv[1] else INT(0)
                if sub["k"] == "ArraySubscriptExpr":
                    bv = self.V(f, fid, sub["c"][0], st)
                    iv = self.V(f, fid, sub["c"][1], st)
                    if bv[0] == "str" and iv[0] == "int":
                        sv = bv[1]
                        return INT(ord(sv[iv[1]])) if 0 <= iv[1] < len(sv) else (INT(0) if iv[1] == len(sv) else TOP)
                loc = self.L(f, fid, c[0], st)
                if self.on_load is not None and loc is not None:
                    self.on_load(self, st, f, i, loc)
                if loc is not None and loc[1] and isinstance(loc[1][-1], tuple) and \
                        loc[1][-1] in self.nondet_fields:
                    return TOP
                if loc is not None and st.store.get(loc, TOP) == TOP and loc[1] and \
                        isinstance(loc[1][-1], tuple) and loc[1][-1] in self.field_values:
                    fv = self.field_values[loc[1][-1]]
                    return fv(loc) if callable(fv) else fv
                if loc is not None and loc not in st.store and isinstance(loc[0], tuple) \
                        and loc[0][0] == "G":
                    gv = self.global_load(loc[0], loc[1])
                    if gv is not None:
                        return gv
                if loc is not None and loc not in st.store and (loc[0], ("zeroinit",)) in st.store:
                    return INT(0)
                if loc is not None and loc not in st.store and loc[0] in self.symbolic_roots:
                    tname = n.get("ct") or n.get("t")
                    r = self.symbolic_ranges.get(tname) or TYPE_RANGE.get(tname)
                    if r is not None:
                        self._nmem += 1
                        v = self.sym("mem%d:%s" % (self._nmem, f.src(c[0])), r[0], r[1])
                        st.store[loc] = v
                        return v
                if loc is not None and loc not in st.store and loc[1] and isinstance(loc[1][-1], int):
                    # a character of a string the rule placed in a char array / behind a char pointer
                    sv = st.store.get((loc[0], loc[1][:-1]))
                    if sv is not None and sv[0] == "str":
                        k_ = loc[1][-1]
                        if 0 <= k_ < len(sv[1]):
                            return INT(ord(sv[1][k_]))
                        if k_ == len(sv[1]):
                            return INT(0)
                if loc is not None and (loc not in st.store or st.store[loc] == TOP):
                    tname = n.get("ct") or n.get("t") or ""
                    if tname.startswith("struct ") or tname.startswith("union "):
                        # a struct read as a whole: carry its known fields (by-value argument, struct copy)
                        pre = loc[1]
                        items = tuple(sorted(((k[1][len(pre):], v) for k, v in st.store.items()
                                              if k[0] == loc[0] and len(k[1]) > len(pre) and k[1][:len(pre)] == pre
                                              and k[1] != ("zeroinit",)), key=str))
                        if items:
                            return ("agg", items)
                v0 = self.load(st.store, loc)
                if loc is not None and v0[0] == "int" and 0 <= v0[1] <= 255 and (loc[0], loc[1] + (1,)) in st.store:
                    # a scalar that was filled byte by byte through a char pointer (d[0] lands on the scalar's own
                    # slot, d[k] next to it): read it back as the little-endian value of its bytes
                    r = TYPE_RANGE.get(n.get("ct") or n.get("t") or "")
                    nb = {255: 1, 127: 1, 65535: 2, 32767: 2, 2**32 - 1: 4, 2**31 - 1: 4, 2**64 - 1: 8, 2**63 - 1: 8}.get(r[1]) if r else None
                    if nb and nb > 1:
                        bs = [v0] + [st.store.get((loc[0], loc[1] + (k_,))) for k_ in range(1, nb)]
                        if all(b is not None and b[0] == "int" and 0 <= b[1] <= 255 for b in bs):
                            val = sum(b[1] << (8 * k_) for k_, b in enumerate(bs))
                            if r[0] < 0 and val > r[1]:
                                val -= 1 << (8 * nb)
                            return INT(val)
                return v0
            if ck == "ArrayToPointerDecay":
                sn = f.nodes[f.strip(c[0])]
                if sn["k"] == "StringLiteral":
                    return ("str", sn["s"])
                loc = self.L(f, fid, c[0], st)
                return PTR(loc[0], loc[1] + (0,)) if loc is not None else TOP
            if ck == "FunctionToPointerDecay":
                sn = f.nodes[f.strip(c[0])]
                return ("fn", sn.get("name", "?"))
            if ck == "NullToPointer":
                return NULL
            if ck in ("IntegralToBoolean", "PointerToBoolean"):
                t = truth(self.V(f, fid, c[0], st))
                return TOP if t is None else INT(1 if t else 0)
            if ck == "ToVoid":
                return TOP
            v = self.V(f, fid, c[0], st)
            if ck == "PointerToIntegral" and v[0] == "ptr" and len(v[2]) == 1:
                # address = base address of the object (one symbol per object) + position
                x = v[2][0]
                base = "&%s" % (v[1],)
                if base not in self.syms:
                    self.syms[base] = (1 << 12, 1 << 46)
                lx = to_lin(INT(x)) if isinstance(x, int) else to_lin(x)
                if lx is not None:
                    t = dict(lx[1])
                    t[base] = t.get(base, 0) + 1
                    return mk_lin(lx[0], t)
            if ck == "IntegralCast" and v[0] == "int":
                return self._wrap(v[1], n.get("ct") or n.get("t"))
            if ck == "IntegralCast" and v[0] == "lin":
                return v if self.fits(st.cons, v, n.get("ct") or n.get("t")) else TOP
            if ck == "IntegralCast" and v[0] == "cmp":
                return v
            return v
        if k == "DeclRefExpr":
            dk = n.get("dk")
            if dk == "fn":
                return ("fn", n["name"])
            return TOP      # lvalues are read through LValueToRValue
        if k == "UnaryOperator":
            op = n["op"]
            if op == "&":
                sn = f.nodes[f.strip(c[0])]
                if sn["k"] == "DeclRefExpr" and sn.get("dk") == "fn":
                    return ("fn", sn["name"])
                loc = self.L(f, fid, c[0], st)
                return PTR(loc[0], loc[1]) if loc is not None else TOP
            if op == "*":
                return TOP
            if op in ("++", "--"):
                loc = self.L(f, fid, c[0], st)
                old = self.load(st.store, loc)
                d_ = 1 if op == "++" else -1
                if old[0] == "int":
                    new = INT(old[1] + d_)
                elif old[0] == "lin":
                    new = mk_lin(old[1] + d_, dict(old[2]))
                    if not self.fits(st.cons, new, n.get("ct") or n.get("t")):
                        new = TOP
                elif old[0] == "ptr" and old[2] and isinstance(old[2][-1], int):
                    new = PTR(old[1], old[2][:-1] + (old[2][-1] + d_,))
                elif old[0] == "str" and d_ == 1 and old[1]:
                    new = ("str", old[1][1:])
                else:
                    new = TOP
                if loc is not None:
                    self._store(f, st, loc, new, i)
                return old if n.get("postfix") else new
            v = self.V(f, fid, c[0], st)
            if op == "!" and v[0] == "cmp":
                return ("cmp", NEG_OP[v[1]], v[2], v[3])
            if op == "!" and v[0] == "lin":
                t = self.decide_cmp(st.cons, "==", v[1], dict(v[2]))
                return ("cmp", "==", v[1], v[2]) if t is None else INT(1 if t else 0)
            if op == "-" and v[0] == "lin":
                return mk_lin(-v[1], {k_: -c_ for k_, c_ in v[2]})
            if op == "!":
                t = truth(v)
                return TOP if t is None else INT(0 if t else 1)
            if v[0] == "int":
                if op == "-":
                    return INT(-v[1])
                if op == "~":
                    return INT(~v[1])
                if op == "+":
                    return v
            return TOP
        if k == "BinaryOperator":
            op = n["op"]
            if op == "=":
                rv = self.V(f, fid, c[1], st)
                loc = self.L(f, fid, c[0], st)
                if loc is not None:
                    self._store(f, st, loc, rv, i)
                else:
                    st.events = st.events + (("store?", f.key, i),)
                return rv
            if op == ",":
                return self.V(f, fid, c[1], st)
            if op in ("&&", "||"):
                l = truth(self.V(f, fid, c[0], st))
                if op == "||" and l is True:
                    return INT(1)
                if op == "&&" and l is False:
                    return INT(0)
                r = truth(self.V(f, fid, c[1], st))
                if op == "||" and r is True:
                    return INT(1)
                if op == "&&" and r is False:
                    return INT(0)
                if l is None or r is None:
                    return TOP
                return INT(1 if r else 0)
            a = self.V(f, fid, c[0], st)
            b = self.V(f, fid, c[1], st)
            r_ = self._lin_binop(f, i, n, op, a, b, st)
            if r_ is not None:
                return r_
            if op in CMPS:
                if a[0] == "int" and b[0] == "int":
                    return INT(1 if CMPS[op](a[1], b[1]) else 0)
                if op in ("==", "!="):
                    eq = self._ptr_eq(a, b)
                    if eq is not None:
                        return INT(1 if (eq == (op == "==")) else 0)
                if a[0] == "ptr" and b[0] == "ptr" and a[1] == b[1] and len(a[2]) == len(b[2]) and a[2] and \
                        a[2][:-1] == b[2][:-1] and isinstance(a[2][-1], int) and isinstance(b[2][-1], int):
                    # two pointers into the same array: compare the positions
                    return INT(1 if CMPS[op](a[2][-1], b[2][-1]) else 0)
                return TOP
            if op == "+" and a[0] == "str" and b[0] == "int" and 0 <= b[1] <= len(a[1]):
                return ("str", a[1][b[1]:])
            if op in ("+", "-") and a[0] == "ptr" and b[0] == "int" and a[2] and isinstance(a[2][-1], int):
                return PTR(a[1], a[2][:-1] + (a[2][-1] + (b[1] if op == "+" else -b[1]),))
            if op == "+" and a[0] == "ptr" and b[0] == "lin" and a[2]:
                return self._ptr_add(a, b)
            if op == "-" and a[0] == "ptr" and b[0] == "int" and a[2] and isinstance(a[2][-1], tuple) \
                    and len(a[2][-1]) == 2 and isinstance(a[2][-1][0], str):
                # container_of idiom: (char *) &obj->field - offsetof(type, field)
                rec = self.prog.records.get(a[2][-1][0])
                if rec is not None:
                    for fld in rec["fields"]:
                        if fld["name"] == a[2][-1][1] and fld["offbits"] // 8 == b[1]:
                            return PTR(a[1], a[2][:-1])
            if op in ARITH and a[0] == "int" and b[0] == "int":
                r = ARITH[op](a[1], b[1])
                return TOP if r is None else INT(r)
            return TOP
        if k == "CompoundAssignOperator":
            loc = self.L(f, fid, c[0], st)
            old = self.load(st.store, loc)
            rv = self.V(f, fid, c[1], st)
            op = n["op"][:-1]
            new = TOP
            if old[0] == "int" and rv[0] == "int" and op in ARITH:
                r = ARITH[op](old[1], rv[1])
                new = TOP if r is None else INT(r)
            elif old[0] == "ptr" and rv[0] in ("lin", "int") and op == "+" and old[2]:
                new = self._ptr_add(old, rv)
            elif "lin" in (old[0], rv[0]):
                r_ = self._lin_binop(f, i, n, op, old, rv, st)
                new = r_ if r_ is not None else TOP
            if loc is not None:
                self._store(f, st, loc, new, i)
            return new
        if k == "ConditionalOperator":
            t = truth(self.V(f, fid, c[0], st))
            if t is None:
                return TOP
            return self.V(f, fid, c[1] if t else c[2], st)
        if k == "CallExpr":
            return TOP      # calls are executed as CFG elements only
        if k == "AtomicExpr":
            return self._atomic(f, fid, i, n, st)
        return TOP

    @staticmethod
    def _ptr_add(p, d):
        last = p[2][-1]
        if isinstance(last, int):
            cur = INT(last)
        elif isinstance(last, tuple) and last and last[0] in ("lin", "int"):
            cur = last
        else:
            return TOP
        la, lb = to_lin(cur), to_lin(d)
        t = dict(la[1])
        for k_, c_ in lb[1].items():
            t[k_] = t.get(k_, 0) + c_
        v = mk_lin(la[0] + lb[0], t)
        return PTR(p[1], p[2][:-1] + ((v[1] if v[0] == "int" else v),))

    def _atomic(self, f, fid, i, n, st):
        """C11 atomics executed on the abstract store (sequentially consistent,
        one thread at a time: the interleavings are the rule's business)."""
        op = n.get("op", "")
        c = n["c"]
        pv = self.V(f, fid, c[0], st)
        loc = (pv[1], pv[2]) if pv[0] == "ptr" else None
        ev = ("atomic", op, loc, f.key, i)
        if self.merge:
            self.event_log.append(ev)
        else:
            st.events = st.events + (ev,)
        if op.endswith("atomic_load"):
            return self.load(st.store, loc)
        if op.endswith("atomic_store") or op.endswith("atomic_init"):
            v = self.V(f, fid, c[2] if len(c) > 2 else c[1], st)
            if loc is not None:
                self._store(f, st, loc, v, i)
            return TOP
        if "compare_exchange" in op:
            ev_ptr = self.V(f, fid, c[2], st)
            eloc = (ev_ptr[1], ev_ptr[2]) if ev_ptr[0] == "ptr" else None
            desired = self.V(f, fid, c[4], st)
            cur = self.load(st.store, loc)
            exp = self.load(st.store, eloc)
            if cur[0] == "int" and exp[0] == "int":
                if cur[1] == exp[1]:
                    if loc is not None:
                        self._store(f, st, loc, desired, i)
                    return INT(1)
                if eloc is not None:
                    st.store[eloc] = cur
                return INT(0)
            if loc is not None:
                st.store[loc] = TOP
            if eloc is not None:
                st.store[eloc] = TOP
            return TOP
        if "exchange" in op:
            old = self.load(st.store, loc)
            v = self.V(f, fid, c[2], st)
            if loc is not None:
                self._store(f, st, loc, v, i)
            return old
        if "fetch_" in op:
            old = self.load(st.store, loc)
            if loc is not None:
                st.store[loc] = TOP
            return old
        return TOP

    def _lin_binop(self, f, i, n, op, a, b, st):
        """Arithmetic / comparison when an operand is a linear form (or a mask of
        an unknown).  Returns None when not applicable."""
        ct = n.get("ct") or n.get("t")
        if op == "&" and ((a[0] == "int" and a[1] >= 0 and b[0] != "int") or
                          (b[0] == "int" and b[1] >= 0 and a[0] != "int")):
            mask = a[1] if a[0] == "int" else b[1]
            other = b if a[0] == "int" else a
            lo_ = to_lin(other)
            if lo_ is not None:
                lo, hi = self.bounds(st.cons, lo_[0], lo_[1])
                if lo is not None and lo >= 0:
                    if mask == 0 or hi < (mask & -mask):
                        return INT(0)           # no bit of the mask can be set
                    if (mask & (mask + 1)) == 0 and hi <= mask:
                        return other            # low-bits mask wider than the value: identity
            if lo_ is not None and lo_[1]:
                # the same symbolic operand masked with the same constant is the same value
                name = "(%s)&%d" % (",".join("%s*%d" % kc for kc in sorted(lo_[1].items())) + "+%d" % lo_[0], mask)
                if name not in self.syms:
                    self.syms[name] = (0, mask)
                return ("lin", 0, ((name, 1),))
            self._fresh = getattr(self, "_fresh", 0) + 1
            return self.sym("and%d@%s:%d" % (self._fresh, f.name, f.lineof(i)), 0, mask)
        if a[0] != "lin" and b[0] != "lin":
            return None
        if a[0] == "ptr" or b[0] == "ptr":
            return None         # pointer arithmetic is handled by the caller
        la, lb = to_lin(a), to_lin(b)
        if la is None or lb is None:
            return TOP if op not in CMPS else None
        if op in ("+", "-"):
            sg = 1 if op == "+" else -1
            t = dict(la[1])
            for k_, c_ in lb[1].items():
                t[k_] = t.get(k_, 0) + sg * c_
            v = mk_lin(la[0] + sg * lb[0], t)
            return v if self.fits(st.cons, v, ct) else TOP
        if op == "*":
            if not la[1]:
                v = mk_lin(la[0] * lb[0], {k_: c_ * la[0] for k_, c_ in lb[1].items()})
            elif not lb[1]:
                v = mk_lin(la[0] * lb[0], {k_: c_ * lb[0] for k_, c_ in la[1].items()})
            else:
                return TOP
            return v if self.fits(st.cons, v, ct) else TOP
        if op in CMPS:
            t = dict(la[1])
            for k_, c_ in lb[1].items():
                t[k_] = t.get(k_, 0) - c_
            t = {k_: c_ for k_, c_ in t.items() if c_ != 0}
            c0 = la[0] - lb[0]
            d = self.decide_cmp(st.cons, op, c0, t)
            if d is not None:
                return INT(1 if d else 0)
            return ("cmp", op, c0, tuple(sorted(t.items())))
        return TOP

    @staticmethod
    def _wrap(v, ct):
        bits = {"unsigned char": (8, False), "signed char": (8, True), "char": (8, True),
                "unsigned short": (16, False), "short": (16, True),
                "unsigned int": (32, False), "int": (32, True),
                "unsigned long": (64, False), "long": (64, True),
                "unsigned long long": (64, False), "long long": (64, True), "_Bool": (1, False)}
        if ct not in bits:
            return INT(v)
        w, signed = bits[ct]
        if ct == "_Bool":
            return INT(1 if v else 0)
        m = v & ((1 << w) - 1)
        if signed and m >= (1 << (w - 1)):
            m -= (1 << w)
        return INT(m)

    @staticmethod
    def _ptr_eq(a, b):
        if a[0] == "null" and b[0] == "null":
            return True
        if (a[0] == "null" and b[0] in ("ptr", "fn", "str")) or (b[0] == "null" and a[0] in ("ptr", "fn", "str")):
            return False
        if a[0] == "ptr" and b[0] == "ptr":
            if a[1] == b[1] and a[2] == b[2]:
                return True
            if a[1] != b[1] and isinstance(a[1], str) and isinstance(b[1], str):
                return False    # distinct rule-declared objects
            if a[1] != b[1]:
                return False
            return None
        if a[0] == "int" and b[0] == "null":
            return a[1] == 0
        if b[0] == "int" and a[0] == "null":
            return b[1] == 0
        return None

    def _store(self, f, st, loc, val, node):
        if val[0] == "agg":
            # struct copy: scatter the fields, forget what the destination held before
            for k in [k for k in st.store if k[0] == loc[0] and len(k[1]) > len(loc[1]) and k[1][:len(loc[1])] == loc[1]]:
                del st.store[k]
            st.store.pop(loc, None)
            for path, v in val[1]:
                st.store[(loc[0], loc[1] + tuple(path))] = v
            return
        st.store[loc] = val
        root = loc[0]
        if not (isinstance(root, tuple) and root[0] == "loc"):
            if self.merge:
                self.event_log.append(("store", loc, val, f.key, node))
            else:
                st.events = st.events + (("store", loc, val, f.key, node),)

    # ---- calls -------------------------------------------------------------------
    def _call(self, f, fid, e, st, depth):
        """Returns list of (ret, store, events), or None if the callee never returns."""
        n = f.nodes[e]
        cal = n.get("callee")
        args = [self.V(f, fid, a, st) for a in n["args"]]
        if cal is None:
            fv = self.V(f, fid, n["fnexpr"], st)
            if fv[0] == "fn":
                cal = fv[1]
        if cal in PURE_BUILTINS and cal not in self.summaries and all(a[0] == "int" for a in args):
            try:
                return [(INT(PURE_BUILTINS[cal](*[a[1] for a in args])), st.store, st.events, st.cons)]
            except Exception:
                pass
        ev = ("call", cal, tuple(args), f.key, e)
        if self.merge:
            self.event_log.append(ev)
        if self.on_call is not None:
            self.on_call(self, st, f, e, cal, args)
        if cal is not None and cal in self.summaries:
            r = self.summaries[cal](self, st, args, f, e)
            if r is not None:
                out = []
                for item in r:
                    ret, upd = item[0], item[1]
                    s2 = dict(st.store)
                    s2.update(upd)
                    cons2 = st.cons + tuple(item[2]) if len(item) > 2 else st.cons
                    out.append((ret, s2, st.events if self.merge else st.events + (ev,), cons2))
                return out
        d = self.prog.resolve(f, cal) if cal else None
        if d is None and cal and n.get("callee") is None:
            # call through a function pointer whose value is known: the target may be a static
            # function of another unit
            cands = self.prog.by_name.get(cal, [])
            if len(cands) == 1:
                d = cands[0]
        if d is None and cal in self.prog.noreturn_names:
            return None
        if d is not None and (d.noreturn or d.declared_noreturn):
            return None
        auto = (d is not None and self.auto_inline and d.static and d.file == f.file and cal not in self.opaque
                and not d.file.endswith((".h",)) and depth < self.max_depth + 2)
        if d is not None and ((depth < self.max_depth and self.inline(cal, d)) or auto):
            outs = self.run(d, args, st.store,
                            st.events if self.merge else st.events + (ev, ("enter", cal, tuple(args), f.key, e)),
                            depth + 1, st.cons)
            res = []
            for o in outs:
                if o.kind == "die":
                    # the callee aborts the program on this path: an outcome of the caller too
                    self._pending_dies.append(o)
                    continue
                res.append((o.ret if o.ret is not None else TOP, o.store,
                            o.events if self.merge else o.events + (("leave", cal, o.ret),), o.cons))
            return res
        # unknown / not inlined: havoc what it may write
        store = st.store
        mw = None
        if d is not None and self.effects is not None:
            mw = self.effects.may_write(d)
        store = dict(store)
        if mw is not None:
            fields = {(t[1], t[2]) for t in mw if t[0] == "field"}
            objs = {t[1] for t in mw if t[0] == "object"}
            for k in list(store):
                path = k[1]
                if path and isinstance(path[-1], tuple) and path[-1] in fields:
                    store[k] = TOP
                elif path and any(isinstance(p, tuple) and p[0] in objs for p in path):
                    store[k] = TOP
            globs = {t[1] for t in mw if t[0] == "global"}
            for k in list(store):
                if isinstance(k[0], tuple) and k[0][0] == "G" and k[0][2] in globs:
                    store[k] = TOP
        from .effects import LIBC_DEST_WRITERS
        for ai, a in enumerate(args):
            if a[0] == "ptr":
                root = a[1]
                if d is None and cal in LIBC_DEST_WRITERS and ai != LIBC_DEST_WRITERS[cal]:
                    continue        # libc routine that only reads through this argument
                if isinstance(root, tuple) and root[0] == "loc":
                    self.havoc_root(store, root, a[2] if not (a[2] and a[2][-1] == 0) else a[2][:-1])
                elif d is None:
                    # external function given a pointer: may write the pointee
                    if cal in ("memset", "memcpy", "memmove", "strcpy", "snprintf", "fread") \
                            and a is args[0]:
                        self.havoc_root(store, root, a[2] if not (a[2] and a[2][-1] == 0) else a[2][:-1])
        if self.on_unknown_call:
            r = self.on_unknown_call(cal, args, f, e)
            if r is not None:
                return [(rv, store, st.events if self.merge else st.events + (ev,)) for rv in r]
        return [(TOP, store, st.events if self.merge else st.events + (ev,))]

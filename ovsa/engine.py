"""S3 driver: rule context, verdicts, known findings, evidence, witnesses."""
import importlib
import json
import os
import random
import re
import shutil
import subprocess
import sys
import tempfile
import time

from . import facts as factsmod
from .facts import AnalysisBroken, VERIF
from .prog import Program

LEVEL = "other"


class Ctx:
    """Collects rule instances for one property on one tree."""

    def __init__(self, prop, prog, root, tier="quick"):
        self.prop = prop
        self.prog = prog
        self.root = root
        self.tier = tier
        self.instances = []
        self.notes = []
        self.rule_text = {}
        self._src_cache = {}

    def rule(self, rid, text):
        self.rule_text[rid] = text

    def ok(self, rule, inst, where="", note="", nontrivial=True):
        self.instances.append(dict(rule=rule, inst=inst, ok=True, where=where,
                                   note=note, nontrivial=nontrivial))

    def fail(self, rule, inst, where, what):
        self.instances.append(dict(rule=rule, inst=inst, ok=False, where=where,
                                   what=what, nontrivial=True))

    def check(self, cond, rule, inst, where, what_if_fail, note=""):
        if cond:
            self.ok(rule, inst, where, note)
        else:
            self.fail(rule, inst, where, what_if_fail)
        return cond

    def broken(self, why):
        raise AnalysisBroken("%s: %s" % (self.prop, why))

    def need(self, cond, why):
        if not cond:
            self.broken(why)

    def note(self, text):
        self.notes.append(text)

    def source_line(self, file, line):
        key = file
        if key not in self._src_cache:
            try:
                with open(os.path.join(self.root, file)) as f:
                    self._src_cache[key] = f.read().split("\n")
            except OSError:
                self._src_cache[key] = []
        ls = self._src_cache[key]
        return ls[line - 1].strip() if 0 < line <= len(ls) else ""


def load_program(root, extra_flags=(), save_tree=True, jobs=16):
    fx, info = factsmod.extract(root, extra_flags, save_tree=save_tree, jobs=jobs)
    return Program(fx, info)


def load_rules(prop):
    sys.path.insert(0, VERIF)
    return importlib.import_module("rules." + prop)


def load_known():
    p = os.path.join(VERIF, "known_findings.json")
    if not os.path.exists(p):
        return []
    with open(p) as f:
        return json.load(f).get("findings", [])


def load_expected(prop):
    p = os.path.join(VERIF, "spec", "expected_counts.json")
    if not os.path.exists(p):
        return {}
    with open(p) as f:
        return json.load(f).get(prop, {})


def run_rules(prop, prog, root, tier):
    mod = load_rules(prop)
    ctx = Ctx(prop, prog, root, tier)
    try:
        mod.run(ctx)
    except AnalysisBroken as e:
        # a violation already established is not masked by a later rule that could not be evaluated (typically
        # because of that very violation): report what was found; the rest of the rules did not run
        if not any(not i["ok"] for i in ctx.instances):
            raise
        ctx.partial = str(e)
        ctx.note("evaluation stopped after the violation(s) below: " + str(e))
    return ctx


def check_counts(prop, ctx):
    """Vacuity guard: the instance count per rule must not fall below the
    frozen minimum confirmed by hand on the reference tree."""
    exp = load_expected(prop)
    counts = {}
    for i in ctx.instances:
        counts[i["rule"]] = counts.get(i["rule"], 0) + 1
    failing = {i["rule"] for i in ctx.instances if not i["ok"]}
    for rule, minimum in exp.items():
        # a rule with a failing instance is not vacuous: dependent instances (the links of a propagation
        # chain after the broken one, the cells after a rejected state) are legitimately not generated,
        # and the failure itself is reported
        if counts.get(rule, 0) < minimum and rule not in failing and not getattr(ctx, "partial", None):
            raise AnalysisBroken("%s rule %s matched %d instances, frozen minimum is %d "
                                 "(a rule that matches nothing proves nothing)" %
                                 (prop, rule, counts.get(rule, 0), minimum))
    return counts


def slug(s):
    return re.sub(r"[^A-Za-z0-9_.-]+", "_", s)[:120]


def classify(prop, ctx):
    """Split failing instances into known findings and new violations."""
    known = [k for k in load_known() if k.get("property") == prop]
    viol, kf = [], []
    for i in ctx.instances:
        if i["ok"]:
            continue
        m = None
        for k in known:
            if k.get("status", "known") != "known":
                continue        # 'fixed' entries suppress nothing
            if k["rule"] == i["rule"] and k["instance"] == i["inst"]:
                m = k
                break
        if m:
            kf.append((i, m))
        else:
            viol.append(i)
    return viol, kf


# ---- witnesses (self-test of the rules, DESIGN §2.5) ------------------------

def load_witnesses(prop):
    p = os.path.join(VERIF, "witness", prop + ".json")
    if not os.path.exists(p):
        return []
    with open(p) as f:
        return json.load(f)


def make_tree_copy(root):
    d = tempfile.mkdtemp(prefix="ovw.")
    for sub in ("src", "include", "cfg"):
        if os.path.isdir(os.path.join(root, sub)):
            shutil.copytree(os.path.join(root, sub), os.path.join(d, sub))
    shutil.copy(os.path.join(root, "CMakeLists.txt"), os.path.join(d, "CMakeLists.txt"))
    return d


def apply_edit(tree, w):
    """Apply witness edits.  Returns None if applied, else reason for skipping."""
    if w.get("patch"):
        # a unified diff kept under /verif (the seeded changes of DESIGN §8)
        pf = os.path.join(VERIF, w["patch"])
        if not os.path.exists(pf):
            return "patch file %s missing" % w["patch"]
        r = subprocess.run(["git", "apply", "--whitespace=nowarn", pf], cwd=tree,
                           stdout=subprocess.PIPE, stderr=subprocess.STDOUT)
        if r.returncode != 0:
            return "patch no longer applies: " + r.stdout.decode()[-200:]
        return None
    edits = w.get("edits") or [w]
    for e in edits:
        p = os.path.join(tree, e["file"])
        if not os.path.exists(p):
            return "file %s missing" % e["file"]
        with open(p) as f:
            text = f.read()
        find = e["find"]
        if e.get("regex"):
            ms = list(re.finditer(find, text, re.S))
            if len(ms) != 1:
                return "pattern matches %d times in %s" % (len(ms), e["file"])
            text = text[:ms[0].start()] + ms[0].expand(e["replace"]) + text[ms[0].end():]
        else:
            if text.count(find) != 1:
                return "anchor text occurs %d times in %s" % (text.count(find), e["file"])
            text = text.replace(find, e["replace"])
        with open(p, "w") as f:
            f.write(text)
    return None


WARN_FLAGS = ["-Wall", "-Wextra", "-Wformat", "-Wmissing-prototypes", "-Wstrict-prototypes",
              "-Wconversion", "-Wsign-conversion", "-Wold-style-definition", "-pedantic",
              "-Werror", "-Wno-unknown-warning-option"]


def compiles(tree, files):
    """Does the edited tree still parse with the build's warning flags?"""
    gendir = tempfile.mkdtemp(prefix="ovgen.")
    try:
        factsmod.generate_headers(tree, gendir)
        fl = [f for f in factsmod.flags_for(tree, gendir) if f != "-Wno-everything"]
        # the build uses NDEBUG-less Release; keep our flags but add warnings
        units = []
        for f in files:
            if f.endswith(".c"):
                units.append(f)
            else:
                units = factsmod.unit_list(tree)
                break
        for u in units:
            r = subprocess.run(["clang", "-fsyntax-only"] + fl[:-2] + WARN_FLAGS +
                               [os.path.join(tree, u)],
                               stdout=subprocess.PIPE, stderr=subprocess.PIPE)
            if r.returncode != 0:
                return False, r.stderr.decode()[-1500:]
        return True, ""
    finally:
        shutil.rmtree(gendir, ignore_errors=True)


def run_witness(prop, w, root):
    """Returns (status, detail): status in pass / fail / skipped."""
    tree = make_tree_copy(root)
    try:
        why = apply_edit(tree, w)
        if why:
            return "skipped", why
        if w.get("patch"):
            with open(os.path.join(VERIF, w["patch"])) as pfh:
                files = sorted({l[6:].strip() for l in pfh if l.startswith("+++ b/")})
        else:
            files = [e["file"] for e in (w.get("edits") or [w])]
        if not w.get("patch"):
            # hand-written witnesses must keep compiling with the build's warning flags; the seeded patches were
            # built with the real tool chain and passed the test suite (seeded/confirm.py), which is the stronger check
            okc, errs = compiles(tree, files)
            if not okc:
                return "fail", "witness no longer compiles with the build's warning flags: " + errs
        try:
            prog = load_program(tree, save_tree=False, jobs=4)
            ctx = run_rules(prop, prog, tree, "quick")
            fails = [i for i in ctx.instances if not i["ok"]]
            # findings already present on the reference tree are not the witness's doing
            base_known = {(k["rule"], k["instance"]) for k in load_known()
                          if k.get("property") == prop and k.get("status", "known") == "known"}
            fails = [i for i in fails if (i["rule"], i["inst"]) not in base_known]
            broken = None
        except AnalysisBroken as e:
            fails = []
            broken = str(e)
        exp = w["expect"]
        if exp == "silent":
            if broken:
                return "fail", "silent witness broke the analysis: " + broken
            if fails:
                return "fail", "silent witness raised: " + "; ".join(
                    "%s %s" % (i["rule"], i["inst"]) for i in fails[:4])
            return "pass", "silent"
        if exp == "broken":
            return ("pass", broken) if broken else ("fail", "expected analysis-broken")
        rule, sub = exp["rule"], exp.get("inst", "")
        hit = [i for i in fails if i["rule"] == rule and sub in i["inst"]]
        if hit:
            return "pass", "fired %s %s" % (hit[0]["rule"], hit[0]["inst"])
        if broken:
            return "fail", "expected %s to fire, analysis broke instead: %s" % (rule, broken)
        return "fail", "expected %s[%s] to fire; got %s" % (
            rule, sub, [(i["rule"], i["inst"]) for i in fails[:6]])
    finally:
        shutil.rmtree(tree, ignore_errors=True)


# ---- main entry ------------------------------------------------------------

def main(argv):
    import argparse
    ap = argparse.ArgumentParser()
    ap.add_argument("prop")
    ap.add_argument("--tier", default=os.environ.get("VERIF_TIER", "quick"))
    ap.add_argument("--root", default="/repo")
    ap.add_argument("--replay", default=None)
    ap.add_argument("--no-witness", action="store_true")
    ap.add_argument("--list", action="store_true", help="print every rule instance")
    a = ap.parse_args(argv)
    prop = a.prop
    tier = a.tier if a.tier in ("quick", "thorough") else "quick"
    try:
        seed = int(os.environ.get("VERIF_SEED", "0"))
    except ValueError:
        seed = 0
    t0 = time.time()
    os.chdir(VERIF)
    try:
        # whole-tree pickles are only worth keeping for the tree that is checked again and again
        prog = load_program(a.root, save_tree=os.path.realpath(a.root) == "/repo")
        ctx = run_rules(prop, prog, a.root, tier)
        counts = check_counts(prop, ctx)
        configs = ["default"]
        extra_ctx = []
        if tier == "thorough":
            for name, fl in (("ENABLE_DEBUG", ["-DENABLE_DEBUG"]),):
                p2 = load_program(a.root, fl)
                c2 = run_rules(prop, p2, a.root, tier)
                check_counts(prop, c2)
                configs.append(name)
                extra_ctx.append((name, c2))
    except AnalysisBroken as e:
        print("ANALYSIS-BROKEN property=%s %s" % (prop, e))
        return 2

    viol, kf = classify(prop, ctx)
    for name, c2 in extra_ctx:
        v2, k2 = classify(prop, c2)
        have = {(i["rule"], i["inst"]) for i in viol}
        for i in v2:
            if (i["rule"], i["inst"]) not in have:
                i = dict(i)
                i["config"] = name
                viol.append(i)

    if a.list:
        for i in ctx.instances:
            print("%s %-6s %-60s %s %s" % ("ok  " if i["ok"] else "FAIL", i["rule"], i["inst"],
                                          i["where"], i.get("what", i.get("note", ""))))

    # witnesses
    wres = []
    wbroken = []
    if not a.no_witness and not a.replay:
        ws = load_witnesses(prop)
        if tier == "quick" and len(ws) > 2:
            rnd = random.Random(seed)
            ws = rnd.sample(ws, 2)
        if ws:
            import concurrent.futures
            with concurrent.futures.ProcessPoolExecutor(max_workers=min(8, len(ws))) as ex:
                futs = [ex.submit(run_witness, prop, w, a.root) for w in ws]
                for w, fu in zip(ws, futs):
                    st, detail = fu.result()
                    wres.append(dict(id=w["id"], status=st, detail=detail))
                    if st == "fail":
                        wbroken.append("%s: %s" % (w["id"], detail))

    # replay files + verdict lines
    rdir = os.path.join(VERIF, "replays", prop)
    if a.replay:
        with open(a.replay) as f:
            want = json.load(f)
        viol = [i for i in viol if i["rule"] == want["rule"] and i["inst"] == want["instance"]]
    for i, k in kf:
        print("KNOWN-FINDING: property=%s %s %s at %s: %s" %
              (prop, i["rule"], i["inst"], i["where"], i["what"]))
    # a single defect in a table can fail thousands of cells: the first 60 are reported one by one (all of them
    # are counted and kept in the evidence file)
    per_rule = {}
    shown = []
    for i in viol:
        k_ = per_rule[i["rule"]] = per_rule.get(i["rule"], 0) + 1
        if k_ <= 20 and len(shown) < 60:
            shown.append(i)
    if len(shown) < len(viol):
        print("... %d further violations of %s not listed one by one" % (len(viol) - len(shown), sorted(per_rule)))
    for i in shown:
        os.makedirs(rdir, exist_ok=True)
        rp = os.path.join("replays", prop, slug(i["rule"] + "-" + i["inst"]) + ".json")
        with open(os.path.join(VERIF, rp), "w") as f:
            json.dump(dict(property=prop, rule=i["rule"], instance=i["inst"], where=i["where"],
                           what=i["what"], rule_text=ctx.rule_text.get(i["rule"], ""),
                           config=i.get("config", "default"),
                           how_to_replay="./check %s --replay %s" % (prop, rp)), f, indent=1)
        print("%s %s at %s: %s" % (i["rule"], i["inst"], i["where"], i["what"]))
        print("VIOLATION property=%s replay=%s" % (prop, rp))

    wall = time.time() - t0
    if not a.replay and os.path.realpath(a.root) == "/repo":
        # the evidence file describes /repo's working tree; a run on a scratch copy (--root) must not overwrite it
        write_evidence(prop, tier, seed, ctx, counts, viol, kf, wres, configs, wall, prog)

    if wbroken:
        for m in wbroken:
            print("SELF-TEST-FAILED property=%s %s" % (prop, m))
        return 2
    n_ok = sum(1 for i in ctx.instances if i["ok"])
    print("%s: %d rule instances, %d hold, %d known findings, %d violations; witnesses %s; %.1fs" % (
        prop, len(ctx.instances), n_ok, len(kf), len(viol),
        ",".join("%s=%s" % (w["id"], w["status"]) for w in wres) or "none", wall))
    return 1 if viol else 0


def write_evidence(prop, tier, seed, ctx, counts, viol, kf, wres, configs, wall, prog):
    insts = ctx.instances
    distinct = len({(i["rule"], i["inst"]) for i in insts if i.get("nontrivial", True)})
    samples = []
    per_rule = {}
    for i in insts:
        k = per_rule.get(i["rule"], 0)
        if k >= 4 and i["ok"]:
            continue
        per_rule[i["rule"]] = k + 1
        samples.append(dict(rule=i["rule"], instance=i["inst"], where=i["where"],
                            verdict="holds" if i["ok"] else "fails",
                            detail=i.get("note") or i.get("what", "")))
    from . import absint as _absint
    ev = {
        "property_id": prop,
        "tier": tier,
        "seed": seed,
        "level": LEVEL,
        "coverage": {
            "explanation": ("Static analysis of the working tree: %d translation units parsed by clang "
                            "(type-checked AST + clang::CFG), %d functions linked; every instance of every "
                            "rule of this property was enumerated from the resolved program and decided. "
                            "Rules: %s" % (len(prog.units), len(prog.functions),
                                           " | ".join("%s: %s" % (r, t) for r, t in sorted(ctx.rule_text.items())))),
            "evaluations": len(insts),
            "distinct_nontrivial": distinct,
            "rule": "one evaluation = one rule instance (a call site, function, table cell, field or "
                    "abstract-state cell) found in the resolved program; non-trivial = the rule's antecedent "
                    "is non-vacuous for that construct; distinct by (rule, instance id)",
            "obligations": len(insts),
            "discharged": sum(1 for i in insts if i["ok"]),
            "exhaustive": True,
            "samples": samples,
            "instances_per_rule": counts,
            "abstract_explorations": _absint.STATS["runs"],
            "abstract_paths_explored": _absint.STATS["paths"],
            "functions_interpreted": len(_absint.STATS["functions"]),
            "units_analysed": len(prog.units),
            "functions_analysed": len(prog.functions),
            "preprocessor_configs": configs,
            "witnesses": wres,
            "known_findings": ["%s %s" % (i["rule"], i["inst"]) for i, k in kf],
            "notes": ctx.notes,
            "tree_key": prog.info.get("tree_key"),
        },
        "assumptions": [
            "clang 14 front end (parser, Sema, constant folder, CFG builder, record layout) is correct",
            "the extractor ovx and the ovsa engines implement the stated rules",
            "frozen oracle tables under spec/ transcribe the property statement and the documentation",
            "no undefined behaviour elsewhere invalidates source-level reasoning",
        ],
        "wall_s": round(wall, 3),
        "violations": len(viol),
    }
    os.makedirs(os.path.join(VERIF, "evidence"), exist_ok=True)
    with open(os.path.join(VERIF, "evidence", prop + ".json"), "w") as f:
        json.dump(ev, f, indent=1)

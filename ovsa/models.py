"""Discovery of the emulator models from the registry in src/emu/models.c and
evaluation of their event catalogues (model_evlist) with the grammar of
ev_spec.c (E9)."""
import re

from .facts import AnalysisBroken
from .prog import init_elems, init_field, init_int

TYPE_SIZE = {"u8": 1, "u16": 2, "u32": 4, "u64": 8, "i8": 1, "i16": 2, "i32": 4, "i64": 8, "str": 0}


class Model:
    pass


def discover(prog):
    """Follow models[] -> &model_X -> struct model_spec initialiser."""
    reg = prog.glob("models", "src/emu/models.c")
    elems = init_elems(reg.get("init"))
    out = []
    for idx in sorted(elems):
        e = elems[idx]
        if e.get("k") != "addr":
            continue
        gs = [g for g in prog.globals_by_name.get(e["name"], []) if "init" in g]
        if len(gs) != 1:
            raise AnalysisBroken("model spec %s: %d definitions" % (e["name"], len(gs)))
        g = gs[0]
        init = g["init"]
        m = Model()
        m.spec_name = g["name"]
        m.file = g["file"]
        m.line = g["line"]
        m.dir = g["file"].rsplit("/", 1)[0]
        nm = init_field(init, "name")
        m.name = _resolve_str(prog, nm, g["file"])
        ver = init_field(init, "version")
        m.version = _resolve_str(prog, ver, g["file"])
        m.char = init_int(init_field(init, "model"))
        m.hooks = {}
        for h in ("probe", "create", "connect", "event", "finish"):
            f = init_field(init, h)
            m.hooks[h] = f["name"] if f and f.get("k") == "fn" else None
        ev = init_field(init, "evlist")
        if not ev or ev.get("k") != "addr":
            raise AnalysisBroken("model %s has no evlist" % g["name"])
        evg = prog.glob(ev["name"], g["file"])
        m.evlist_global = evg
        m.events = parse_evlist(evg)
        out.append(m)
    if len(out) < 8:
        raise AnalysisBroken("only %d models found in the registry (8 confirmed by hand)" % len(out))
    return out


def _resolve_str(prog, v, file):
    if v is None:
        return None
    if v.get("k") == "str":
        return v["s"]
    if v.get("k") == "addr":
        g = prog.glob(v["name"], file, required=False)
        if g and g.get("init", {}).get("k") == "str":
            return g["init"]["s"]
    return None


class EvDecl:
    pass


def parse_signature(sig):
    """The grammar of ev_spec.c:parse_signature/parse_args/parse_arg.
    Returns dict(mcv, jumbo, args=[(type, name, offset, size)], payload_size)
    or raises ValueError with the reason ev_spec_compile would fail."""
    if len(sig) < 3:
        raise ValueError("signature too short")
    mcv = sig[:3]
    for ch in mcv:
        if not (33 <= ord(ch) <= 126):
            raise ValueError("invalid MCV")
    rest = sig[3:]
    jumbo = False
    if rest.startswith("+"):
        jumbo = True
        rest = rest[1:]
    args = []
    psize = 0
    if rest == "":
        if jumbo:
            raise ValueError("missing jumbo arguments")
        return dict(mcv=mcv, jumbo=jumbo, args=args, payload_size=0)
    if not rest.startswith("("):
        raise ValueError("expecting parenthesis")
    psize = 4 if jumbo else 0
    body = rest[1:]
    for arg in [a for a in re.split(r"[,)]", body) if a != ""]:
        toks = [t for t in arg.split(" ") if t != ""]
        if len(toks) < 2:
            raise ValueError("cannot parse argument '%s'" % arg)
        ty, name = toks[0], toks[1]
        if ty not in TYPE_SIZE:
            raise ValueError("unknown type '%s'" % ty)
        args.append((ty, name, psize, TYPE_SIZE[ty]))
        psize += TYPE_SIZE[ty]
    if not args:
        raise ValueError("empty arguments")
    return dict(mcv=mcv, jumbo=jumbo, args=args, payload_size=psize)


def parse_evlist(g):
    elems = init_elems(g.get("init"))
    out = []
    for idx in sorted(elems):
        e = elems[idx]
        sig = init_field(e, "signature")
        desc = init_field(e, "description")
        if sig is None or sig.get("k") != "str":
            break       # { NULL, NULL } terminator
        d = EvDecl()
        d.index = idx
        d.sig = sig["s"]
        d.desc = desc["s"] if desc and desc.get("k") == "str" else None
        d.line = e.get("l", g["line"])
        d.macros = e.get("m", [])
        d.mcol = e.get("mcol")
        try:
            d.parsed = parse_signature(d.sig)
            d.error = None
        except ValueError as ex:
            d.parsed = None
            d.error = str(ex)
        d.mcv = d.sig[:3]
        out.append(d)
    return out


def pair_groups(events):
    """Entries produced by one PAIR_x macro expansion: [(macro, first, second)]."""
    out = []
    by = {}
    for d in events:
        pm = [m for m in d.macros if m.startswith("PAIR_")]
        if pm:
            by.setdefault((d.line, d.mcol, pm[0]), []).append(d)
    for (line, col, macro), ds in sorted(by.items(), key=lambda kv: kv[1][0].index):
        if len(ds) == 2:
            out.append((macro, ds[0], ds[1]))
        else:
            raise AnalysisBroken("PAIR macro at line %d expands to %d entries" % (line, len(ds)))
    return out

"""Discovery of the emulator models from the registry in src/emu/models.c and
evaluation of their event catalogues (model_evlist) with the grammar of
ev_spec.c (E9)."""
import re

from .facts import AnalysisBroken
from .prog import init_elems, init_field, init_int

TYPE_SIZE = {"u8": 1, "u16": 2, "u32": 4, "u64": 8, "i8": 1, "i16": 2, "i32": 4, "i64": 8, "str": 0}


class Model:
    pass


def discover(prog):
    """Follow models[] -> &model_X -> struct model_spec initialiser."""
    reg = prog.glob("models", "src/emu/models.c")
    elems = init_elems(reg.get("init"))
    out = []
    for idx in sorted(elems):
        e = elems[idx]
        if e.get("k") != "addr":
            continue
        gs = [g for g in prog.globals_by_name.get(e["name"], []) if "init" in g]
        if len(gs) != 1:
            raise AnalysisBroken("model spec %s: %d definitions" % (e["name"], len(gs)))
        g = gs[0]
        init = g["init"]
        m = Model()
        m.spec_name = g["name"]
        m.file = g["file"]
        m.line = g["line"]
        m.dir = g["file"].rsplit("/", 1)[0]
        nm = init_field(init, "name")
        m.name = _resolve_str(prog, nm, g["file"])
        ver = init_field(init, "version")
        m.version = _resolve_str(prog, ver, g["file"])
        m.char = init_int(init_field(init, "model"))
        m.hooks = {}
        for h in ("probe", "create", "connect", "event", "finish"):
            f = init_field(init, h)
            m.hooks[h] = f["name"] if f and f.get("k") == "fn" else None
        ev = init_field(init, "evlist")
        if not ev or ev.get("k") != "addr":
            raise AnalysisBroken("model %s has no evlist" % g["name"])
        evg = prog.glob(ev["name"], g["file"])
        m.evlist_global = evg
        m.events = parse_evlist(evg)
        out.append(m)
    if len(out) < 8:
        raise AnalysisBroken("only %d models found in the registry (8 confirmed by hand)" % len(out))
    return out


def _resolve_str(prog, v, file):
    if v is None:
        return None
    if v.get("k") == "str":
        return v["s"]
    if v.get("k") == "addr":
        g = prog.glob(v["name"], file, required=False)
        if g and g.get("init", {}).get("k") == "str":
            return g["init"]["s"]
    return None


class EvDecl:
    pass


def parse_signature(sig):
    """The grammar of ev_spec.c:parse_signature/parse_args/parse_arg.
    Returns dict(mcv, jumbo, args=[(type, name, offset, size)], payload_size)
    or raises ValueError with the reason ev_spec_compile would fail."""
    if len(sig) < 3:
        raise ValueError("signature too short")
    mcv = sig[:3]
    for ch in mcv:
        if not (33 <= ord(ch) <= 126):
            raise ValueError("invalid MCV")
    rest = sig[3:]
    jumbo = False
    if rest.startswith("+"):
        jumbo = True
        rest = rest[1:]
    args = []
    psize = 0
    if rest == "":
        if jumbo:
            raise ValueError("missing jumbo arguments")
        return dict(mcv=mcv, jumbo=jumbo, args=args, payload_size=0)
    if not rest.startswith("("):
        raise ValueError("expecting parenthesis")
    psize = 4 if jumbo else 0
    body = rest[1:]
    for arg in [a for a in re.split(r"[,)]", body) if a != ""]:
        toks = [t for t in arg.split(" ") if t != ""]
        if len(toks) < 2:
            raise ValueError("cannot parse argument '%s'" % arg)
        ty, name = toks[0], toks[1]
        if ty not in TYPE_SIZE:
            raise ValueError("unknown type '%s'" % ty)
        args.append((ty, name, psize, TYPE_SIZE[ty]))
        psize += TYPE_SIZE[ty]
    if not args:
        raise ValueError("empty arguments")
    return dict(mcv=mcv, jumbo=jumbo, args=args, payload_size=psize)


def parse_evlist(g):
    elems = init_elems(g.get("init"))
    out = []
    for idx in sorted(elems):
        e = elems[idx]
        sig = init_field(e, "signature")
        desc = init_field(e, "description")
        if sig is None or sig.get("k") != "str":
            break       # { NULL, NULL } terminator
        d = EvDecl()
        d.index = idx
        d.sig = sig["s"]
        d.desc = desc["s"] if desc and desc.get("k") == "str" else None
        d.line = e.get("l", g["line"])
        d.macros = e.get("m", [])
        d.mcol = e.get("mcol")
        try:
            d.parsed = parse_signature(d.sig)
            d.error = None
        except ValueError as ex:
            d.parsed = None
            d.error = str(ex)
        d.mcv = d.sig[:3]
        out.append(d)
    return out


def pair_groups(events):
    """Entries produced by one PAIR_x macro expansion: [(macro, first, second)]."""
    out = []
    by = {}
    for d in events:
        pm = [m for m in d.macros if m.startswith("PAIR_")]
        if pm:
            by.setdefault((d.line, d.mcol, pm[0]), []).append(d)
    for (line, col, macro), ds in sorted(by.items(), key=lambda kv: kv[1][0].index):
        if len(ds) == 2:
            out.append((macro, ds[0], ds[1]))
        else:
            raise AnalysisBroken("PAIR macro at line %d expands to %d entries" % (line, len(ds)))
    return out


# ---- channel / PRV specs reachable from the model_thread_spec / model_cpu_spec ----

def _deref(prog, v, file):
    """Follow an {'k':'addr'} initialiser to the global it names (same file first)."""
    if v is None or v.get("k") != "addr":
        return None
    g = prog.glob(v["name"], file, required=False)
    if g is None:
        g = prog.glob(v["name"], required=False)
    return g


def _int_array(g):
    if g is None:
        return {}
    return {i: init_int(e) for i, e in init_elems(g.get("init")).items()}


def find_spec(prog, m, kind):
    """The model_thread_spec / model_cpu_spec global whose .model is &model_X."""
    rec = "model_%s_spec" % kind
    for g in prog.globals.values():
        init = g.get("init")
        if not init or init.get("k") != "rec" or init.get("rec") != rec:
            continue
        mm = init_field(init, "model")
        if mm and mm.get("k") == "addr" and mm["name"] == m.spec_name:
            return g
    return None


def chan_spec(prog, m, kind="thread"):
    """Resolved channel specification of a model for threads or CPUs.
    Returns None if the model has none."""
    g = find_spec(prog, m, kind)
    if g is None:
        return None
    file = g["file"]
    cs = _deref(prog, init_field(g["init"], "chan"), file)
    if cs is None:
        raise AnalysisBroken("%s: model_%s_spec without chan spec" % (m.name, kind))
    ci = cs["init"]
    out = dict(spec_global=g, chan_global=cs, file=file)
    out["nch"] = init_int(init_field(ci, "nch"))
    names_g = _deref(prog, init_field(ci, "ch_names"), file)
    out["names"] = {i: (e.get("s") if e.get("k") == "str" else None)
                    for i, e in init_elems(names_g.get("init") if names_g else None).items()}
    out["stack"] = _int_array(_deref(prog, init_field(ci, "ch_stack"), file))
    out["dup"] = _int_array(_deref(prog, init_field(ci, "ch_dup"), file))
    tr = _deref(prog, init_field(ci, "track"), file)
    out["track_global"] = tr
    out["track"] = _int_array(tr)
    out["track_explicit"] = set(init_elems(tr.get("init")).keys()) if tr else set()
    pv = _deref(prog, init_field(ci, "pvt"), file)
    out["pvt_global"] = pv
    if pv is not None:
        pi = pv["init"]
        out["type"] = _int_array(_deref(prog, init_field(pi, "type"), file))
        out["flags"] = _int_array(_deref(prog, init_field(pi, "flags"), file))
        pg = _deref(prog, init_field(pi, "prefix"), file)
        out["prefix"] = {i: e.get("s") for i, e in init_elems(pg.get("init") if pg else None).items()}
        lg = _deref(prog, init_field(pi, "label"), file)
        labels = {}
        if lg is not None:
            for i, e in init_elems(lg.get("init")).items():
                tg = _deref(prog, e, file)
                if tg is None:
                    continue
                labels[i] = dict(name=tg["name"], values=label_table(tg))
        out["labels"] = labels
    return out


def label_table(g):
    """pcf_value_label[] -> [(value, label)] up to the {-1, NULL} terminator."""
    out = []
    for i, e in sorted(init_elems(g.get("init")).items()):
        v = init_int(init_field(e, "value"), 0)
        lab = init_field(e, "label")
        if lab is None or lab.get("k") != "str":
            break
        out.append((v, lab["s"]))
    return out


def file_enumerator(prog, name, file_prefix):
    """Value of an enumerator defined in an enum located in a file with the
    given prefix (models reuse names such as CH_MAX in private headers)."""
    for en, e in prog.enums.items():
        if e["file"].startswith(file_prefix):
            for n, v in e["enumerators"]:
                if n == name:
                    return v
    return None


def file_enumerators(prog, file_prefix):
    out = {}
    for en, e in prog.enums.items():
        if e["file"].startswith(file_prefix):
            for n, v in e["enumerators"]:
                out.setdefault(n, v)
    return out

"""E7 (part): does an error returned by a function reach the process exit status?

For a function g whose failure is signalled by a non-zero / negative return,
every call site (direct, or indirect through a registry field that holds g)
on a call chain from the given main must turn that failure into its own
failure: on every explored path through the site where g fails, the caller
dies or returns non-zero.  Checked with the E3 path explorer, call by call,
up to main (which must return non-zero / exit non-zero)."""
import collections

from . import absint
from .absint import INT, NULL, TOP
from .facts import AnalysisBroken


CALLBACK_DRIVERS = {"nftw", "ftw"}


class Registry:
    """Functions stored in struct fields of constant initialisers, and the
    indirect call sites through those fields."""

    def __init__(self, prog):
        self.prog = prog
        self.holders = collections.defaultdict(set)     # (rec, field) -> {fn names}
        self.fields_of = collections.defaultdict(set)   # fn name -> {(rec, field)}
        for g in prog.globals.values():
            if "init" in g:
                self._walk(g["init"])
        self.sites = collections.defaultdict(list)      # (rec, field) -> [(f, node)]
        self.arg_passed = collections.defaultdict(list)  # fn name -> [(f, call node, arg index)]
        for f in prog.functions.values():
            for i, n in enumerate(f.nodes):
                if n["k"] != "CallExpr":
                    continue
                if "callee" not in n:
                    j = f.strip(n["fnexpr"])
                    m = f.nodes[j]
                    if m["k"] == "UnaryOperator" and m.get("op") == "*":
                        m = f.nodes[f.strip(m["c"][0])]
                    if m["k"] == "MemberExpr":
                        self.sites[(m.get("rec"), m["field"])].append((f, i))
                    else:
                        self.sites[("?", f.src(n["fnexpr"]))].append((f, i))
                for ai, a in enumerate(n["args"]):
                    an = f.nodes[f.strip(a)]
                    if an["k"] == "DeclRefExpr" and an.get("dk") == "fn":
                        self.arg_passed[an["name"]].append((f, i, ai))

    def _walk(self, v):
        if not isinstance(v, dict):
            return
        k = v.get("k")
        if k == "rec":
            for fld, x in v["fields"].items():
                if isinstance(x, dict) and x.get("k") == "fn":
                    self.holders[(v["rec"], fld)].add(x["name"])
                    self.fields_of[x["name"]].add((v["rec"], fld))
                else:
                    self._walk(x)
        elif k == "arr":
            for x in v["elems"].values():
                self._walk(x)
            if "filler" in v:
                self._walk(v["filler"])

    def call_sites(self, g):
        """[(caller, node)] of direct calls to g and indirect calls through a
        registry field that may hold g."""
        out = []
        for f in self.prog.functions.values():
            for i in f.all_calls_syntactic(g.name):
                if self.prog.resolve(f, g.name) is g:
                    out.append((f, i))
        for rf in self.fields_of.get(g.name, ()):
            out.extend(self.sites.get(rf, ()))
        # callbacks handed to an external driver whose result is the callback's result
        # (nftw stops and returns the callback's non-zero value)
        for (f, i, ai) in self.arg_passed.get(g.name, ()):
            cal = f.nodes[i].get("callee")
            if cal in CALLBACK_DRIVERS and self.prog.resolve(f, cal) is None:
                out.append((f, i))
        return out


def reachable_from(prog, reg, roots):
    """Functions reachable from roots over direct calls + registry hooks +
    functions passed as arguments (conservative)."""
    extra = collections.defaultdict(set)
    for (rec, fld), sites in reg.sites.items():
        for (f, i) in sites:
            for name in reg.holders.get((rec, fld), ()):
                for d in prog.by_name.get(name, ()):
                    extra[f.key].add(d)
    for name, uses in reg.arg_passed.items():
        for (f, i, ai) in uses:
            for d in prog.by_name.get(name, ()):
                extra[f.key].add(d)
    return {f.key for f in prog.reachable_fns(roots, extra)}


class ErrFlow:
    def __init__(self, prog, main, registry=None, err_int=-1, loop_bound=2):
        self.prog = prog
        self.reg = registry or Registry(prog)
        self.main = main
        self.reach = reachable_from(prog, self.reg, [main])
        self.memo = {}
        self.err_int = err_int
        self.loop_bound = loop_bound
        self.checked_sites = []

    def site_propagates(self, caller, node, pointer=False):
        """Does `caller` fail whenever the call at `node` fails?
        Returns (ok, detail)."""
        errv = NULL if pointer else INT(self.err_int)

        def unk(cal, args, f, e):
            if f is caller and e == node:
                return [errv]
            d = self.prog.decls.get(cal) if cal else None
            return None

        ex = absint.Explorer(self.prog, auto_inline=False, on_unknown_call=unk,
                             loop_bound=self.loop_bound, max_paths=60000)
        outs = ex.run(caller, [TOP] * len(caller.params), {})
        hit = 0
        bad = []
        for o in outs:
            if not any(ev[0] == "call" and ev[3] == caller.key and ev[4] == node for ev in o.events):
                continue
            hit += 1
            if o.kind == "die":
                continue
            if o.kind == "ret" and o.ret is not None:
                if o.ret[0] == "int" and o.ret[1] != 0:
                    continue
                if o.ret[0] == "null" and caller.ret.endswith("*"):
                    continue
            bad.append(o)
        if hit == 0:
            return False, "call site not reached by the explorer"
        if bad:
            o = bad[0]
            return False, "a path through the failing call ends in %s %s" % (
                o.kind, o.ret if o.ret is not None else "(void)")
        return True, "%d paths through the failing call all fail" % hit

    def propagates(self, g, pointer=False, _stack=()):
        """Returns list of (caller, node, detail) where the error of g is dropped
        on a chain from main; empty list = propagates everywhere."""
        if g.key in self.memo:
            return self.memo[g.key]
        if g is self.main:
            return []
        if g.key in _stack:
            return []
        self.memo[g.key] = []
        drops = []
        sites = [(c, n) for (c, n) in self.reg.call_sites(g) if c.key in self.reach]
        if not sites and g.key in self.reach:
            drops.append((g, None, "no call site of %s found on a chain from %s" % (g.name, self.main.name)))
        for (c, n) in sites:
            ok, detail = self.site_propagates(c, n, pointer)
            self.checked_sites.append((g.name, c.name, c.loc(n), ok, detail))
            if not ok:
                drops.append((c, n, "error of %s dropped in %s: %s" % (g.name, c.name, detail)))
                continue
            if c is self.main:
                continue
            drops.extend(self.propagates(c, pointer=c.ret.endswith("*"), _stack=_stack + (g.key,)))
        self.memo[g.key] = drops
        return drops

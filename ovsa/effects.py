"""E6: effect summaries — which record fields / globals a function may write,
directly and transitively (flow-insensitive, field-sensitive by (record, field))."""
import re

LIBC_DEST_WRITERS = {
    # name -> index of the destination argument
    "memset": 0, "memcpy": 0, "memmove": 0, "strcpy": 0, "strncpy": 0, "snprintf": 0,
    "sprintf": 0, "strcat": 0, "strncat": 0, "fread": 0, "read": 1, "getcwd": 0,
    "__builtin_memset": 0, "__builtin_memcpy": 0, "__builtin___memcpy_chk": 0,
    "__builtin___memset_chk": 0, "__builtin___strcpy_chk": 0, "__builtin___snprintf_chk": 0,
}

ASSIGN_OPS = {"=", "+=", "-=", "*=", "/=", "%=", "&=", "|=", "^=", "<<=", ">>="}


def pointee_record(ctype):
    m = re.match(r"(?:const )?(?:struct|union) (\w+) \*", ctype or "")
    return m.group(1) if m else None


def lvalue_target(f, i):
    """Classify the object written when node i is assigned to.
    Returns a set of targets: ('field', rec, field) | ('global', name, tls) |
    ('local', name) | ('deref', pointee type) | ('unknown',)."""
    i = f.strip(i, casts=True)
    n = f.nodes[i]
    k = n["k"]
    if k == "MemberExpr":
        return {("field", n.get("rec", "?"), n["field"])}
    if k == "ArraySubscriptExpr":
        return lvalue_target(f, n["c"][0])
    if k == "DeclRefExpr":
        if n.get("dk") == "global":
            return {("global", n["name"], bool(n.get("tls")))}
        return {("local", n["name"])}
    if k == "UnaryOperator" and n["op"] == "*":
        t = f.nodes[n["c"][0]].get("ct") or f.nodes[n["c"][0]].get("t", "")
        sub = f.strip(n["c"][0], casts=True)
        sn = f.nodes[sub]
        # *(&x) or *(arr + k)
        if sn["k"] == "UnaryOperator" and sn["op"] == "&":
            return lvalue_target(f, sn["c"][0])
        return {("deref", t)}
    if k == "UnaryOperator" and n["op"] == "&":
        return lvalue_target(f, n["c"][0])
    if k == "BinaryOperator" and n["op"] in ("+", "-"):
        return lvalue_target(f, n["c"][0])
    if k == "ConditionalOperator":
        return lvalue_target(f, n["c"][1]) | lvalue_target(f, n["c"][2])
    return {("unknown",)}


def direct_writes(f):
    out = set()
    for i, n in enumerate(f.nodes):
        k = n["k"]
        if k in ("BinaryOperator", "CompoundAssignOperator") and n.get("op") in ASSIGN_OPS:
            out |= {t + (i,) for t in lvalue_target(f, n["c"][0])}
        elif k == "UnaryOperator" and n.get("op") in ("++", "--"):
            out |= {t + (i,) for t in lvalue_target(f, n["c"][0])}
        elif k == "CallExpr" and n.get("callee") in LIBC_DEST_WRITERS:
            di = LIBC_DEST_WRITERS[n["callee"]]
            if di < len(n["args"]):
                a = n["args"][di]
                tg = lvalue_target(f, a)
                # a bare pointer variable as destination writes its pointee
                res = set()
                for t in tg:
                    if t[0] == "local":
                        an = f.nodes[f.strip(a, casts=True)]
                        rec = pointee_record(an.get("ct") or an.get("t"))
                        res.add(("object", rec or "?"))
                    else:
                        res.add(t)
                out |= {t + (i,) for t in res}
        elif k == "AtomicExpr":
            op = n.get("op", "")
            if "store" in op or "exchange" in op or "fetch" in op or op.endswith("init"):
                out |= {t + (i,) for t in lvalue_target(f, n["ptr"])}
    return out


class Effects:
    def __init__(self, prog):
        self.prog = prog
        self._direct = {}
        self._trans = {}

    def direct(self, f):
        if f.key not in self._direct:
            self._direct[f.key] = direct_writes(f)
        return self._direct[f.key]

    def may_write(self, f):
        """Transitive set of targets (without node ids) over direct calls."""
        if f.key in self._trans:
            return self._trans[f.key]
        seen = {}
        st = [f]
        out = set()
        cg = self.prog.callgraph()
        while st:
            g = st.pop()
            if g.key in seen:
                continue
            seen[g.key] = g
            out |= {t[:-1] for t in self.direct(g)}
            st.extend(cg.get(g.key, ()))
        self._trans[f.key] = out
        return out

    def writers_of_field(self, rec, field):
        """[(function, node)] of direct writes to rec.field anywhere."""
        out = []
        for f in self.prog.functions.values():
            for t in self.direct(f):
                if t[0] == "field" and t[1] == rec and t[2] == field:
                    out.append((f, t[-1]))
        return out

    def writers_of_global(self, name):
        out = []
        for f in self.prog.functions.values():
            for t in self.direct(f):
                if t[0] == "global" and t[1] == name:
                    out.append((f, t[-1]))
        return out

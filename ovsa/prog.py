"""S2: the linked program — functions, CFGs, call graph, no-return inference,
dominators, and expression helpers.  stdlib only."""
import collections

from .facts import AnalysisBroken

CASTS = ("ImplicitCastExpr", "CStyleCastExpr")
TRANSPARENT = ("ParenExpr", "ImplicitCastExpr", "ConstantExpr")

LIBC_NORETURN = {"abort", "exit", "_exit", "_Exit", "__assert_fail", "quick_exit"}


class Function:
    def __init__(self, unit, d):
        self.unit = unit
        self.name = d["name"]
        self.file = d["file"]
        self.line = d["line"]
        self.endline = d["endline"]
        self.static = d["static"]
        self.ret = d["ret"]
        self.params = d["params"]
        self.nodes = d["nodes"]
        self.body = d["body"]
        self.declared_noreturn = d.get("noreturn", False)
        cfg = d["cfg"]
        self.entry = cfg["entry"]
        self.exit = cfg["exit"]
        self.blocks = {b["id"]: b for b in cfg["blocks"]}
        self._parent = None
        self._where = None
        self.noreturn = False       # inferred later
        self.cut = {}               # block -> index of first no-return call elem
        self._dom = None
        self._pdom = None
        self.prog = None

    key = property(lambda self: (self.file, self.name))

    def __repr__(self):
        return "<fn %s %s:%d>" % (self.name, self.file, self.line)

    # ---- nodes -----------------------------------------------------
    def n(self, i):
        return self.nodes[i]

    def k(self, i):
        return self.nodes[i]["k"]

    def strip(self, i, casts=True):
        """Skip parentheses and implicit casts (and explicit casts if casts)."""
        while i is not None and i >= 0:
            n = self.nodes[i]
            k = n["k"]
            if k in TRANSPARENT or (casts and k == "CStyleCastExpr"):
                i = n["c"][0]
            else:
                break
        return i

    def parent(self, i):
        if self._parent is None:
            p = {}
            for j, n in enumerate(self.nodes):
                for c in n["c"]:
                    if c >= 0 and c not in p:
                        p[c] = j
            self._parent = p
        return self._parent.get(i)

    def ancestors(self, i):
        p = self.parent(i)
        while p is not None:
            yield p
            p = self.parent(p)

    def descendants(self, i, include_self=True):
        out = []
        st = [i]
        seen = set()
        while st:
            j = st.pop()
            if j < 0 or j in seen:
                continue
            seen.add(j)
            if j != i or include_self:
                out.append(j)
            st.extend(self.nodes[j]["c"])
        return out

    def where(self, i):
        """(block id, index in block) of node i if it is a CFG element."""
        if self._where is None:
            w = {}
            for b in self.blocks.values():
                for idx, e in enumerate(b["elems"]):
                    if e not in w:
                        w[e] = (b["id"], idx)
            self._where = w
        return self._where.get(i)

    def where_up(self, i):
        """CFG position of node i, or of its nearest ancestor that has one."""
        w = self.where(i)
        if w is not None:
            return w
        for a in self.ancestors(i):
            w = self.where(a)
            if w is not None:
                return w
        return None

    def lineof(self, i):
        return self.nodes[i].get("l", 0)

    def loc(self, i=None):
        return "%s:%d" % (self.file, self.lineof(i) if i is not None else self.line)

    def macros(self, i):
        return self.nodes[i].get("m", [])

    def in_macro(self, i, name):
        return name in self.nodes[i].get("m", [])

    def val(self, i):
        """Constant-folded integer value of node i, or None."""
        if i is None or i < 0:
            return None
        n = self.nodes[i]
        if "v" in n:
            return n["v"]
        j = self.strip(i)
        if j != i and "v" in self.nodes[j]:
            return self.nodes[j]["v"]
        return None

    # ---- pretty printer ----------------------------------------------
    def src(self, i, casts=False):
        if i is None or i < 0:
            return ""
        n = self.nodes[i]
        k = n["k"]
        c = n["c"]
        if k in TRANSPARENT:
            return self.src(c[0], casts)
        if k == "CStyleCastExpr":
            if casts:
                return "(%s)%s" % (n["t"], self.src(c[0], casts))
            return self.src(c[0], casts)
        if k == "DeclRefExpr":
            return n["name"]
        if k == "MemberExpr":
            return "%s%s%s" % (self.src(c[0], casts), "->" if n["arrow"] else ".", n["field"])
        if k == "IntegerLiteral":
            return str(n.get("v"))
        if k == "CharacterLiteral":
            v = n.get("v", 0)
            return "'%s'" % chr(v) if 32 <= v < 127 else str(v)
        if k == "StringLiteral":
            return '"%s"' % n["s"].replace("\n", "\\n")
        if k == "UnaryOperator":
            if n.get("postfix"):
                return "%s%s" % (self.src(c[0], casts), n["op"])
            return "%s%s" % (n["op"], self.src(c[0], casts))
        if k in ("BinaryOperator", "CompoundAssignOperator"):
            return "(%s %s %s)" % (self.src(c[0], casts), n["op"], self.src(c[1], casts))
        if k == "CallExpr":
            return "%s(%s)" % (n.get("callee") or self.src(n["fnexpr"], casts),
                               ", ".join(self.src(a, casts) for a in n["args"]))
        if k == "ArraySubscriptExpr":
            return "%s[%s]" % (self.src(c[0], casts), self.src(c[1], casts))
        if k == "ConditionalOperator":
            return "(%s ? %s : %s)" % tuple(self.src(x, casts) for x in c[:3])
        if k == "UnaryExprOrTypeTraitExpr":
            if "v" in n:
                return str(n["v"])
            return "sizeof(...)"
        if k == "AtomicExpr":
            return "%s(%s)" % (n["op"], ", ".join(self.src(x, casts) for x in c))
        if k == "PredefinedExpr":
            return "__func__"
        if k == "ReturnStmt":
            return "return %s" % self.src(n["val"], casts)
        if k == "DeclStmt":
            return "; ".join("%s %s%s" % (d["type"], d["name"],
                                          (" = " + self.src(d["init"], casts)) if "init" in d else "")
                             for d in n["decls"])
        if k == "InitListExpr":
            return "{%s}" % ", ".join(self.src(x, casts) for x in c)
        if k == "CompoundLiteralExpr":
            return self.src(c[0], casts)
        return "<%s>" % k

    # ---- CFG ---------------------------------------------------------
    def succs(self, b, cut=True):
        if cut and b in self.cut:
            return []
        return [s for s in self.blocks[b]["succs"] if s is not None]

    def preds_map(self, cut=True):
        p = collections.defaultdict(list)
        for b in self.blocks:
            for s in self.succs(b, cut):
                p[s].append(b)
        return p

    def reachable_blocks(self, start=None, cut=True, avoid=()):
        start = self.entry if start is None else start
        seen = set()
        st = [start]
        while st:
            b = st.pop()
            if b in seen or b in avoid:
                continue
            seen.add(b)
            st.extend(self.succs(b, cut))
        return seen

    def elems(self, b, cut=True):
        es = self.blocks[b]["elems"]
        if cut and b in self.cut:
            return es[: self.cut[b] + 1]
        return es

    def all_elems(self, cut=True):
        """(block, idx, node id) over reachable blocks."""
        for b in sorted(self.reachable_blocks(cut=cut), reverse=True):
            for idx, e in enumerate(self.elems(b, cut)):
                yield b, idx, e

    def calls(self, name=None, cut=True):
        """Call nodes reachable from entry (CFG elements), optionally by callee."""
        out = []
        for b, idx, e in self.all_elems(cut):
            n = self.nodes[e]
            if n["k"] == "CallExpr" and (name is None or n.get("callee") == name):
                out.append(e)
        return out

    def all_calls_syntactic(self, name=None):
        return [i for i, n in enumerate(self.nodes)
                if n["k"] == "CallExpr" and (name is None or n.get("callee") == name)]

    def dominators(self):
        """Block dominator sets over the cut CFG (reachable blocks only)."""
        if self._dom is None:
            self._dom = _dominators(self.entry, lambda b: self.succs(b), self.reachable_blocks())
        return self._dom

    def postdominators(self):
        """Post-dominators w.r.t. normal exit (paths ending in no-return calls
        are cut: they post-dominate nothing and are not required to pass)."""
        if self._pdom is None:
            reach = self.reachable_blocks()
            preds = self.preds_map()
            # only blocks from which exit is reachable
            back = set()
            st = [self.exit]
            while st:
                b = st.pop()
                if b in back:
                    continue
                back.add(b)
                st.extend(p for p in preds.get(b, []) if p in reach)
            self._pdom = _dominators(self.exit, lambda b: [p for p in preds.get(b, []) if p in back], back)
        return self._pdom

    def dominates(self, a, b):
        """Does CFG element a dominate CFG element b (positions or node ids)?"""
        pa = a if isinstance(a, tuple) else self.where_up(a)
        pb = b if isinstance(b, tuple) else self.where_up(b)
        if pa is None or pb is None:
            return False
        if pa[0] == pb[0]:
            return pa[1] <= pb[1]
        return pa[0] in self.dominators().get(pb[0], ())

    def postdominates(self, a, b):
        """Does element a lie on every path from element b to normal exit?"""
        pa = a if isinstance(a, tuple) else self.where_up(a)
        pb = b if isinstance(b, tuple) else self.where_up(b)
        if pa is None or pb is None:
            return False
        if pa[0] == pb[0]:
            return pa[1] >= pb[1]
        pd = self.postdominators()
        if pb[0] not in pd:
            return True     # no path from b to exit at all
        return pa[0] in pd[pb[0]]

    def can_reach(self, a, b, avoid_blocks=()):
        """Is there a CFG path from element a to element b (a strictly before b)?"""
        pa = a if isinstance(a, tuple) else self.where_up(a)
        pb = b if isinstance(b, tuple) else self.where_up(b)
        if pa is None or pb is None:
            return False
        if pa[0] == pb[0] and pa[1] < pb[1]:
            return True
        seen = set()
        st = list(self.succs(pa[0]))
        while st:
            x = st.pop()
            if x in seen or x in avoid_blocks:
                continue
            seen.add(x)
            if x == pb[0]:
                return True
            st.extend(self.succs(x))
        return False

    def _polarity(self, cond, field):
        """+1 if cond is true exactly when <x>-><field> is non-zero, -1 if exactly when it is zero, None if
        the expression is not such a simple test."""
        n = self.nodes[cond]
        k = n["k"]
        if k in ("ParenExpr", "ImplicitCastExpr", "CStyleCastExpr", "ConstantExpr"):
            return self._polarity(n["c"][0], field)
        if k == "MemberExpr":
            return 1 if n["field"] == field else None
        if k == "UnaryOperator" and n.get("op") == "!":
            p = self._polarity(n["c"][0], field)
            return -p if p else None
        if k == "BinaryOperator" and n.get("op") in ("==", "!="):
            a, b = n["c"]
            for x, y in ((a, b), (b, a)):
                v = self.val(y)
                p = self._polarity(x, field)
                if p and v == 0:
                    return p if n["op"] == "!=" else -p
        return None

    def guard_truth(self, node, field):
        """Under which truth value of <x>-><field> is `node` executed?  True / False when a two-way branch
        whose condition is a plain test of that field has exactly one successor dominating the node;
        'both' if no such branch controls it; None if a controlling test is too complex to classify."""
        pos = self.where_up(node)
        if pos is None:
            return None
        dom = self.dominators().get(pos[0], set()) | {pos[0]}
        res = "both"
        for b, blk in self.blocks.items():
            t = blk.get("term")
            if t is None or self.nodes[t]["k"] not in ("IfStmt", "ConditionalOperator") or len(blk["succs"]) != 2:
                continue
            cond = self.nodes[t].get("cond", self.nodes[t]["c"][0] if self.nodes[t]["c"] else -1)
            if cond < 0 or not any(self.nodes[j]["k"] == "MemberExpr" and self.nodes[j]["field"] == field
                                   for j in self.descendants(cond, include_self=True)):
                continue
            st, sf = blk["succs"]
            in_t = st is not None and st in dom
            in_f = sf is not None and sf in dom
            if in_t == in_f:
                continue
            pol = self._polarity(cond, field)
            if pol is None:
                return None
            val = (pol > 0) if in_t else (pol < 0)
            if res != "both" and res != val:
                return None
            res = val
        return res

    def returns(self):
        """ReturnStmt node ids that are reachable."""
        out = []
        for b, idx, e in self.all_elems():
            if self.nodes[e]["k"] == "ReturnStmt":
                out.append(e)
        return out

    def edge_label(self, b, s_index):
        """Label of the s_index-th successor edge of block b: True/False for
        two-way branches, ('case', lo, hi)/'default' for switches, None."""
        blk = self.blocks[b]
        t = blk.get("term")
        if t is None:
            return None
        tk = self.nodes[t]["k"]
        if tk == "SwitchStmt":
            tgt = blk["succs"][s_index]
            if tgt is None:
                return None
            lab = self.blocks[tgt].get("label")
            if lab and lab["kind"] == "case":
                return ("case", lab.get("lo"), lab.get("hi", lab.get("lo")))
            if lab and lab["kind"] == "default":
                return "default"
            return "default"    # implicit default edge (to after the switch)
        if len(blk["succs"]) == 2:
            return s_index == 0
        return None


def _dominators(entry, succ, nodes):
    nodes = set(nodes)
    if entry not in nodes:
        return {}
    order = []
    seen = set()

    def dfs(b):
        st = [(b, iter(succ(b)))]
        seen.add(b)
        while st:
            x, it = st[-1]
            adv = False
            for s in it:
                if s in nodes and s not in seen:
                    seen.add(s)
                    st.append((s, iter(succ(s))))
                    adv = True
                    break
            if not adv:
                order.append(x)
                st.pop()
    dfs(entry)
    rpo = list(reversed(order))
    preds = collections.defaultdict(list)
    for b in rpo:
        for s in succ(b):
            if s in seen:
                preds[s].append(b)
    dom = {b: None for b in rpo}
    dom[entry] = {entry}
    changed = True
    while changed:
        changed = False
        for b in rpo:
            if b == entry:
                continue
            ps = [dom[p] for p in preds[b] if dom.get(p) is not None]
            if not ps:
                continue
            new = set.intersection(*ps) | {b}
            if new != dom[b]:
                dom[b] = new
                changed = True
    return {b: (d or {b}) for b, d in dom.items()}


class Program:
    def __init__(self, facts, info=None):
        self.info = info or {}
        self.units = sorted(facts)
        self.functions = {}                 # (file, name) -> Function
        self.by_name = collections.defaultdict(list)
        self.unit_defs = collections.defaultdict(dict)   # unit -> name -> Function
        self.globals = {}                   # (file, name) -> dict (definitions preferred)
        self.globals_by_name = collections.defaultdict(list)
        self.records = {}
        self.enums = {}
        self.enumerators = {}
        self.decls = collections.defaultdict(list)
        self.macros = {}
        for u in self.units:
            d = facts[u]
            for name, r in d["records"].items():
                self.records.setdefault(name, r)
            for name, e in d["enums"].items():
                self.enums.setdefault(name, e)
                for en, ev in e["enumerators"]:
                    self.enumerators.setdefault(en, ev)
            for name, m in d.get("macros", {}).items():
                self.macros.setdefault(name, m)
            for g in d["globals"]:
                key = (g["file"], g["name"])
                old = self.globals.get(key)
                if old is None or (g.get("def") and "init" in g and "init" not in old):
                    self.globals[key] = g
                g["unit"] = u
            for dd in d["decls"]:
                self.decls[dd["name"]].append(dd)
            for fd in d["functions"]:
                key = (fd["file"], fd["name"])
                f = self.functions.get(key)
                if f is None:
                    f = Function(u, fd)
                    f.prog = self
                    self.functions[key] = f
                    self.by_name[f.name].append(f)
                self.unit_defs[u][f.name] = f
        for key, g in self.globals.items():
            self.globals_by_name[g["name"]].append(g)
        self._infer_noreturn()
        self._callgraph = None

    # ---- lookup ------------------------------------------------------
    def fn(self, name, file=None, required=True):
        c = self.by_name.get(name, [])
        if file is not None:
            c = [f for f in c if f.file == file]
        if len(c) == 1:
            return c[0]
        if not c:
            if required:
                raise AnalysisBroken("anchor function %s%s not found" %
                                     (name, (" in " + file) if file else ""))
            return None
        if required:
            raise AnalysisBroken("anchor function %s is ambiguous: %s" %
                                 (name, [f.file for f in c]))
        return None

    def fns_in(self, file):
        return sorted((f for f in self.functions.values() if f.file == file),
                      key=lambda f: f.line)

    def resolve(self, caller, name):
        """Definition called by `name` from inside `caller` (None if external)."""
        f = self.unit_defs.get(caller.unit, {}).get(name)
        if f is not None:
            return f
        for g in self.by_name.get(name, []):
            if not g.static:
                return g
        # header-defined static functions may be recorded under another unit
        for g in self.by_name.get(name, []):
            if g.file.endswith(".h"):
                return g
        return None

    def glob(self, name, file=None, required=True):
        c = self.globals_by_name.get(name, [])
        if file is not None:
            c = [g for g in c if g["file"] == file]
        c2 = [g for g in c if "init" in g] or c
        if len(c2) >= 1 and (file is not None or len({g["file"] for g in c2}) == 1):
            return c2[0]
        if required:
            raise AnalysisBroken("anchor global %s%s not found or ambiguous (%d)" %
                                 (name, (" in " + file) if file else "", len(c2)))
        return None

    def enum_val(self, name):
        if name not in self.enumerators:
            raise AnalysisBroken("enumerator %s not found" % name)
        return self.enumerators[name]

    def is_use_ret(self, name):
        return any(d.get("use_ret") for d in self.decls.get(name, []))

    # ---- no-return inference -----------------------------------------
    def _infer_noreturn(self):
        nr = set(LIBC_NORETURN)
        for name, ds in self.decls.items():
            if any(d.get("noreturn") for d in ds):
                nr.add(name)
        fns = list(self.functions.values())
        changed = True
        rounds = 0
        while changed:
            changed = False
            rounds += 1
            for f in fns:
                if f.noreturn:
                    continue
                cut = {}
                for b in f.blocks.values():
                    for idx, e in enumerate(b["elems"]):
                        n = f.nodes[e]
                        if n["k"] == "CallExpr" and "callee" in n:
                            cal = n["callee"]
                            if cal in nr and self._nr_applies(f, cal):
                                cut[b["id"]] = idx
                                break
                if cut != f.cut:
                    f.cut = cut
                    f._dom = f._pdom = None
                    changed = True
                if f.exit not in f.reachable_blocks() and not f.noreturn:
                    f.noreturn = True
                    # static names may collide; mark by name only if every
                    # definition of that name is no-return
                    if all(g.noreturn for g in self.by_name[f.name]):
                        nr.add(f.name)
                    changed = True
        self.noreturn_names = nr

    def _nr_applies(self, caller, name):
        d = self.resolve(caller, name)
        if d is None:
            return True
        return d.noreturn or d.declared_noreturn

    # ---- call graph --------------------------------------------------
    def callgraph(self):
        """caller key -> set of callee Function (direct calls + function
        addresses taken inside the caller are *not* included; see indirect())."""
        if self._callgraph is None:
            cg = {}
            for f in self.functions.values():
                s = set()
                for i, n in enumerate(f.nodes):
                    if n["k"] == "CallExpr" and "callee" in n:
                        d = self.resolve(f, n["callee"])
                        if d is not None:
                            s.add(d)
                cg[f.key] = s
            self._callgraph = cg
        return self._callgraph

    def helper_closure(self, names, file):
        """names plus the static helpers of `file` that are private to them: a static function whose address is
        never taken and all of whose call sites lie in functions already in the set.  Extracting part of an
        allowed function into such a helper does not widen who may do what.  Returns a set of names."""
        allowed = set(names)
        cg = self.callgraph()
        callers = {}
        for f in self.functions.values():
            for d in cg.get(f.key, ()):
                callers.setdefault(d.key, set()).add(f)
        taken = set()
        for f in self.functions.values():
            for n in f.nodes:
                if n["k"] == "DeclRefExpr" and n.get("dk") == "fn":
                    taken.add(n["name"])
        # functions whose name appears as a DeclRefExpr other than as the callee of a call
        called_only = set()
        for f in self.functions.values():
            for i, n in enumerate(f.nodes):
                if n["k"] == "CallExpr" and "callee" in n:
                    called_only.add(n["callee"])
        changed = True
        while changed:
            changed = False
            for g in self.fns_in(file):
                if g.name in allowed or not g.static:
                    continue
                cs = callers.get(g.key, set())
                if not cs or not all(c.name in allowed and c.file == file for c in cs):
                    continue
                if self._address_taken(g):
                    continue
                allowed.add(g.name)
                changed = True
        return allowed

    def _address_taken(self, g):
        """Is g referenced other than as the direct callee of a call?"""
        for f in self.functions.values():
            if f.file != g.file and g.static:
                continue
            for i, n in enumerate(f.nodes):
                if n["k"] == "DeclRefExpr" and n.get("dk") == "fn" and n.get("name") == g.name:
                    # walk up through casts to the parent: callee position of a CallExpr?
                    j = i
                    par = f.parent(j)
                    while par is not None and f.nodes[par]["k"] in ("ImplicitCastExpr", "ParenExpr"):
                        j, par = par, f.parent(par)
                    if par is None or f.nodes[par]["k"] != "CallExpr" or f.nodes[par].get("fnexpr", f.nodes[par]["c"][0] if f.nodes[par]["c"] else -1) != j:
                        if not (par is not None and f.nodes[par]["k"] == "CallExpr" and f.nodes[par].get("callee") == g.name
                                and j not in f.nodes[par].get("args", [])):
                            return True
        return False

    def reachable_fns(self, roots, extra_edges=None):
        cg = self.callgraph()
        seen = {}
        st = list(roots)
        while st:
            f = st.pop()
            if f.key in seen:
                continue
            seen[f.key] = f
            st.extend(cg.get(f.key, ()))
            if extra_edges:
                st.extend(extra_edges.get(f.key, ()))
        return list(seen.values())

    def external_calls(self, fns):
        """Names of callees with no definition in the program, per call site."""
        out = []
        for f in fns:
            for i, n in enumerate(f.nodes):
                if n["k"] == "CallExpr":
                    cal = n.get("callee")
                    if cal is None or self.resolve(f, cal) is None:
                        out.append((f, i, cal))
        return out

    def fn_addr_taken(self, f):
        """Functions whose address is taken inside f other than as direct callee."""
        out = set()
        callee_refs = set()
        for n in f.nodes:
            if n["k"] == "CallExpr":
                callee_refs.add(f.strip(n["fnexpr"]))
        for i, n in enumerate(f.nodes):
            if n["k"] == "DeclRefExpr" and n.get("dk") == "fn" and i not in callee_refs:
                d = self.resolve(f, n["name"])
                if d is not None:
                    out.add(d)
        return out


# ---- constant initialiser helpers ---------------------------------------

def init_int(v, default=None):
    if v is None:
        return default
    if v.get("k") == "int":
        return v["v"]
    if v.get("k") == "null":
        return 0
    return default


def init_field(v, name):
    if v is None or v.get("k") != "rec":
        return None
    return v["fields"].get(name)


def init_elems(v):
    """Sparse array initialiser -> {index: value}."""
    if v is None or v.get("k") != "arr":
        return {}
    return {int(i): e for i, e in v["elems"].items()}

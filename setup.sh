#!/bin/sh
# Builds the fact extractor from /verif/ovx/ovx.cc against the installed LLVM 14.
set -e
cd "$(dirname "$0")"
if [ ! -x ovx/ovx ] || [ ovx/ovx.cc -nt ovx/ovx ]; then
	clang++ $(llvm-config-14 --cxxflags) -fno-rtti -O1 ovx/ovx.cc -o ovx/ovx \
		/usr/lib/llvm-14/lib/libclang-cpp.so.14 /usr/lib/llvm-14/lib/libLLVM-14.so
fi
mkdir -p .cache evidence replays
echo "setup ok"

#!/usr/bin/env python3
"""Regenerates MANIFEST.json from the table below (single source of truth)."""
import json, os
HERE = os.path.dirname(os.path.abspath(__file__))
props = [json.loads(l) for l in open(os.path.join(HERE, "properties.jsonl"))]

NOTE = ("Trusted base: clang 14 front end (parser, Sema, constant folder, CFG builder, record layout), the ovx "
        "extractor, the ovsa engines and the frozen oracle tables in spec/. Source-level reasoning assumes no "
        "undefined behaviour elsewhere. The check decides the named structural clauses (DESIGN.md §4), which "
        "are necessary conditions of the property, not the whole behaviour.")

CLAIMS = {
 "C01": dict(
   technique="relational interval abstract interpretation (linear forms over symbols with ranges + path constraints) of libovni's event-buffer functions on the clang CFGs, with inlining of the flush/marker recursion; who-may-write effect analysis; literal agreement of library-made MCVs",
   text="Establishes the step lemmas of the stream-fidelity induction for every value of evlen, payload size and jumbo size: in ovni_ev_add, ovni_ev_add_jumbo, ovni_flush and write_stream_header every copy into the 2 MiB buffer starts at the first free byte, copies tile without gap/overlap, offset+length <= capacity, evlen ends equal to the bytes buffered and stays below capacity; ovni_payload_add stays inside the 16-byte payload; every flush hands (buffer start, evlen) to write_evbuf, whose loop advances buffer and remaining size by write()'s return, ends only when all is written and dies on error; the user's event is appended exactly once, after an auto-flush and before the OF[ OF] markers; the only events the library makes itself are OF[ OF] and OM[ OM] OM=; the 8-byte header is written first. Not decided: that ovni_payload_add/ovni_payload_size are inverse on the size nibble (arithmetic on run-time values) and what the kernel does with write().",
   design_ref="§4 C01"),
 "C02": dict(
   technique="relational interval abstract interpretation of the automatic-flush recursion (re-entrancy infeasibility for all sizes), ordered-clock symbols for marker events, writer/reader JSON key and type agreement with path-sensitive 'always written' and 'reader fails without it' analyses",
   text="Decides necessary conditions for protocol-conformant programs to give accepted traces: for every evlen, payload size and jumbo size the flush inside ovni_ev_add/ovni_ev_add_jumbo happens at most once and never while its own OF[ OF] markers are appended (proved by infeasibility of the nested flush condition under the path constraints); markers are appended paired and with clocks in sampling order; every metadata key whose absence makes an emulator reader function fail is written by libovni on every path of thread init/free (or together with the key it accompanies) with a compatible JSON type; the emulator walks streams with the runtime's own ovni_ev_size. Not decided: that the emulator accepts every conformant program (behavioural over programs).",
   design_ref="§4 C02"),
 "C03": dict(
   technique="dominance / call-order analysis of the stream sort, order-abstraction of the heap comparator, abstract evaluation of the player's step/insert/pop protocol and of the clock chain (linear forms), bounded abstract evaluation of the intrusive heap on all heaps of up to 4 nodes",
   text="Decides: streams are sorted by relative path after the directory walk on every successful path; stream_cmp inverts the order of last clocks; step_stream inserts exactly the streams that loaded an event, player_init steps every stream, player_step re-steps the previous stream before popping; lastclock = event clock + clock offset for every value, deltaclock = lastclock - firstclock, and that delta reaches prv->time through emu_ev / recorder_advance before the model sees the event; clock offsets go to the loom with the matching hostname. heap.h is evaluated through stream_cmp on all 120 insertion sequences of 1-4 streams with clocks in {1,2,3} and on 5 pop/step/re-insert scenarios: pops are non-decreasing, each stream exactly once, per-stream order kept. NOT decided: the heap's shape and order invariants for unbounded sizes ('every event exactly once' for arbitrary stream sets) - no shape analysis is in reach.",
   design_ref="§4 C03"),
 "C04": dict(
   technique="typestate extraction: abstract path exploration of the thread handlers over the finite (thread_state x event) domain, compared with the documented FSM; error-propagation analysis to main",
   text="Exhaustive over the abstract domain: pre_thread() is explored (thread.c inlined, infrastructure calls non-deterministic) for all 256 value bytes x 6 thread states; accept/reject and the post-state of every accepting path are compared with the documented state machine; thread_set_state's published view (is_running, is_active, state and TID channels) is evaluated for all 6 states; model_ovni_finish is evaluated on all 1- and 2-thread state combinations and its failure is followed call site by call site to main's exit status. Not decided: that the timeline shows the state at every instant (depends on patch-bay propagation, see C06).",
   design_ref="§4 C04"),
 "C05": dict(
   technique="abstract evaluation of cpu_update on every thread list of length 0..3 in every state (physical and virtual CPU); event-trace pairing analysis (state/CPU change followed by a recount of each affected CPU) over the accepting paths of the life-cycle and affinity handlers",
   text="cpu_update's CFG is evaluated on all 518 configurations (0-3 threads x 6 states x physical/virtual): it must reject exactly when a physical CPU has more than one running thread and otherwise feed NRUN/TID/PID/THRUN/THACT from the unique running / active thread or null; cpu_add/remove/migrate_thread must change the list and then recount; on every accepting path of the six life-cycle handlers and both affinity handlers every CPU whose occupants changed is recounted after the change. Not decided: lists longer than three and arbitrary interleavings over many CPUs (list manipulation is data-dependent).",
   design_ref="§4 C05"),
 "C06": dict(
   technique="constant-table totality check of tracking modes; abstract evaluation of mode->selector wiring, selector state sets, CPU mux wiring (argument flow), cb_select/cb_input protocol and bay_propagate phase order over their finite case spaces",
   text="Decides the structural clauses view consistency rests on: all 8 models' thread/CPU tracking tables are total and CPU entries are TRACK_TH_RUN; track_th_input_chan wires ANY/RUN/ACT to direct / thread_select_running / thread_select_active, whose accepted state sets are evaluated for all states and must equal the sets of C04/C05; connect_cpu (and the mark twin) must select on the CPU's running-thread channel with nthreads inputs and connect input gindex to that thread's channel i; default_select is bounds-checked; cb_select is evaluated on (old selection x new selection) and must disable-then-enable and output the new input's value or the default; bay_propagate must run dirty, emit, flush in order and clear the dirty list. NOT decided (the core of C06): that the value shown is right at every instant under all interleavings - that is an outcome of the dynamic dirty-list propagation order.",
   design_ref="§4 C06"),
 "C07": dict(
   technique="typestate extraction: abstract path exploration of body.c over all consistent (state, flags, stack, stack-top) combinations vs. the documented body FSM; who-may-write effect analysis; argument-flow evaluation of flag plumbing, event mapping and channel sets in both task models",
   text="body_execute/pause/resume/end are explored (utlist macros included) on every consistent abstract state - 4 body states x PAUSE/RESURRECT flags x {no stack, this stack, another stack} x {empty, self alone, self over another, other running relaxed/strict, other paused} - and accept/reject plus the post-state (state, stack binding, new top, iteration) must equal the documented machine; struct body is written only by body.c's five life-cycle functions; create_body's flag mapping is evaluated on all 16 task-flag sets; nOS-V/Nanos6 creation flags, the nOS-V body-id rule, the x/e/p/r -> task_* -> body_* mapping and the running/stopped/switch channel sets and their source fields are evaluated from the code. Not decided: hash-table lookups (task_find/body_find) and list shapes deeper than two bodies.",
   design_ref="§4 C07"),
 "C08": dict(
   technique="abstract evaluation of chan_push/chan_pop on abstract stacks; enter/leave pairing and injectivity of the constant dispatch tables vs. the catalogue's PAIR macros; typestate evaluation of per-model thread-state guards and end-of-trace lint",
   text="chan_pop/chan_push are explored on abstract stacks (empty, 1, 2, capacity-1, capacity, top equal/different, duplicate flags) and must implement match-the-top / refuse-full-stack exactly; for all 8 models every PAIR_x (and frozen hand-written) enter/leave pair must push and pop the same value on the same channel, and every (channel,value) must have exactly one enter and one leave event (dispatch tables evaluated exactly); every declared event is evaluated under the 6 consistent (running,active,out-of-CPU) thread states against the model's frozen precondition; each model's finish hook is evaluated in linter mode with open regions and its failure followed to main. Not decided: that a value 'means what its name documents' when both sides are swapped consistently.",
   design_ref="§4 C08"),
 "C09": dict(
   technique="ordering-of-effects analysis on abstract event traces: marker writer uniqueness, call order in ovni_thread_free with call-graph reachability of write_evbuf, abstract evaluation of the relocation loop over directory enumeration orders x copy failures with constant-folded string routines; reader guard and error propagation to main",
   text="Decides the order in which the runtime issues its effects (the part of crash consistency the runtime controls): 'ovni.finished' has one writer (ovni_thread_free) unreachable from thread initialisation; on every path the metadata is stored after the marker is set and nothing that can reach write_evbuf follows; move_thdir_to_final is evaluated on 4 directory enumeration orders x every single failing copy and must move stream.json (the marker) after all other stream files and not at all if one failed; thread_load_metadata accepts only finished == 1 and its failure reaches ovniemu's exit status. Not decided: what the kernel / file system does between two system calls (page-cache durability).",
   design_ref="§4 C09"),
 "C10": dict(
   technique="error-discipline dataflow: per I/O call site, abstract path exploration with the failure injected (derived failure values for internal wrappers), propagation call site by call site to a die or a documented warn-only sink; ordering analysis of destructive calls after a failed copy",
   text="Every call site of open/write/close/fopen/fread/fwrite/fclose/remove/rmdir/mkdir/stat/opendir/closedir and of the internal wrappers (mkpath, mkdir_if_need, json_serialize_to_file_pretty, move_thread_to_final) in libovni and common.c is enumerated from the resolved program; with the failure injected every path must die or return an error that each caller turns into its own failure, up to a die or the documented warn-only relocation sink (three frozen best-effort exceptions); remove() of a stream's temporary file must be unreachable after a failed fread/fwrite/fclose of its copy; write_evbuf must die on a failing write. parson's file serialiser is checked the same way. Not decided: that the run 'still leaves a complete, valid trace' as a whole-run outcome.",
   design_ref="§4 C10"),
 "C11": dict(
   technique="whole-program effect analysis (who-may-write shared static objects over the call graph from the exported API), typestate evaluation of the C11 compare-and-swap protocol over the finite domain of rproc.st, dominance-based guarded-read analysis, escape and non-reentrant-libc scans",
   text="Over every function reachable from the 35+ exported symbols (ovni.c, common.c, compat.c, parson.c; hooks and function arguments resolved conservatively) the only written non-thread-local static object is rproc; rthread is _Thread_local and rproc.st _Atomic; ovni_proc_init / ovni_proc_fini are evaluated from all four values of rproc.st with the atomics executed on the abstract store: they proceed exactly from UNINIT resp. READY, die before any effect otherwise, and all process fields are written between the winning CAS and the store of READY; every other read of a process field is dominated by a READY / thread-ready test that dies, or lies in a static function all of whose call sites are (one frozen exception: the clock source in ovni_clock_now); no address of thread-local state escapes, no threads are created, no non-reentrant libc routine is reachable (strerror in diagnostics excepted). Not decided: interference through the file system between threads using the same TID, and memory-model subtleties below the C11 atomics.",
   design_ref="§4 C11"),
 "C12": dict(
   technique="guards-that-must-dominate-uses, decided by abstract evaluation: header/version predicates over boundary values, relational interval analysis of the per-stream clock test, definite-assignment analysis of the decoded event over all payload shapes, dispatch evaluation with one-byte-short payloads, error propagation to the exit status",
   text="check_stream_header is evaluated on 30 (size, magic, version) cases and must accept exactly the valid header; an empty file and a bad header keep the stream inactive; for every clock value stream_step accepts an event of a sorted stream only if its corrected clock does not decrease, the unsorted flag has a single writer the emulator never reaches (player_init(...,0)), and the cross-stream check rejects backward jumps; unparsable metadata, any metadata version but the supported one and the absence of each of 7 mandatory attributes make the reader fail, each failure followed call site by call site (including the nftw callback) to ovniemu's exit status; emu_ev() must assign every field of the decoded event on every payload shape; an event one byte shorter than declared never reaches the code reading the missing bytes. Unknown codes and events of models not enabled are decided by C18/C14. Not decided: 'every single corruption' as an input enumeration.",
   design_ref="§4 C12"),
 "C13": dict(
   technique="abstract exploration (merging worklist over clang CFGs) of system_connect and every model's create/connect/finish hooks to compute registered vs. declared PRV types per output; constant-table label coverage; abstract evaluation of prv_advance/prv_close/prf_add/prf_close",
   text="Per output (thread, cpu, both breakdown traces) the set of PRV types that can reach prv_register is computed from the code and constant tables and must be contained in the set reaching pcf_add_type on the same output; every constant value a model can write to a labelled channel (dispatch tables, task-body pushes, connect defaults, mux defaults, thread states, CPU affinity) must have a label; prv_advance / prv_close / write_line / prf_add / prf_close are evaluated on boundary cases (time going back, header rewrite, row bounds, duplicate and unset rows) and prv->time has a single writer. Not decided: that row numbers passed to prv_register are below the declared row count (a data fact of gindex numbering) and the zero/duplicate emission policy at run time.",
   design_ref="§4 C13"),
 "C14": dict(
   technique="exhaustive abstract evaluation of the version predicates over {0,1,2}^6 and of the enable/event gating functions over their finite outcome domains (clang CFG path exploration)",
   text="version_is_compatible and the open-coded test in ovni_version_check_str are evaluated from their CFGs on all 729 (want,have) triples over {0,1,2} (every ordering of major/minor/patch) and must equal the semver relation; should_enable, model_version_probe (0-2 threads x {-1,0,1}), model_probe ({-1,0,1} x enable_all) and model_event (registered x enabled x hook result) are evaluated over their complete finite outcome domains; each model's probe must use its own spec; every version_parse result must be tested. Not decided: version_parse's handling of malformed strings (strtol semantics).",
   design_ref="§4 C14"),
 "C15": dict(
   technique="phase typestate over the call graph (pointer fields allocated in a later initialisation phase must not be dereferenced from an earlier one), call-order analysis of system_init, abstract evaluation of comparators / sort selection / list construction / index numbering, exhaustive small-domain evaluation of the merge predicates, error propagation",
   text="Decides the named clauses: no pointer field of loom/proc/thread/cpu allocated in init_end_system is dereferenced by code reachable from create_system (the crash of the metadata loader); system_init runs its six phases in order; by_pid/by_rank/by_tid/by_phyid/cmp_loom_rank order by their key and the sorts select them as documented; set_sort_criteria sorts by rank only when every loom has ranks; the virtual CPU follows the physical CPUs and global indices follow list order; load_appid, load_rank (16 cases) and load_cpus (6 cases) accept repeated attributes only when equal and reject contradictions, duplicate TIDs are refused, and these errors reach the exit status. Not decided: independence from the distribution of attributes over threads in general (a metamorphic property over inputs) and the uthash/utlist sort implementations.",
   design_ref="§4 C15"),
 "C16": dict(
   technique="order-abstraction of the qsort comparator (clock and position orderings), relational interval analysis of the pwrite write-back loop, typestate evaluation of the sort-region state machine on all event-class sequences up to length 4 (path-local scripts), error propagation to ovnisort's exit status",
   text="Claims named clauses only. cmp_ev, evaluated on the orderings of (clock, stream position), must be a total order (by clock, ties by position, 0 only for the same element) because ISO C qsort is not stable; write_stream must write (src,size) at file offset dst-base, advancing all three by pwrite's return until nothing remains and dying on error, fdatasync/close failures must abort; stream_winsort is evaluated on all 121 sequences of {region start, region end, other} up to length 4 plus longer ones: a plan is executed exactly for each non-empty region from its first inner event to the closing marker, every event enters the ring once in order, a failing plan fails the sort; a missing destination makes execute_sort_plan fail and that reaches exit status 1. NOT decided (the core of C16): that the result is a sorted permutation, the untouched prefix and idempotence - these are properties of array contents.",
   design_ref="§4 C16"),
 "C17": dict(
   technique="writer/reader literal agreement with constant-folded key construction, abstract evaluation of the mark emitters and of mark_event / parse_mark / add_label / create_mark_type over their finite case spaces, constant checks of tracking modes and PRV type offset",
   text="The keys the runtime writes for a mark type and label (snprintf evaluated on constant formats) and the keys/tokens the emulator reads must agree (ovni.mark.<t>.title / .chan_type in {single, stack} / .labels.<v>), with the right token per flag and the right channel type per token; ovni_mark_push/pop/set must emit OM[ OM] OM= with (i64 value, i32 type), the catalogue must declare that shape, and mark_event must require 12 bytes, read offsets 0 and 8 and map [ ] = to push/pop/set on the type's channel; zero values, out-of-range / undefined / redefined types and title, channel-type and label conflicts must be refused on the side that sees them; types show under PRV 100 + type, threads tracked while ACTIVE, CPUs for the RUNNING thread. Not decided: merging of definitions across threads inside the hash tables (data).",
   design_ref="§4 C17"),
 "C18": dict(
   technique="abstract interpretation of handler dispatch over all 65536 (category,value) codes per model vs. the constant event catalogue (clang AST/CFG facts)",
   text="Exhaustive over the finite code space: for each of the 8 models the set of (c,v) codes the event hook can accept is computed exactly from the CFGs and constant tables and compared with the declared catalogue in both directions; declared payload shapes are bound to ev->payload_size/is_jumbo and every declared event must still be accepted and every constant-offset payload read must lie inside the declared payload; catalogue self-consistency is evaluated with ev_spec.c's grammar. Not decided: ovnidump's formatted output for all argument values.",
   design_ref="§4 C18"),
 "C19": dict(
   technique="guarded-use analysis of trace bytes: relational interval abstract interpretation of stream_step over symbolic offset/size/event bytes (two consecutive calls, inductive), per-read byte-range obligations from record layouts; symbolic payload-size evaluation of every payload read in the handlers; evaluation of the printer's payload check; table-dimension and index-range checks",
   text="Decides the memory-safety and progress clauses: for every stream size, offset and event bytes, each read stream_step performs through the cursor (flags, jumbo size, clock) is inside the mapped stream, an accepted event lies wholly inside the stream as the decoder will read it, and the cursor advances by at least one header with the size computed without narrowing; every constant-offset payload read in the 8 models' handlers and the mark handler is dominated by a payload-size test covering the bytes (escalating to callers); jumbo data is used as a string only after size and terminator tests; the event printer's payload check is evaluated on 9 shape cases and its result must be used; dispatch tables are 256x256; CPU and mux indices are range-checked. Assumes streams below 2 GiB for the decoder clause. Not decided: termination in general and robustness to arbitrary JSON beyond the getters' NULL/0 discipline.",
   design_ref="§4 C19"),
 "C20": dict(
   technique="abstract evaluation of the breakdown selectors and wiring in both task models (sibling agreement), of sort_cb_input's store/compare/write discipline, and bounded abstract evaluation of sort_replace on all sorted arrays of length 1..4 over {0..3}",
   text="Decides the wiring clauses and a bounded part of the core: select_tr / select_idle are evaluated over their value cases in nOS-V and Nanos6 and must choose task type / subsystem / nothing and tr / idle as documented; connect_cpu's mux0/mux1 wiring (select, inputs, default) and breakdown_connect's mapping of the i-th physical CPU to sort input i and row i (virtual CPUs skipped, rows = ncpus - nlooms) must match; cmp_int64 is ascending; sort_cb_input stores the new value first, skips unchanged inputs and writes exactly the outputs that change; sort_replace is evaluated on all 420 (sorted array of <= 4 values in {0..3}, old, new) cases and must yield the sorted multiset. NOT decided: that sort_replace keeps the array a sorted permutation for arrays of unbounded length (a loop invariant over array contents), hence 'at every instant' for arbitrary CPU counts.",
   design_ref="§4 C20"),
}

NA_REASON = "not claimed"

checks = []
na = []
for p in props:
    pid = p["id"]
    if pid in CLAIMS:
        c = CLAIMS[pid]
        checks.append({
            "property_id": pid,
            "quick_cmd": "./check %s --tier quick" % pid,
            "thorough_cmd": "./check %s --tier thorough" % pid,
            "evidence_file": "evidence/%s.json" % pid,
            "replay_cmd_template": "./check %s --replay {path}" % pid,
            "engine": "ovsa",
            "level_claimed": {"category": "other", "text": c["text"], "design_ref": c["design_ref"]},
            "level_note": NOTE,
            "technique": c["technique"],
        })
    else:
        na.append({"property_id": pid, "reason": NA_REASON})

m = {
 "version": 1,
 "setup_cmd": "./setup.sh",
 "hooks": {"guard": "OVNI_VERIF",
           "enable": "none: the static analyses need no hooks in /repo; the guard name is reserved and unused",
           "baseline_off_cmd": "cmake -G Ninja -S /repo -B /repo/_build >/dev/null && cmake --build /repo/_build >/dev/null && ctest --test-dir /repo/_build -j8 --timeout 900",
           "source_commits": [], "add_only": True},
 "engines": [
   {"name": "ovx", "path": "ovx/ovx.cc", "serves_properties": sorted(CLAIMS),
    "kind_free_text": "LibTooling fact extractor: typed AST nodes, clang::CFG, constant initialisers, record layouts, macro provenance per translation unit"},
   {"name": "ovsa", "path": "ovsa/", "serves_properties": sorted(CLAIMS),
    "kind_free_text": "Python static-analysis library: linking, call graph, no-return inference, dominators, dispatch abstract interpretation, rule driver, known-findings matching, self-test witnesses"}],
 "checks": checks,
 "notes": "Static analysis only (DESIGN.md). Exit codes: 0 holds, 1 VIOLATION, 2 analysis broken (anchor vanished / self-test failed).",
 "not_applicable": na,
}
json.dump(m, open(os.path.join(HERE, "MANIFEST.json"), "w"), indent=1)
print("claimed:", sorted(CLAIMS), "n/a:", len(na))
